#!/bin/bash
# usage: goal.sh file.v LINE  -- shows the goal after executing the first LINE lines
f=$1; n=$2
head -n $n $f > /tmp/goal_$$.v
echo "Show." >> /tmp/goal_$$.v
cd /verif/coq && timeout 120 coqtop -Q theories HbsLms -batch -load-vernac-source /tmp/goal_$$.v 2>&1 | tail -${3:-40}
rm -f /tmp/goal_$$.v
