(* C15: fast-verify signing is ordinary signing of the message with the chosen trailer. *)
From HbsLms Require Import Base.Bytes Model.Consts Model.Winternitz Model.Lmots Model.KeyBlob Model.Hss
     Model.SignCore Model.FastVerify.
From HbsLms Require Import Proofs.AuxProofs.

Local Open Scope N_scope.

Section FastVerifyProofs.
  Variable K : consts.
  Variable n : nat.
  Variable H : bytes -> bytes.

  (* a well-formed input: non-empty body followed by n zero bytes; r is whatever the search chose *)
  Theorem sign_mut_wellformed blob body r cb :
    body <> [] ->
    sign_mut K n H blob (body ++ repeat x00 n) r cb
    = (fst (sign_core K n H blob (body ++ r) cb), snd (sign_core K n H blob (body ++ r) cb),
       if key_loads K n blob then body ++ r else body ++ repeat x00 n).
  Proof.
    intros Hb. unfold sign_mut. rewrite app_length, repeat_length.
    assert (Hl : (0 < length body)%nat) by (destruct body; [congruence|cbn; lia]).
    replace (Nat.leb (length body + n) n) with false by (symmetry; apply Nat.leb_gt; lia).
    replace (length body + n - n)%nat with (length body) by lia.
    rewrite firstn_app, Nat.sub_diag, firstn_all. cbn [firstn]. rewrite app_nil_r.
    rewrite skipn_app, Nat.sub_diag, skipn_all. cbn [skipn app].
    rewrite all_zero_repeat. cbn [negb].
    destruct (sign_core K n H blob (body ++ r) cb). reflexivity.
  Qed.

  Theorem sign_mut_refuses_short blob msg r cb :
    (length msg <= n)%nat -> sign_mut K n H blob msg r cb = (Err, [], msg).
  Proof. intros Hl. unfold sign_mut. now rewrite (proj2 (Nat.leb_le _ _) Hl). Qed.

  Theorem sign_mut_refuses_nonzero_trailer blob msg r cb :
    (n < length msg)%nat -> all_zero (skipn (length msg - n) msg) = false ->
    sign_mut K n H blob msg r cb = (Err, [], msg).
  Proof.
    intros Hl Hz. unfold sign_mut.
    replace (Nat.leb (length msg) n) with false by (symmetry; apply Nat.leb_gt; lia).
    now rewrite Hz.
  Qed.

  (* only the trailer changes *)
  Theorem sign_mut_touches_only_trailer blob body r cb res calls msg' :
    body <> [] -> length r = n ->
    sign_mut K n H blob (body ++ repeat x00 n) r cb = (res, calls, msg') ->
    firstn (length body) msg' = body /\ length msg' = (length body + n)%nat.
  Proof.
    intros Hb Lr E. rewrite sign_mut_wellformed in E by assumption.
    injection E as _ _ <-. destruct (key_loads K n blob).
    - rewrite firstn_app, Nat.sub_diag, firstn_all, app_length, Lr. cbn [firstn]. now rewrite app_nil_r.
    - rewrite firstn_app, Nat.sub_diag, firstn_all, app_length, repeat_length. cbn [firstn]. now rewrite app_nil_r.
  Qed.
End FastVerifyProofs.

(* ---------------------------------------------------------------- the cost function *)

From HbsLms Require Import Model.Counter Proofs.CounterProofs Proofs.WinternitzProofs Proofs.WinternitzDom.

Section FvEval.
  Variable n : nat.
  Variable prm : otsp.
  Hypothesis OK : dom_ok n prm = true.

  Local Notation w := (o_w prm).
  Local Notation u := (n * dn (o_w prm))%nat.

  Lemma coef_app_l (Q T : bytes) i : (coef_index i w < length Q)%nat -> coef (Q ++ T) i w = coef Q i w.
  Proof. intros Hi. unfold coef. now rewrite app_nth1. Qed.

  Lemma fold_add_N l a : fold_left N.add l a = a + sumN l.
  Proof.
    revert a; induction l as [|x l IH]; intros a; cbn [fold_left sumN fold_right]; [lia|].
    rewrite IH. fold (sumN l). lia.
  Qed.

  Lemma index_second (k : N) :
    k < N.of_nat (o_p prm - u) ->
    (n <= coef_index (N.of_nat u + k) w < n + 2)%nat.
  Proof.
    intros Hk. pose proof (ok_w n prm OK) as Hw. pose proof (v_le n prm OK) as Hv.
    destruct (dn_pos w Hw) as [Hp Hd].
    rewrite coef_index_spec by assumption. rewrite <- Hd.
    assert (E : N.of_nat u = N.of_nat n * N.of_nat (dn w)) by lia.
    rewrite E. rewrite N.div_add_l by lia.
    assert (Hq : k / N.of_nat (dn w) < 2).
    { apply N.div_lt_upper_bound; lia. }
    remember (k / N.of_nat (dn w)) as qq. clear Heqqq. lia.
  Qed.

  Theorem fv_eval_spec Q :
    length Q = n -> fv_eval n prm Q = Ok (ots_hash_iterations n prm Q).
  Proof.
    intros Hl. pose proof (ok_w n prm OK) as Hw. pose proof (ok_up n prm OK) as Hup.
    pose proof (ok_len n prm OK) as Hlen. destruct (dn_pos w Hw) as [Hp Hd].
    unfold fv_eval, ots_hash_iterations.
    rewrite dn_mul by assumption.
    (* first part: the message digits *)
    rewrite (fold_add_sum (fun i => coef Q i w)), N.add_0_l.
    assert (ET : sumN (map (fun i => coef Q i w) (nrange u)) = sumN (str_digits w Q)).
    { f_equal. rewrite <- Hl at 1. apply map_coef_str; [assumption|]. rewrite Hl. nia. }
    rewrite ET.
    assert (ES : N.of_nat u * coef_mask w - sumN (str_digits w Q) = cksm_sum n w Q).
    { pose proof (cksm_sum_digits n prm OK Q Hl) as E. rewrite coef_mask_spec. lia. }
    rewrite ES. fold (checksum n prm Q). fold (cks_bytes n prm Q).
    (* the digit vector splits the same way *)
    unfold digits, append_checksum. fold (cks_bytes n prm Q).
    replace (o_p prm) with (u + (o_p prm - u))%nat at 2 by lia.
    rewrite nrange_app, map_app, fold_add_N, N.add_0_l, sumN_app.
    assert (E1 : map (fun i => coef (Q ++ cks_bytes n prm Q) i w) (nrange u) = map (fun i => coef Q i w) (nrange u)).
    { apply map_ext_in. intros i Hi. apply nrange_In in Hi. apply coef_app_l.
      rewrite coef_index_spec by assumption. rewrite Hl, <- Hd.
      assert (Hq : i / N.of_nat (dn w) < N.of_nat n) by (apply N.div_lt_upper_bound; lia).
      remember (i / N.of_nat (dn w)) as qq. clear Heqqq. lia. }
    rewrite E1, ET. rewrite map_map.
    (* second part: the checksum digits, read from the two checksum bytes *)
    generalize (sumN (str_digits w Q)) as a.
    assert (G : forall l a,
               Forall (fun k => k < N.of_nat (o_p prm - u)) l ->
               fold_left (fun acc i =>
                            do a0 <- acc;
                            if Nat.ltb (coef_index i w) n then Panic
                            else match nth_error (cks_bytes n prm Q) (coef_index i w - n) with
                                 | None => Panic
                                 | Some b => Ok (a0 + N.land (N.shiftr (b2n b) (coef_shift i w)) (coef_mask w))
                                 end)
                         (map (fun k => N.of_nat u + k) l) (Ok a)
               = Ok (a + sumN (map (fun k => coef (Q ++ cks_bytes n prm Q) (N.of_nat u + k) w) l))).
    { induction l as [|k l IH]; intros a F; cbn [map fold_left sumN fold_right]; [f_equal; lia|].
      pose proof (Forall_inv F) as Hk. pose proof (Forall_inv_tail F) as F'. cbn beta in Hk. cbn [bind].
      destruct (index_second k Hk) as [I1 I2].
      replace (Nat.ltb (coef_index (N.of_nat u + k) w) n) with false by (symmetry; apply Nat.ltb_ge; exact I1).
      assert (EN : nth_error (cks_bytes n prm Q) (coef_index (N.of_nat u + k) w - n)
                   = Some (nth (coef_index (N.of_nat u + k) w) (Q ++ cks_bytes n prm Q) x00)).
      { rewrite app_nth2 by lia. rewrite Hl. apply nth_error_nth'. unfold cks_bytes. cbn [length]. lia. }
      rewrite EN. rewrite IH by assumption. f_equal.
      fold (sumN (map (fun k0 => coef (Q ++ cks_bytes n prm Q) (N.of_nat u + k0) w) l)).
      unfold coef at 2. lia. }
    intros a. rewrite G; [reflexivity|].
    apply Forall_forall. intros k Hk. now apply nrange_In in Hk.
  Qed.
End FvEval.
