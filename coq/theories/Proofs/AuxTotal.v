(* Decoded parameter bytes are constructible parameter pairs; the expanded view of an auxiliary
   buffer never fails: whatever the buffer contains, [get_expanded] returns a view or none. *)
From HbsLms Require Import Base.Bytes Model.Consts Model.Winternitz Model.Lmots Model.Lms Model.Derive
     Model.Counter Model.KeyBlob Model.Hss Model.Aux Model.SignCore.
From HbsLms Require Import Proofs.CounterProofs Proofs.CodecProofs Proofs.HssComplete Proofs.KeyBlobProofs
     Proofs.SignProofs Proofs.TotalProofs Proofs.AuxProofs Proofs.AuxSignProofs.

Local Open Scope N_scope.

Lemma Ok_inj {A} (a b : A) : Ok a = Ok b -> a = b.
Proof. intros E. now injection E. Qed.

Section DecodeTbl.
  Variable K : consts.
  Variable n : nat.

  Lemma ots_of_u32_tbl code o : ots_of_u32 K n code = Some o ->
    exists ov, In ov (c_ots_construct K) /\ ots_construct K n (fst ov) = Some o.
  Proof.
    unfold ots_of_u32. destruct (assoc code (c_ots_from_u32 K)) as [v|]; [|discriminate].
    intros E. pose proof E as E0. unfold ots_construct in E.
    destruct (assoc v (c_ots_construct K)) as [[[ty w] ls]|] eqn:A; [|discriminate].
    apply assoc_In in A. exists (v, (ty, w, ls)). split; [exact A|exact E0].
  Qed.

  Lemma lms_of_u32_tbl code l : lms_of_u32 K code = Some l ->
    exists lv, In lv (c_lms_construct K) /\ lms_construct K (fst lv) = Some l.
  Proof.
    unfold lms_of_u32. destruct (assoc code (c_lms_from_u32 K)) as [v|]; [|discriminate].
    intros E. pose proof E as E0. unfold lms_construct in E.
    destruct (assoc v (c_lms_construct K)) as [[ty h]|] eqn:A; [|discriminate].
    apply assoc_In in A. exists (v, (ty, h)). split; [exact A|exact E0].
  Qed.

  Lemma decoded_in_tbl co cl o l :
    ots_of_u32 K n co = Some o -> lms_of_u32 K cl = Some l -> In (o, l) (tbl_params K n).
  Proof.
    intros EO EL. destruct (ots_of_u32_tbl _ _ EO) as [ov [Io Co]]. destruct (lms_of_u32_tbl _ _ EL) as [lv [Il Cl]].
    unfold tbl_params. apply in_flat_map. exists ov. split; [exact Io|]. rewrite Co.
    apply in_flat_map. exists lv. split; [exact Il|]. rewrite Cl. now left.
  Qed.

  Lemma params_decode_in_tbl i bs ps :
    params_decode K n i bs = Ok ps -> Forall (fun p => In p (tbl_params K n)) ps.
  Proof.
    revert i ps; induction bs as [|b r IH]; intros i ps; cbn [params_decode].
    - intros E. apply Ok_inj in E. subst. constructor.
    - destruct (b2n b =? c_param_set_end K); [intros E; apply Ok_inj in E; subst; constructor|].
      destruct (ots_of_u32 K n (N.land (b2n b) 15)) as [o|] eqn:EO; [|discriminate].
      destruct (lms_of_u32 K (N.shiftr (b2n b) 4)) as [l|] eqn:EL; [|discriminate].
      destruct (within_limits K i (o, l)); [|discriminate].
      destruct (params_decode K n (S i) r) as [rest| |] eqn:ER; cbn [bind]; try discriminate.
      intros E. apply Ok_inj in E. subst. constructor; [exact (decoded_in_tbl _ _ _ _ EO EL)|].
      exact (IH _ _ ER).
  Qed.

  Lemma params_of_bytes_in_tbl bs ps :
    params_of_bytes K n bs = Ok ps -> Forall (fun p => In p (tbl_params K n)) ps.
  Proof.
    unfold params_of_bytes. destruct (params_decode K n 0 bs) as [ps'| |] eqn:E; cbn [bind]; try discriminate.
    destruct ps' as [|p r]; [discriminate|]. intros X. apply Ok_inj in X. subst.
    exact (params_decode_in_tbl _ _ _ E).
  Qed.

  Hypothesis OK : model_ok K n = true.

  Lemma params_of_bytes_wf bs ps : params_of_bytes K n bs = Ok ps -> Forall (wf_param K n) ps.
  Proof.
    intros E. pose proof (params_of_bytes_in_tbl _ _ E) as F.
    rewrite Forall_forall in *. intros p Hp. exact (ok_wf K n OK p (F p Hp)).
  Qed.
End DecodeTbl.

(* ------------------------------------------------------------------------------------------
   get_expanded is total *)

Lemma split_layers_ok sizes : forall data,
  fold_right N.add 0 (map snd sizes) <= N.of_nat (length data) ->
  exists ls rest, split_layers sizes data = Ok (ls, rest).
Proof.
  induction sizes as [|[i sz] r IH]; intros data Hs; cbn [split_layers].
  - eauto.
  - cbn [map snd fold_right] in Hs.
    destruct (N.ltb_spec (N.of_nat (length data)) sz); [lia|].
    destruct (read_ok (N.to_nat sz) data) as [layer [rest [E L]]]; [lia|]. rewrite E.
    destruct (IH rest) as [ls [rest' E']]; [lia|]. rewrite E'. cbn [bind]. eauto.
Qed.

Definition lsum (n : nat) (ls : list nat) : N := fold_right N.add 0 (map (fun l => N.of_nat n * 2 ^ N.of_nat l) ls).

Lemma pick_levels_sum n ls : forall avail chosen rem,
  pick_levels n ls avail = (chosen, rem) -> lsum n chosen + rem = avail.
Proof.
  induction ls as [|l r IH]; intros avail chosen rem; cbn [pick_levels].
  - intros E. apply pair_equal_spec in E. destruct E as [<- <-]. reflexivity.
  - destruct (N.leb_spec (N.of_nat n * 2 ^ N.of_nat l) avail) as [Hle|Hgt].
    + destruct (pick_levels n r (avail - N.of_nat n * 2 ^ N.of_nat l)) as [c rm] eqn:E.
      intros X. apply pair_equal_spec in X. destruct X as [<- <-].
      specialize (IH _ _ _ E). unfold lsum in *. cbn [map fold_right]. lia.
    + apply IH.
Qed.

(* bits of the level word *)
Lemma level_bits ls : forall acc i,
  N.testbit (fold_left (fun a l => N.lor a (N.shiftl 1 (N.of_nat l))) ls acc) (N.of_nat i)
  = N.testbit acc (N.of_nat i) || existsb (Nat.eqb i) ls.
Proof.
  induction ls as [|l r IH]; intros acc i; cbn [fold_left existsb]; [now rewrite orb_false_r|].
  rewrite IH, N.lor_spec, N.shiftl_1_l, N.pow2_bits_eqb.
  replace (N.of_nat l =? N.of_nat i) with (Nat.eqb i l).
  - now rewrite orb_assoc.
  - destruct (Nat.eqb_spec i l) as [->|Hne]; [now rewrite N.eqb_refl|].
    symmetry. apply N.eqb_neq. lia.
Qed.

(* the layers announced by (the low 32 bits of) a level word are among the chosen levels *)
Lemma layers_le_chosen n chosen k :
  (k <= 31)%nat ->
  fold_right N.add 0
    (map snd (flat_map (fun i => if N.testbit (level_word chosen mod 4294967296) (N.of_nat i)
                                 then [(i, N.of_nat n * 2 ^ N.of_nat i)] else []) (seq 0 k)))
  <= fold_right N.add 0 (map (fun l => if Nat.ltb l k then N.of_nat n * 2 ^ N.of_nat l else 0) chosen).
Proof.
  induction k as [|k IH]; intros Hk.
  - cbn. lia.
  - rewrite seq_S, flat_map_app, map_app, fold_right_app. cbn [Nat.add flat_map].
    rewrite app_nil_r.
    assert (IHk := IH ltac:(lia)). clear IH.
    (* the contribution of level k *)
    assert (Hbit : N.testbit (level_word chosen mod 4294967296) (N.of_nat k) = existsb (Nat.eqb k) chosen).
    { change 4294967296 with (2 ^ 32). rewrite N.mod_pow2_bits_low by lia.
      unfold level_word. destruct chosen as [|c cs]; [reflexivity|].
      rewrite level_bits. change 0x80000000 with (2 ^ 31). rewrite N.pow2_bits_eqb.
      destruct (N.eqb_spec 31 (N.of_nat k)); [lia|]. reflexivity. }
    rewrite Hbit.
    assert (Hsplit : fold_right N.add 0 (map (fun l => if Nat.ltb l (S k) then N.of_nat n * 2 ^ N.of_nat l else 0) chosen)
                     = fold_right N.add 0 (map (fun l => if Nat.ltb l k then N.of_nat n * 2 ^ N.of_nat l else 0) chosen)
                       + fold_right N.add 0 (map (fun l => if Nat.eqb k l then N.of_nat n * 2 ^ N.of_nat l else 0) chosen)).
    { clear. induction chosen as [|c cs IHc]; [reflexivity|]. cbn [map fold_right]. rewrite IHc.
      destruct (Nat.ltb_spec c (S k)), (Nat.ltb_spec c k), (Nat.eqb_spec k c); lia. }
    rewrite Hsplit.
    assert (Hone : (if existsb (Nat.eqb k) chosen then N.of_nat n * 2 ^ N.of_nat k else 0)
                   <= fold_right N.add 0 (map (fun l => if Nat.eqb k l then N.of_nat n * 2 ^ N.of_nat l else 0) chosen)).
    { clear. induction chosen as [|c cs IHc]; [cbn; lia|]. cbn [existsb map fold_right].
      destruct (Nat.eqb_spec k c) as [->|]; cbn [orb]; [|lia].
      destruct (existsb (Nat.eqb c) cs); lia. }
    (* fold over [acc := rest] *)
    assert (Hfold : forall (l : list N) a, fold_right N.add a l = fold_right N.add 0 l + a).
    { clear. induction l as [|x l IHl]; intros a; cbn [fold_right]; [lia|]. rewrite IHl. lia. }
    rewrite Hfold.
    destruct (existsb (Nat.eqb k) chosen); cbn [map snd fold_right] in *; lia.
Qed.

Lemma lsum_bound n chosen k :
  fold_right N.add 0 (map (fun l => if Nat.ltb l k then N.of_nat n * 2 ^ N.of_nat l else 0) chosen) <= lsum n chosen.
Proof.
  unfold lsum. induction chosen as [|c cs IH]; cbn [map fold_right]; [lia|].
  destruct (Nat.ltb c k); lia.
Qed.

(* side conditions on the aux constants, decidable by computation *)
Definition aux_consts_ok (K : consts) : bool :=
  Nat.leb 4 (c_aux_data_hashes K) && Nat.ltb (max_tree_height K) 31
  && Nat.eqb (c_aux_data_marker K) 0 && (c_no_aux_data K <? 256).

Section GetExpandedTotal.
  Variable K : consts.
  Variable n : nat.
  Variable H : bytes -> bytes.
  Hypothesis AOK : aux_consts_ok K = true.

  Lemma aok : (4 <= c_aux_data_hashes K)%nat /\ (max_tree_height K < 31)%nat
              /\ c_aux_data_marker K = 0%nat /\ c_no_aux_data K < 256.
  Proof.
    unfold aux_consts_ok in AOK. rewrite !andb_true_iff in AOK.
    destruct AOK as [[[A B] C] D]. apply Nat.leb_le in A. apply Nat.ltb_lt in B.
    apply Nat.eqb_eq in C. apply N.ltb_lt in D. tauto.
  Qed.

  (* an in-use buffer: the MAC check implies that the announced layers fit *)
  Lemma expand_in_use_total aux seed : exists oe, expand_aux K n H aux (Some seed) = Ok oe.
  Proof.
    unfold expand_aux. destruct aux as [|b0 r]; [eauto|].
    destruct (b2n b0 =? c_no_aux_data K); [eauto|].
    destruct (read 4 (b0 :: r)) as [[lb body]|] eqn:ER; [|eauto].
    cbv zeta.
    destruct (N.ltb_spec (N.of_nat (length (b0 :: r))) (4 + fold_right N.add 0 (map snd (layer_sizes K n (be_dec lb)))))
      as [|Hfit]; cbn [negb]; [eauto|].
    destruct (bytes_eqb _ _); cbn [negb]; [|eauto].
    apply read_Some in ER. destruct ER as [E L]. apply (f_equal (@length byte)) in E. rewrite app_length in E.
    destruct (split_layers_ok (layer_sizes K n (be_dec lb)) body) as [ls [rest ES]]; [lia|].
    rewrite ES. cbn [bind]. eauto.
  Qed.

  (* a fresh buffer: the level word written by hss_store_aux_marker announces no more than was
     reserved by hss_optimal_aux_level *)
  Lemma expand_fresh_total len h0 :
    exists oe, expand_aux K n H (store_marker K (repeat x00 len) (fst (optimal_aux K n len h0))) None = Ok oe.
  Proof.
    destruct aok as [A4 [A31 [AM AN]]].
    unfold optimal_aux.
    destruct (Nat.ltb_spec len (c_aux_data_hashes K + n)) as [Hsmall|Hbig].
    - (* no room: the marker byte says "no aux data" *)
      cbn [fst]. unfold store_marker. rewrite N.eqb_refl, AM. unfold Lmots.blit. cbn [firstn app length Nat.add].
      unfold expand_aux. rewrite b2n_n2b, N.mod_small by assumption. rewrite N.eqb_refl. eauto.
    - destruct (pick_levels n (levels_from K h0 (S h0)) (N.of_nat (len - (c_aux_data_hashes K + n)))) as [chosen rem] eqn:EP.
      cbn [fst]. pose proof (pick_levels_sum _ _ _ _ _ EP) as HS.
      unfold store_marker.
      destruct (N.eqb_spec (level_word chosen) 0) as [E0|Hne].
      + rewrite AM. unfold Lmots.blit. cbn [firstn app length Nat.add].
        unfold expand_aux. rewrite b2n_n2b, N.mod_small by assumption. rewrite N.eqb_refl. eauto.
      + (* marked = be 4 lvl ++ zeros *)
        assert (EM : Lmots.blit (repeat x00 len) 0 (be 4 (level_word chosen)) = be 4 (level_word chosen) ++ repeat x00 (len - 4)).
        { unfold Lmots.blit. cbn [firstn app]. rewrite be_length. cbn [Nat.add]. now rewrite skipn_repeat. }
        rewrite EM. unfold expand_aux.
        destruct (be 4 (level_word chosen) ++ repeat x00 (len - 4)) as [|b0 r] eqn:EB; [eauto|].
        destruct (b2n b0 =? c_no_aux_data K); [eauto|].
        rewrite <- EB. rewrite (read_app 4 (be 4 (level_word chosen))) by apply be_length.
        cbv zeta. cbn [negb]. rewrite be_dec_be. change (256 ^ N.of_nat 4) with 4294967296.
        destruct (split_layers_ok (layer_sizes K n (level_word chosen mod 4294967296)) (repeat x00 (len - 4)))
          as [ls [rest ES]].
        * rewrite repeat_length. unfold layer_sizes.
          eapply N.le_trans; [apply (layers_le_chosen n chosen (S (max_tree_height K))); lia|].
          eapply N.le_trans; [apply lsum_bound|]. lia.
        * rewrite ES. cbn [bind]. eauto.
  Qed.

  Theorem get_expanded_total aux seed h0 :
    exists oe aux1, get_expanded K n H aux seed h0 = Ok (oe, aux1).
  Proof.
    unfold get_expanded. destruct aux as [|b0 r]; [eauto|].
    destruct (negb (b2n b0 =? c_no_aux_data K)).
    - destruct (expand_in_use_total (b0 :: r) seed) as [oe E]. rewrite E. cbn [bind]. eauto.
    - cbv zeta.
      pose proof (expand_fresh_total (aux_data_len K n (length (b0 :: r)) h0) h0) as [oe E].
      destruct (optimal_aux K n (aux_data_len K n (length (b0 :: r)) h0) h0) as [lvl l2] eqn:EO.
      cbn [fst] in E. rewrite E. cbn [bind]. eauto.
  Qed.
End GetExpandedTotal.

(* key generation and signing with ANY auxiliary buffer do not panic *)
Section AuxEntryTotal.
  Variable K : consts.
  Variable n : nat.
  Variable H : bytes -> bytes.
  Hypothesis AOK : aux_consts_ok K = true.

  Lemma hss_signature_aux_total ps seed c msg e : hss_signature_aux K n H ps seed c msg e <> Panic.
  Proof.
    unfold hss_signature_aux. destruct (combine ps _) as [|[p0 q0] below]; [discriminate|].
    destruct (root_seed_I _ _ _) as [s0 I0]. destruct below as [|[p1 q1] rest].
    - destruct (lms_sign_bytes_aux K n H I0 s0 p0 q0 _ msg e). discriminate.
    - destruct (child_seed_I K H s0 I0 q0) as [cseed cI].
      destruct (lms_sign_bytes_aux K n H I0 s0 p0 q0 _ _ e).
      destruct (expand K n H cseed cI p1 q1 rest) as [spks [[[bseed bI] bp] bq]]. discriminate.
  Qed.

  Theorem sign_core_aux_total blob msg aux cb : fst (fst (sign_core_aux K n H blob msg aux cb)) <> Panic.
  Proof.
    unfold sign_core_aux. pose proof (blob_parse_total K n blob).
    destruct (blob_parse K n blob) as [k| |]; cbn [fst]; try congruence; try discriminate.
    pose proof (params_of_bytes_total K n (k_params k)).
    destruct (params_of_bytes K n (k_params k)) as [ps| |]; cbn [fst]; try congruence; try discriminate.
    destruct ps as [|p0 r]; cbn [fst]; [discriminate|].
    destruct (get_expanded_total K n H AOK aux (k_seed k) (l_h (snd p0))) as [oe [aux1 E]]. rewrite E.
    destruct oe as [e|].
    - pose proof (hss_signature_aux_total (p0 :: r) (k_seed k) (k_counter k) msg e).
      destruct (hss_signature_aux K n H (p0 :: r) (k_seed k) (k_counter k) msg e) as [[s e']| |];
        cbn [fst]; try congruence; try discriminate.
      destruct (cb _); cbn [fst]; discriminate.
    - pose proof (hss_signature_total K n H (p0 :: r) (k_seed k) (k_counter k) msg).
      destruct (hss_signature K n H (p0 :: r) (k_seed k) (k_counter k) msg);
        cbn [fst]; try congruence; try discriminate.
      destruct (cb _); cbn [fst]; discriminate.
  Qed.

  Theorem keygen_aux_total ps seed aux : keygen_aux K n H ps seed aux <> Panic.
  Proof.
    unfold keygen_aux, key_generate, params_to_bytes.
    destruct (Nat.ltb _ _); cbn [bind]; [discriminate|].
    destruct (negb _); cbn [bind]; [discriminate|]. cbn [k_params k_seed].
    pose proof (params_of_bytes_total K n
                  (map (pack_param) ps ++ repeat (n2b (c_param_set_end K)) (c_ref_levels K - length ps))) as P.
    destruct (params_of_bytes K n _) as [ps'| |]; cbn [bind]; try congruence; try discriminate.
    destruct ps' as [|p0 r]; [discriminate|].
    destruct (get_expanded_total K n H AOK aux seed (l_h (snd p0))) as [oe [aux1 E]]. rewrite E. cbn [bind].
    destruct (root_seed_I K H seed) as [s0 I0].
    destruct oe as [e|].
    - destruct (tree_aux K n H (l_h (snd p0)) I0 s0 (fst p0) (l_h (snd p0)) 1 e) as [rt e'].
      destruct (Nat.ltb _ _); [discriminate|]. destruct (Nat.ltb _ _); discriminate.
    - destruct (Nat.ltb _ _); [discriminate|]. destruct (Nat.ltb _ _); discriminate.
  Qed.
End AuxEntryTotal.

(* signing with a buffer = signing without, whenever the view of the buffer is absent or good:
   the well-formedness and totality premises of [sign_core_aux_same] are theorems *)
Section SignAuxStrong.
  Variable K : consts.
  Variable n : nat.
  Variable H : bytes -> bytes.
  Hypothesis H_len : forall x, length (H x) = n.
  Hypothesis OK : model_ok K n = true.
  Hypothesis AOK : aux_consts_ok K = true.

  Theorem sign_core_aux_same_strong blob msg aux cb :
    (forall k p0 r oe aux1,
        blob_parse K n blob = Ok k -> params_of_bytes K n (k_params k) = Ok (p0 :: r) ->
        get_expanded K n H aux (k_seed k) (l_h (snd p0)) = Ok (oe, aux1) ->
        good_view K n H (l_h (snd p0)) (snd (root_seed_I K H (k_seed k))) (fst (root_seed_I K H (k_seed k))) (fst p0) oe) ->
    let '(r, calls, _) := sign_core_aux K n H blob msg aux cb in
    (r, calls) = sign_core K n H blob msg cb.
  Proof.
    intros G. apply (sign_core_aux_same K n H H_len blob msg aux cb).
    - intros k p0 r oe aux1 EB EP EG. split; [exact (params_of_bytes_wf K n OK _ _ EP)|].
      exact (G k p0 r oe aux1 EB EP EG).
    - intros k p0 r _ _. apply (get_expanded_total K n H AOK).
  Qed.
End SignAuxStrong.
