(* Completeness: what the signer produces, the verifier's recomputation accepts.
   LM-OTS (chain composition) and LMS (climbing the authentication path), for an
   arbitrary hash function H and arbitrary constants. *)
From HbsLms Require Import Base.Bytes Model.Consts Model.Winternitz Model.Lmots Model.Lms.
From HbsLms Require Import Proofs.CounterProofs Proofs.WinternitzProofs.

Local Open Scope N_scope.

Section Complete.
  Variable K : consts.
  Variable n : nat.
  Variable H : bytes -> bytes.

  (* ---------------------------------------------------------------- LM-OTS *)

  Lemma chain_app I q i from s1 s2 x :
    chain K n H I q i (from + N.of_nat s1) s2 (chain K n H I q i from s1 x)
    = chain K n H I q i from (s1 + s2) x.
  Proof.
    revert from x; induction s1 as [|s1 IH]; intros from x.
    - cbn [chain Nat.add]. now rewrite N.add_0_r.
    - cbn [chain Nat.add]. rewrite <- IH. f_equal. lia.
  Qed.

  Lemma digits_bound prm Q : Forall (fun d => d <= chain_len prm) (digits n prm Q).
  Proof.
    unfold digits, chain_len. apply Forall_forall. intros d Hd. apply in_map_iff in Hd.
    destruct Hd as [i [<- _]]. rewrite <- coef_mask_spec. apply coef_bound.
  Qed.

  Lemma digits_length prm Q : length (digits n prm Q) = o_p prm.
  Proof. unfold digits. now rewrite map_length, nrange_length. Qed.

  Lemma ots_priv_length I q seed prm : length (ots_priv H I q seed prm) = o_p prm.
  Proof. unfold ots_priv. now rewrite map_length, nrange_length. Qed.

  Lemma chains_meet I q L (idx a : list N) (xs : list bytes) :
    length idx = length a -> length a = length xs -> Forall (fun d => d <= L) a ->
    map (fun t : N * N * bytes =>
           chain K n H I q (fst (fst t)) (snd (fst t)) (N.to_nat (L - snd (fst t))) (snd t))
        (combine (combine idx a)
                 (map (fun t : N * N * bytes =>
                         chain K n H I q (fst (fst t)) 0 (N.to_nat (snd (fst t))) (snd t))
                      (combine (combine idx a) xs)))
    = map (fun ix : N * bytes => chain K n H I q (fst ix) 0 (N.to_nat L) (snd ix)) (combine idx xs).
  Proof.
    revert a xs; induction idx as [|i idx IH]; intros [|d a] [|x xs] E1 E2 F;
      cbn in E1, E2; try discriminate; [reflexivity|].
    inversion F as [|? ? Hd Fa]; subst. cbn [combine map fst snd]. f_equal.
    - pose proof (chain_app I q i 0 (N.to_nat d) (N.to_nat (L - d)) x) as C.
      rewrite N2Nat.id, N.add_0_l in C. rewrite C. f_equal. lia.
    - apply IH; [lia|lia|assumption].
  Qed.

  (* Algorithm 4b recomputes the LM-OTS public key from a signature made by Algorithm 3 *)
  Theorem lmots_complete I q seed prm C msg :
    ots_candidate K n H I q prm C (ots_sign_ys K n H I q seed prm C msg) msg
    = ots_pub K n H I q seed prm.
  Proof.
    unfold ots_candidate, ots_sign_ys, ots_pub, ots_pub_of.
    rewrite chains_meet; [reflexivity| | |apply digits_bound].
    - now rewrite nrange_length, digits_length.
    - now rewrite digits_length, ots_priv_length.
  Qed.

  (* ---------------------------------------------------------------- LMS *)

  Lemma lxor_1 x : N.lxor x 1 = if N.odd x then x - 1 else x + 1.
  Proof. destruct x as [|[p|p|]]; reflexivity. Qed.

  Lemma odd_div2 x : N.odd x = true -> x = 2 * (x / 2) + 1.
  Proof.
    intros Ho. rewrite (N.div_mod x 2) at 1 by lia. f_equal.
    rewrite <- N.bit0_mod, N.bit0_odd, Ho. reflexivity.
  Qed.

  Lemma even_div2 x : N.odd x = false -> x = 2 * (x / 2).
  Proof.
    intros Ho. rewrite (N.div_mod x 2) at 1 by lia.
    rewrite <- N.bit0_mod, N.bit0_odd, Ho. cbn. lia.
  Qed.

  Section Tree.
    Variable h : nat.
    Variables (I seed : bytes) (prm : otsp).
    Variable leafnode : N.   (* 2^h + q *)

    Local Notation T := (tree K n H h I seed prm).
    Local Notation anc i := (leafnode / 2 ^ N.of_nat i).

    Lemma anc_succ i : anc (S i) = anc i / 2.
    Proof.
      rewrite Nat2N.inj_succ, N.pow_succ_r', (N.mul_comm 2), <- N.div_div;
        try reflexivity; try lia; apply N.pow_nonzero; lia.
    Qed.

    Lemma climb_tree k i :
      climb K H I (anc i) (T i (anc i))
            (map (fun j => T j (N.lxor (anc j) 1)) (seq i k))
      = T (i + k) (anc (i + k)).
    Proof.
      revert i; induction k as [|k IH]; intros i.
      - cbn [seq map climb]. now rewrite Nat.add_0_r.
      - cbn [seq map climb]. rewrite lxor_1.
        replace (i + S k)%nat with (S i + k)%nat by lia. rewrite <- IH, anc_succ.
        f_equal. cbn [tree].
        generalize (anc i). intros a.
        destruct (N.odd a) eqn:Ho.
        + pose proof (odd_div2 _ Ho) as E.
          replace (2 * (a / 2) + 1) with a by lia.
          replace (a - 1) with (2 * (a / 2)) by lia. reflexivity.
        + pose proof (even_div2 _ Ho) as E.
          replace (2 * (a / 2)) with a by lia.
          replace (a + 1) with (2 * (a / 2) + 1) by lia.
          replace (2 * (a / 2)) with a by lia. reflexivity.
    Qed.
  End Tree.

  (* the leaf recomputed from a signature and the authentication path lead to the tree root *)
  Theorem lms_complete I seed prm lp q C msg :
    q < 2 ^ N.of_nat (l_h lp) ->
    lms_candidate K n H I prm lp q C (ots_sign_ys K n H I q seed prm C msg)
                  (auth_path K n H I seed prm lp q) msg
    = lms_root K n H I seed prm lp.
  Proof.
    intros Hq. unfold lms_candidate, lms_root, auth_path.
    rewrite lmots_complete.
    set (h := l_h lp). set (node := 2 ^ N.of_nat h + q).
    assert (E0 : leaf_hash K H I node (ots_pub K n H I q seed prm) = tree K n H h I seed prm 0 (node / 2 ^ N.of_nat 0)).
    { cbn [tree]. change (2 ^ N.of_nat 0) with 1. rewrite N.div_1_r. unfold node.
      replace (2 ^ N.of_nat h + q - 2 ^ N.of_nat h) with q by lia. reflexivity. }
    pose proof (climb_tree h I seed prm node h 0) as CT.
    change (node / 2 ^ N.of_nat 0) with (node / 1) in CT. rewrite N.div_1_r in CT.
    change (node / 2 ^ N.of_nat 0) with (node / 1) in E0. rewrite N.div_1_r in E0.
    rewrite E0. cbn [Nat.add] in CT. rewrite CT. f_equal.
    unfold node. pose proof (pow2_pos (N.of_nat h)).
    replace (2 ^ N.of_nat h + q) with (1 * 2 ^ N.of_nat h + q) by lia.
    rewrite N.div_add_l by lia. rewrite N.div_small by assumption. reflexivity.
  Qed.
End Complete.
