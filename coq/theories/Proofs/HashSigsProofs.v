(* The model's derivations, under the constants of hash-sigs, are the reference's (Spec/HashSigs.v). *)
From HbsLms Require Import Base.Bytes Model.Consts Model.Lmots Model.Derive.
From HbsLms Require Import Spec.Rfc8554 Spec.HashSigs Proofs.RfcCore.

Local Open Scope N_scope.

Definition consts_hashsigs (K : consts) : bool :=
  Nat.eqb (c_ilen K) 16 && Nat.eqb (c_max_hash_size K) 32
  && Nat.eqb (c_topseed_seed K) 23 && Nat.eqb (c_topseed_len K) 55 && Nat.eqb (c_topseed_d K) 20
  && Nat.eqb (c_topseed_which K) 22 && (c_d_topseed K =? 0xfefe)
  && Nat.eqb (c_prng_i K) 0 && Nat.eqb (c_prng_q K) 16 && Nat.eqb (c_prng_j K) 20
  && Nat.eqb (c_prng_ff K) 22 && Nat.eqb (c_prng_seed K) 23 && Nat.eqb (c_prng_len_base K) 23
  && (c_seed_child_seed K =? 0xfffe) && (c_seed_randomizer_seed K =? 0xfffd).

Section HashSigsProofs.
  Variable K : consts.
  Variable H : bytes -> bytes.
  Hypothesis HS : consts_hashsigs K = true.

  Lemma hs_fields :
    c_ilen K = 16%nat /\ c_max_hash_size K = 32%nat
    /\ c_topseed_seed K = 23%nat /\ c_topseed_len K = 55%nat /\ c_topseed_d K = 20%nat
    /\ c_topseed_which K = 22%nat /\ c_d_topseed K = 0xfefe
    /\ c_prng_i K = 0%nat /\ c_prng_q K = 16%nat /\ c_prng_j K = 20%nat
    /\ c_prng_ff K = 22%nat /\ c_prng_seed K = 23%nat /\ c_prng_len_base K = 23%nat
    /\ c_seed_child_seed K = 0xfffe /\ c_seed_randomizer_seed K = 0xfffd.
  Proof.
    unfold consts_hashsigs in HS. rewrite !andb_true_iff, !Nat.eqb_eq, !N.eqb_eq in HS. tauto.
  Qed.

  Lemma topseed_pre_hs which fill :
    (length fill <= 32)%nat -> topseed_pre K which fill = hs_topseed which fill.
  Proof.
    intros Lf. destruct hs_fields as [_ [_ [E1 [E2 [E3 [E4 [E5 _]]]]]]].
    unfold topseed_pre, hs_topseed. rewrite E1, E2, E3, E4, E5.
    replace 55%nat with (20 + (1 + (1 + (1 + (length fill + (32 - length fill))))))%nat by lia.
    rewrite !repeat_app_N.
    rewrite (blit_exact (repeat x00 20) (repeat x00 1) _ [n2b (N.shiftr 65278 8)] 20)
      by (rewrite ?repeat_length; auto).
    rewrite (app_assoc (repeat x00 20)).
    rewrite (blit_exact (repeat x00 20 ++ [n2b (N.shiftr 65278 8)]) (repeat x00 1) _ [n2b (N.land 65278 255)] (20 + 1))
      by (rewrite ?app_length, ?repeat_length; auto).
    rewrite (app_assoc (repeat x00 20 ++ [n2b (N.shiftr 65278 8)])).
    rewrite (app_assoc ((repeat x00 20 ++ [n2b (N.shiftr 65278 8)]) ++ [n2b (N.land 65278 255)])).
    rewrite (blit_exact (((repeat x00 20 ++ [n2b (N.shiftr 65278 8)]) ++ [n2b (N.land 65278 255)]) ++ repeat x00 1)
                        (repeat x00 (length fill)) _ fill 23)
      by (rewrite ?app_length, ?repeat_length; cbn; lia).
    rewrite <- (app_assoc ((repeat x00 20 ++ [n2b (N.shiftr 65278 8)]) ++ [n2b (N.land 65278 255)])).
    rewrite (blit_exact ((repeat x00 20 ++ [n2b (N.shiftr 65278 8)]) ++ [n2b (N.land 65278 255)]) (repeat x00 1) _ [n2b which] 22)
      by (rewrite ?app_length, ?repeat_length; cbn; lia).
    rewrite <- !app_assoc. reflexivity.
  Qed.

  Hypothesis H_len32 : forall x, (length (H x) <= 32)%nat.

  Theorem root_seed_I_hs seed :
    (length seed <= 32)%nat -> root_seed_I K H seed = hs_root H seed.
  Proof.
    intros Ls. unfold root_seed_I, hs_root. destruct hs_fields as [-> _].
    rewrite !topseed_pre_hs by (try assumption; apply H_len32). reflexivity.
  Qed.

  Lemma seed_derive_hs seed I q j :
    length I = 16%nat -> (length seed <= 32)%nat ->
    seed_derive K H seed I q j = hs_derive H seed I q j.
  Proof.
    intros LI Ls. destruct hs_fields as [_ [E0 [_ [_ [_ [_ [_ [E1 [E2 [E3 [E4 [E5 [E6 _]]]]]]]]]]]]].
    unfold seed_derive, hs_derive. rewrite E0, E1, E2, E3, E4, E5, E6. f_equal.
    replace (23 + 32)%nat with (16 + (4 + (2 + (1 + (length seed + (32 - length seed))))))%nat by lia.
    rewrite !repeat_app_N.
    rewrite (blit_exact0 (repeat x00 16) _ I) by (rewrite ?repeat_length; auto).
    rewrite (blit_exact I (repeat x00 4) _ (be 4 q) 16) by (rewrite ?be_length, ?repeat_length; auto).
    rewrite (app_assoc I).
    rewrite (blit_exact (I ++ be 4 q) (repeat x00 2) _ (be 2 j) 20)
      by (rewrite ?app_length, ?be_length, ?repeat_length; lia).
    rewrite (app_assoc (I ++ be 4 q)).
    rewrite (blit_exact ((I ++ be 4 q) ++ be 2 j) (repeat x00 1) _ [xff] 22)
      by (rewrite ?app_length, ?be_length, ?repeat_length; cbn; lia).
    rewrite (app_assoc ((I ++ be 4 q) ++ be 2 j)).
    rewrite (blit_exact (((I ++ be 4 q) ++ be 2 j) ++ [xff]) (repeat x00 (length seed)) _ seed 23)
      by (rewrite ?app_length, ?be_length, ?repeat_length; cbn; lia).
    rewrite <- !app_assoc. reflexivity.
  Qed.

  Theorem child_seed_I_hs seed I q :
    length I = 16%nat -> (length seed <= 32)%nat ->
    child_seed_I K H seed I q = hs_child H seed I q.
  Proof.
    intros LI Ls. unfold child_seed_I, hs_child.
    destruct hs_fields as [E0 [_ [_ [_ [_ [_ [_ [_ [_ [_ [_ [_ [_ [E1 _]]]]]]]]]]]]]].
    rewrite E0, E1, !seed_derive_hs by assumption. reflexivity.
  Qed.

  Theorem randomizer_hs seed I q :
    length I = 16%nat -> (length seed <= 32)%nat ->
    randomizer K H seed I q = hs_randomizer H seed I q.
  Proof.
    intros LI Ls. unfold randomizer, hs_randomizer.
    destruct hs_fields as [_ [_ [_ [_ [_ [_ [_ [_ [_ [_ [_ [_ [_ [_ E1]]]]]]]]]]]]]].
    rewrite E1. now apply seed_derive_hs.
  Qed.
End HashSigsProofs.
