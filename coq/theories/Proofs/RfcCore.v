(* The hash preimages of the model, under the constants of RFC 8554 / hash-sigs, are the
   concatenations the RFC writes down; hence the model's chains, LM-OTS keys, candidates and
   tree nodes are the RFC's (Spec/Rfc8554.v). *)
From HbsLms Require Import Base.Bytes Model.Consts Model.Winternitz Model.Lmots Model.Lms Model.Derive.
From HbsLms Require Import Spec.Rfc8554Ots Spec.Rfc8554.
From HbsLms Require Import Proofs.CounterProofs Proofs.WinternitzProofs Proofs.WinternitzDom Proofs.CompleteProofs.

Local Open Scope N_scope.

Lemma blit_exact (a m c d : bytes) off :
  length a = off -> length d = length m -> blit (a ++ m ++ c) off d = a ++ d ++ c.
Proof.
  intros La Ld. unfold blit.
  rewrite firstn_app, La, Nat.sub_diag, firstn_all2 by lia. cbn [firstn]. rewrite app_nil_r.
  rewrite skipn_app, La. replace (off + length d - off)%nat with (length m) by lia.
  rewrite (skipn_all2 a) by lia. cbn [app].
  rewrite skipn_app, Nat.sub_diag, skipn_all. reflexivity.
Qed.

Lemma blit_exact0 (m c d : bytes) : length d = length m -> blit (m ++ c) 0 d = d ++ c.
Proof. intros L. exact (blit_exact [] m c d 0 eq_refl L). Qed.

Lemma repeat_app_N {A} (x : A) a b : repeat x (a + b) = repeat x a ++ repeat x b.
Proof. apply repeat_app. Qed.

(* the constants an RFC 8554 / hash-sigs compatible implementation must use *)
Definition consts_rfc (K : consts) : bool :=
  bytes_eqb (c_d_pblc K) (u16str D_PBLC) && bytes_eqb (c_d_mesg K) (u16str D_MESG)
  && bytes_eqb (c_d_leaf K) (u16str D_LEAF) && bytes_eqb (c_d_intr K) (u16str D_INTR)
  && Nat.eqb (c_ilen K) 16
  && Nat.eqb (c_iter_i K) 0 && Nat.eqb (c_iter_q K) 16 && Nat.eqb (c_iter_k K) 20
  && Nat.eqb (c_iter_j K) 22 && Nat.eqb (c_iter_prev K) 23.

Section RfcCore.
  Variable K : consts.
  Variable n : nat.
  Variable H : bytes -> bytes.
  Hypothesis H_len : forall x, length (H x) = n.
  Hypothesis RFC : consts_rfc K = true.

  Lemma rfc_fields :
    c_d_pblc K = u16str D_PBLC /\ c_d_mesg K = u16str D_MESG /\ c_d_leaf K = u16str D_LEAF
    /\ c_d_intr K = u16str D_INTR /\ c_ilen K = 16%nat
    /\ c_iter_i K = 0%nat /\ c_iter_q K = 16%nat /\ c_iter_k K = 20%nat /\ c_iter_j K = 22%nat
    /\ c_iter_prev K = 23%nat.
  Proof.
    unfold consts_rfc in RFC. rewrite !andb_true_iff, !bytes_eqb_eq, !Nat.eqb_eq in RFC. tauto.
  Qed.

  (* HashChain::prepare_hash_chain_data / do_hash_chain: the buffer is I || u32(q) || u16(i) || u8(j) || tmp *)
  Lemma chain_buf_rfc I q i j x :
    length I = 16%nat -> length x = n ->
    chain_buf K n I q i j x = I ++ u32str q ++ u16str i ++ u8str j ++ x.
  Proof.
    intros LI Lx. destruct rfc_fields as [_ [_ [_ [_ [_ [E0 [E1 [E2 [E3 E4]]]]]]]]].
    unfold chain_buf. rewrite E0, E1, E2, E3, E4.
    replace (23 + n)%nat with (16 + (4 + (2 + (1 + n))))%nat by lia.
    rewrite !repeat_app_N.
    (* I at 0 *)
    rewrite (blit_exact0 (repeat x00 16) _ I) by (rewrite ?repeat_length; auto).
    (* q at 16 *)
    rewrite (blit_exact I (repeat x00 4) _ (be 4 q) 16) by (rewrite ?be_length, ?repeat_length; auto).
    (* i at 20 *)
    rewrite (app_assoc I).
    rewrite (blit_exact (I ++ be 4 q) (repeat x00 2) _ (be 2 i) 20)
      by (rewrite ?app_length, ?be_length, ?repeat_length; lia).
    (* prev at 23 *)
    rewrite (app_assoc (I ++ be 4 q)), (app_assoc ((I ++ be 4 q) ++ be 2 i)).
    rewrite <- (app_nil_r (repeat x00 n)).
    rewrite (blit_exact (((I ++ be 4 q) ++ be 2 i) ++ repeat x00 1) (repeat x00 n) [] x 23)
      by (rewrite ?app_length, ?be_length, ?repeat_length; lia).
    (* j at 22 *)
    rewrite <- (app_assoc ((I ++ be 4 q) ++ be 2 i)).
    rewrite (blit_exact ((I ++ be 4 q) ++ be 2 i) (repeat x00 1) (x ++ []) [n2b j] 22)
      by (rewrite ?app_length, ?be_length, ?repeat_length; cbn; lia).
    rewrite app_nil_r, <- !app_assoc. unfold u32str, u16str, u8str. reflexivity.
  Qed.

  Lemma chain_rfc I q i from steps x :
    length I = 16%nat -> length x = n ->
    chain K n H I q i from steps x = hchain H I q i from steps x.
  Proof.
    intros LI. revert from x; induction steps as [|s IH]; intros from x Lx; cbn [chain hchain]; [reflexivity|].
    rewrite chain_buf_rfc by assumption. apply IH. apply H_len.
  Qed.

  (* leaf and interior node hashing are the RFC's (5.3) *)
  Lemma leaf_hash_rfc I r Kq : leaf_hash K H I r Kq = H (I ++ u32str r ++ u16str D_LEAF ++ Kq).
  Proof. unfold leaf_hash. destruct rfc_fields as [_ [_ [-> _]]]. reflexivity. Qed.

  Lemma intr_hash_rfc I r a b : intr_hash K H I r a b = H (I ++ u32str r ++ u16str D_INTR ++ a ++ b).
  Proof. unfold intr_hash. destruct rfc_fields as [_ [_ [_ [-> _]]]]. reflexivity. Qed.

  (* Algorithm 6a step 4: climbing along a path list = the RFC's while loop *)
  Lemma climb_rfc I path node tmp i0 (pf : nat -> bytes) :
    (forall k, (k < length path)%nat -> pf (i0 + k)%nat = nth k path []) ->
    (1 < node -> True) ->
    2 ^ N.of_nat (length path) <= node < 2 ^ N.of_nat (S (length path)) ->
    climb K H I node tmp path = climb6a H I node tmp pf i0 (length path).
  Proof.
    revert node tmp i0; induction path as [|s rest IH]; intros node tmp i0 Hpf _ Hn; [reflexivity|].
    cbn [climb climb6a length].
    assert (Hgt : 1 < node).
    { destruct Hn as [Hlo _]. cbn [length] in Hlo. rewrite Nat2N.inj_succ, N.pow_succ_r' in Hlo.
      pose proof (pow2_pos (N.of_nat (length rest))). lia. }
    destruct (N.leb_spec node 1); [lia|].
    assert (E0 : pf i0 = s) by (rewrite <- (Nat.add_0_r i0); rewrite (Hpf 0%nat) by (cbn; lia); reflexivity).
    rewrite E0, !intr_hash_rfc.
    apply IH; [| trivial |].
    - intros k Hk. replace (S i0 + k)%nat with (i0 + S k)%nat by lia. rewrite (Hpf (S k)) by (cbn; lia). reflexivity.
    - destruct Hn as [Hlo Hhi]. cbn [length] in *. rewrite !Nat2N.inj_succ, !N.pow_succ_r' in *. lia.
  Qed.
End RfcCore.

Lemma map_combine_map {A B C D} (g : A -> B) (f : A -> C) (k : B * C -> D) (l : list A) :
  map k (combine (map g l) (map f l)) = map (fun a => k (g a, f a)) l.
Proof. induction l as [|x l IH]; cbn; [reflexivity|now rewrite IH]. Qed.

Lemma combine_map_map {A B C} (g : A -> B) (f : A -> C) (l : list A) :
  combine (map g l) (map f l) = map (fun a => (g a, f a)) l.
Proof. induction l as [|x l IH]; cbn; [reflexivity|now rewrite IH]. Qed.

Section RfcSign.
  Variable K : consts.
  Variable n : nat.
  Variable H : bytes -> bytes.
  Hypothesis H_len : forall x, length (H x) = n.
  Hypothesis RFC : consts_rfc K = true.

  Lemma u8_ff : u8str 255 = [xff].
  Proof. reflexivity. Qed.

  Lemma ots_priv_rfc I q seed prm :
    ots_priv H I q seed prm = map (fun i => x_qi H I q (N.of_nat i) seed) (seq 0 (o_p prm)).
  Proof.
    unfold ots_priv, nrange, x_qi. rewrite map_map. apply map_ext. intros i.
    unfold u32str, u16str. rewrite u8_ff. reflexivity.
  Qed.

  (* Algorithm 1 *)
  Theorem ots_pub_rfc I q seed prm :
    length I = 16%nat ->
    ots_pub K n H I q seed prm
    = alg1_public_key H I q (o_w prm) (N.of_nat (o_p prm)) seed.
  Proof.
    intros LI. unfold ots_pub, ots_pub_of, alg1_public_key.
    destruct (rfc_fields K RFC) as [-> _].
    rewrite ots_priv_rfc. unfold nrange. rewrite map_combine_map, Nat2N.id. unfold chain_len.
    f_equal. f_equal. f_equal. f_equal. f_equal. apply map_ext. intros i. cbn [fst snd].
    apply (chain_rfc K n H H_len RFC); [assumption|apply H_len].
  Qed.

  (* Algorithm 3, for a parameter row that follows Appendix B *)
  Theorem ots_sig_rfc I q seed prm C msg :
    dom_ok n prm = true -> length I = 16%nat ->
    ots_sig_bytes prm C (ots_sign_ys K n H I q seed prm C msg)
    = alg3_signature n H (o_type prm) I q (o_w prm) (N.of_nat (o_p prm)) (o_ls prm) seed C msg.
  Proof.
    intros OK LI. unfold ots_sig_bytes, ots_sign_ys, alg3_signature, ots_msg_hash.
    destruct (rfc_fields K RFC) as [_ [-> _]].
    rewrite (digits_rfc n prm OK). unfold rfc_digits. rewrite ots_priv_rfc.
    rewrite Nat2N.id. unfold nrange.
    rewrite combine_map_map, combine_map_map, map_map.
    f_equal. f_equal. f_equal. apply map_ext. intros i. cbn [fst snd].
    apply (chain_rfc K n H H_len RFC); [assumption|apply H_len].
  Qed.

  (* 5.3: the tree *)
  Theorem tree_rfc h I seed prm d r :
    length I = 16%nat ->
    tree K n H h I seed prm d r
    = T H I (fun q => alg1_public_key H I q (o_w prm) (N.of_nat (o_p prm)) seed) (N.of_nat h) d r.
  Proof.
    intros LI. revert r; induction d as [|d IH]; intros r; cbn [tree T].
    - rewrite (leaf_hash_rfc K H RFC), ots_pub_rfc by assumption. reflexivity.
    - rewrite (intr_hash_rfc K H RFC), !IH. reflexivity.
  Qed.

  Theorem lms_pk_rfc prm lp I root :
    lms_pk_bytes prm lp I root = lms_public_key (l_type lp) (o_type prm) I root.
  Proof. reflexivity. Qed.

  (* 5.4.1: LMS signature = u32str(q) || lmots_signature || u32str(type) || path *)
  Theorem lms_sig_rfc I seed prm lp q C msg :
    dom_ok n prm = true -> length I = 16%nat ->
    lms_sign_bytes K n H I seed prm lp q C msg
    = lms_signature H (l_type lp) I
                    (fun q' => alg1_public_key H I q' (o_w prm) (N.of_nat (o_p prm)) seed)
                    (N.of_nat (l_h lp)) q
                    (alg3_signature n H (o_type prm) I q (o_w prm) (N.of_nat (o_p prm)) (o_ls prm) seed C msg).
  Proof.
    intros OK LI. unfold lms_sign_bytes, lms_signature, auth_path.
    rewrite ots_sig_rfc by assumption. rewrite Nat2N.id.
    f_equal. f_equal. f_equal. f_equal. apply map_ext. intros i.
    now rewrite tree_rfc.
  Qed.
End RfcSign.
