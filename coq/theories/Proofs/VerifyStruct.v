(* Structural rejection theorems for the verifier (C02): what is rejected for EVERY hash function
   and EVERY content, because of the checks alone. *)
From HbsLms Require Import Base.Bytes Model.Consts Model.Codec Model.Hss.
From HbsLms Require Import Proofs.CodecProofs.

Local Open Scope N_scope.

Section VerifyStruct.
  Variable K : consts.
  Variable n : nat.

  Lemma rd_Ok k l a b : rd k l = Ok (a, b) -> l = a ++ b /\ length a = k.
  Proof. unfold rd. destruct (read k l) as [[x y]|] eqn:E; [|discriminate]. intros [= <- <-]. now apply read_Some. Qed.

  Lemma rd_extend k l a b e : rd k l = Ok (a, b) -> rd k (l ++ e) = Ok (a, b ++ e).
  Proof.
    intros E. apply rd_Ok in E. destruct E as [-> L]. rewrite <- app_assoc. now apply rd_app.
  Qed.

  Ltac rdstep E :=
    match type of E with
    | bind (rd ?k ?l) _ = Ok _ =>
      let R := fresh "R" in
      destruct (rd k l) as [[? ?]| |] eqn:R; cbn [bind] in E; try discriminate E
    | bind (of_option ?o) _ = Ok _ =>
      let R := fresh "R" in
      destruct o eqn:R; cbn [of_option bind] in E; try discriminate E
    end.

  (* a parser that succeeded on [data] succeeds on [data ++ e] with the same structure and [e]
     appended to the unread rest *)
  Lemma parse_lms_sig_extend data s rest e :
    parse_lms_sig K n data = Ok (s, rest) -> parse_lms_sig K n (data ++ e) = Ok (s, rest ++ e).
  Proof.
    unfold parse_lms_sig. intros E.
    destruct (rd 4 data) as [[qb r1]| |] eqn:R1; cbn [bind] in E; try discriminate E.
    rewrite (rd_extend _ _ _ _ e R1). cbn [bind].
    destruct (rd 4 r1) as [[tb r1']| |] eqn:R2; cbn [bind] in E; try discriminate E.
    rewrite (rd_extend _ _ _ _ e R2). cbn [bind].
    destruct (ots_of_type K n (be_dec tb)) as [prm|]; cbn [of_option bind] in E |- *; try discriminate E.
    destruct (rd (4 + n * (1 + o_p prm)) r1) as [[otsb r2]| |] eqn:R3; cbn [bind] in E; try discriminate E.
    rewrite (rd_extend _ _ _ _ e R3). cbn [bind].
    destruct (rd 4 otsb) as [[tb' o1]| |] eqn:R4; cbn [bind] in E |- *; try discriminate E.
    destruct (ots_of_type K n (be_dec tb')) as [prm'|]; cbn [of_option bind] in E |- *; try discriminate E.
    destruct (rd n o1) as [[C o2]| |] eqn:R5; cbn [bind] in E |- *; try discriminate E.
    destruct (rd (n * o_p prm') o2) as [[yb o3]| |] eqn:R6; cbn [bind] in E |- *; try discriminate E.
    destruct (rd 4 r2) as [[lb r3]| |] eqn:R7; cbn [bind] in E; try discriminate E.
    rewrite (rd_extend _ _ _ _ e R7). cbn [bind].
    destruct (lms_of_type K (be_dec lb)) as [lp|]; cbn [of_option bind] in E |- *; try discriminate E.
    destruct (rd (n * l_h lp) r3) as [[pb r4]| |] eqn:R8; cbn [bind] in E; try discriminate E.
    rewrite (rd_extend _ _ _ _ e R8). cbn [bind].
    destruct (_ <=? _); [discriminate E|]. injection E as <- <-. reflexivity.
  Qed.

  Lemma parse_lms_pk_extend data p rest e :
    parse_lms_pk K n data = Ok (p, rest) -> parse_lms_pk K n (data ++ e) = Ok (p, rest ++ e).
  Proof.
    unfold parse_lms_pk. intros E.
    remember (4 + 4 + c_ilen K + n)%nat as tot eqn:Etot.
    destruct (rd 4 data) as [[lb r1]| |] eqn:R1; cbn [bind] in E; try discriminate E.
    rewrite (rd_extend _ _ _ _ e R1). cbn [bind].
    destruct (lms_of_type K (be_dec lb)) as [lp|]; cbn [of_option bind] in E |- *; try discriminate E.
    destruct (rd 4 r1) as [[tb r2]| |] eqn:R2; cbn [bind] in E; try discriminate E.
    rewrite (rd_extend _ _ _ _ e R2). cbn [bind].
    destruct (ots_of_type K n (be_dec tb)) as [prm|]; cbn [of_option bind] in E |- *; try discriminate E.
    destruct (rd (c_ilen K) r2) as [[tid r3]| |] eqn:R3; cbn [bind] in E; try discriminate E.
    rewrite (rd_extend _ _ _ _ e R3). cbn [bind].
    destruct (rd n r3) as [[key r4]| |] eqn:R4; cbn [bind] in E; try discriminate E.
    rewrite (rd_extend _ _ _ _ e R4). cbn [bind].
    apply rd_Ok in R1, R2, R3, R4.
    destruct R1 as [-> L1], R2 as [-> L2], R3 as [-> L3], R4 as [-> L4].
    assert (G : forall t : bytes, firstn tot (lb ++ tb ++ tid ++ key ++ t) = lb ++ tb ++ tid ++ key).
    { intros t. rewrite !app_assoc. rewrite firstn_app.
      replace (tot - length (((lb ++ tb) ++ tid) ++ key))%nat with 0%nat
        by (rewrite !app_length; lia).
      cbn [firstn]. rewrite app_nil_r. apply firstn_all2. rewrite !app_length. lia. }
    rewrite <- ?app_assoc. rewrite <- ?app_assoc in E.
    rewrite (G (r4 ++ e)). rewrite (G r4) in E.
    injection E as <- <-. reflexivity.
  Qed.

  Lemma parse_spks_extend k data l rest e :
    parse_spks K n k data = Ok (l, rest) -> parse_spks K n k (data ++ e) = Ok (l, rest ++ e).
  Proof.
    revert data l rest; induction k as [|k IH]; intros data l rest; cbn [parse_spks].
    - intros [= <- <-]. reflexivity.
    - intros E.
      destruct (parse_lms_sig K n data) as [[s r1]| |] eqn:E1; cbn [bind] in E; try discriminate E.
      rewrite (parse_lms_sig_extend _ _ _ e E1). cbn [bind].
      destruct (parse_lms_pk K n r1) as [[p r2]| |] eqn:E2; cbn [bind] in E; try discriminate E.
      rewrite (parse_lms_pk_extend _ _ _ e E2). cbn [bind].
      destruct (parse_spks K n k r2) as [[rs r3]| |] eqn:E3; cbn [bind] in E; try discriminate E.
      rewrite (IH _ _ _ E3). cbn [bind]. injection E as <- <-. reflexivity.
  Qed.

  (* a signature that parses does not parse any more once bytes are appended *)
  Theorem extended_signature_rejected sig s e :
    parse_hss_sig K n sig = Ok s -> e <> [] -> parse_hss_sig K n (sig ++ e) = Err.
  Proof.
    unfold parse_hss_sig. intros E He.
    destruct (rd 4 sig) as [[nb r1]| |] eqn:R1; cbn [bind] in E; try discriminate E.
    rewrite (rd_extend _ _ _ _ e R1). cbn [bind].
    destruct (_ <=? _); [discriminate E|].
    destruct (parse_spks K n (N.to_nat (be_dec nb)) r1) as [[spks r2]| |] eqn:E2; cbn [bind] in E; try discriminate E.
    rewrite (parse_spks_extend _ _ _ _ e E2). cbn [bind].
    destruct (parse_lms_sig K n r2) as [[sg r3]| |] eqn:E3; cbn [bind] in E; try discriminate E.
    rewrite (parse_lms_sig_extend _ _ _ e E3). cbn [bind].
    destruct r3; [|discriminate E]. cbn [app]. destruct e; [congruence|reflexivity].
  Qed.

  Theorem extended_public_key_rejected pk r e :
    parse_hss_pk K n pk = Ok r -> e <> [] -> parse_hss_pk K n (pk ++ e) = Err.
  Proof.
    unfold parse_hss_pk. intros E He.
    destruct (rd 4 pk) as [[lb r1]| |] eqn:R1; cbn [bind] in E; try discriminate E.
    rewrite (rd_extend _ _ _ _ e R1). cbn [bind].
    destruct (parse_lms_pk K n r1) as [[p r2]| |] eqn:E2; cbn [bind] in E; try discriminate E.
    rewrite (parse_lms_pk_extend _ _ _ e E2). cbn [bind].
    destruct r2; [|discriminate E]. cbn [app]. destruct e; [congruence|reflexivity].
  Qed.

  Variable H : bytes -> bytes.

  (* acceptance implies every structural condition of RFC 8554 section 6.3 / Algorithms 6, 6a *)
  Theorem accept_implies_checks msg sig pk :
    hss_verify K n H msg sig pk = Ok tt ->
    exists s L key,
      parse_hss_sig K n sig = Ok s /\ parse_hss_pk K n pk = Ok (L, key)
      /\ h_nspk s + 1 = L                                       (* level count *)
      /\ length (h_spks s) = N.to_nat (h_nspk s)
      /\ exists key', verify_chain K n H key (h_spks s) = Some key'
                      /\ lms_verify K n H (h_sig s) key' msg = true.
  Proof.
    unfold hss_verify. intros E.
    destruct (parse_hss_sig K n sig) as [s| |] eqn:PS; cbn [bind] in E; try discriminate E.
    destruct (parse_hss_pk K n pk) as [[L key]| |] eqn:PP; cbn [bind] in E; try discriminate E.
    destruct (h_nspk s + 1 =? L) eqn:EL; cbn [negb] in E; [|discriminate E].
    destruct (verify_chain K n H key (h_spks s)) as [key'|] eqn:VC; [|discriminate E].
    destruct (lms_verify K n H (h_sig s) key' msg) eqn:LV; [|discriminate E].
    exists s, L, key. repeat split; try reflexivity.
    - now apply N.eqb_eq.
    - clear -PS. unfold parse_hss_sig in PS.
      destruct (rd 4 sig) as [[nb r1]| |]; cbn [bind] in PS; try discriminate PS.
      destruct (_ <=? _); [discriminate PS|].
      destruct (parse_spks K n (N.to_nat (be_dec nb)) r1) as [[spks r2]| |] eqn:E2; cbn [bind] in PS; try discriminate PS.
      destruct (parse_lms_sig K n r2) as [[sg r3]| |]; cbn [bind] in PS; try discriminate PS.
      destruct r3; [|discriminate PS]. injection PS as <-. cbn [h_spks h_nspk].
      revert r1 spks r2 E2. generalize (N.to_nat (be_dec nb)). intros k.
      induction k as [|k IH]; intros r1 spks r2; cbn [parse_spks].
      + intros [= <- <-]. reflexivity.
      + destruct (parse_lms_sig K n r1) as [[s1 q1]| |]; cbn [bind]; try discriminate.
        destruct (parse_lms_pk K n q1) as [[p1 q2]| |]; cbn [bind]; try discriminate.
        destruct (parse_spks K n k q2) as [[rs q3]| |] eqn:E3; cbn [bind]; try discriminate.
        intros [= <- <-]. cbn [length]. f_equal. exact (IH _ _ _ E3).
    - exists key'. split; [exact VC|exact LV].
  Qed.

  (* one LMS verification: type codes of signature and key agree, the leaf index is in range,
     the recomputed root is the key's root *)
  Theorem lms_verify_checks s key msg :
    lms_verify K n H s key msg = true ->
    s_ots s = p_ots key /\ s_lms s = p_lms key /\ s_q s < 2 ^ N.of_nat (l_h (s_lms s))
    /\ Model.Lms.lms_candidate K n H (p_I key) (s_ots s) (s_lms s) (s_q s) (s_C s) (s_y s) (s_path s) msg = p_key key.
  Proof.
    unfold lms_verify. rewrite !andb_true_iff. intros [[[A B] C] D].
    apply otsp_eqb_eq in A. apply lmsp_eqb_eq in B. apply N.ltb_lt in C. apply bytes_eqb_eq in D.
    repeat split; assumption.
  Qed.
End VerifyStruct.
