(* Round trips of the private key blob and of the parameter bytes. *)
From HbsLms Require Import Base.Bytes Model.Consts Model.Counter Model.KeyBlob.
From HbsLms Require Import Proofs.CounterProofs Proofs.CodecProofs.

Local Open Scope N_scope.

Definition param_eqb (a b : otsp * lmsp) : bool :=
  otsp_eqb (fst a) (fst b) && lmsp_eqb (snd a) (snd b).

Lemma param_eqb_eq a b : param_eqb a b = true <-> a = b.
Proof.
  destruct a as [o l], b as [o' l']. unfold param_eqb. cbn [fst snd].
  rewrite andb_true_iff, otsp_eqb_eq, lmsp_eqb_eq. split; [intros [-> ->]; reflexivity|intros [= -> ->]; auto].
Qed.

Section KeyBlobProofs.
  Variable K : consts.
  Variable n : nat.

  (* every parameter pair the API can construct: variants of the two enums *)
  Definition tbl_params : list (otsp * lmsp) :=
    flat_map (fun ov => match ots_construct K n (fst ov) with
                        | Some o => flat_map (fun lv => match lms_construct K (fst lv) with
                                                        | Some l => [(o, l)]
                                                        | None => []
                                                        end) (c_lms_construct K)
                        | None => []
                        end) (c_ots_construct K).

  (* decoding one parameter byte (the nibble split of CompressedParameterSet::to) *)
  Definition decode_byte (b : byte) : option (otsp * lmsp) :=
    match ots_of_u32 K n (N.land (b2n b) 15), lms_of_u32 K (N.shiftr (b2n b) 4) with
    | Some o, Some l => Some (o, l)
    | _, _ => None
    end.

  (* table side condition: packing then decoding is the identity, and no packed byte is the
     end marker.  Decided by computation for a concrete table. *)
  Definition pack_ok : bool :=
    (c_param_set_end K <? 256) &&
    forallb (fun p => match decode_byte (pack_param p) with
                      | Some p' => param_eqb p' p
                      | None => false
                      end && negb (b2n (pack_param p) =? c_param_set_end K)) tbl_params.

  Hypothesis PK : pack_ok = true.

  Lemma end_small : c_param_set_end K < 256.
  Proof. unfold pack_ok in PK. apply andb_true_iff in PK. apply N.ltb_lt. tauto. Qed.

  Lemma pack_decode p :
    In p tbl_params ->
    ots_of_u32 K n (N.land (b2n (pack_param p)) 15) = Some (fst p)
    /\ lms_of_u32 K (N.shiftr (b2n (pack_param p)) 4) = Some (snd p)
    /\ b2n (pack_param p) <> c_param_set_end K.
  Proof.
    intros Hin. pose proof PK as P. unfold pack_ok in P. apply andb_true_iff in P. destruct P as [_ P].
    rewrite forallb_forall in P. specialize (P p Hin).
    apply andb_true_iff in P. destruct P as [A B]. unfold decode_byte in A.
    destruct (ots_of_u32 K n (N.land (b2n (pack_param p)) 15)) as [o|]; [|discriminate].
    destruct (lms_of_u32 K (N.shiftr (b2n (pack_param p)) 4)) as [l|]; [|discriminate].
    apply param_eqb_eq in A. subst p. cbn [fst snd]. repeat split.
    apply negb_true_iff, N.eqb_neq in B. exact B.
  Qed.

  Lemma params_decode_pack ps i k :
    Forall (fun p => In p tbl_params) ps ->
    all_within_limits K i ps = true ->
    params_decode K n i (map pack_param ps ++ repeat (n2b (c_param_set_end K)) k) = Ok ps.
  Proof.
    intros F; revert i; induction F as [|p ps Hp _ IH]; intros i W.
    - cbn [map app]. destruct k as [|k]; [reflexivity|]. cbn [repeat params_decode].
      rewrite b2n_n2b, N.mod_small by apply end_small. now rewrite N.eqb_refl.
    - cbn [map app params_decode]. destruct (pack_decode p Hp) as [Eo [El Ne]].
      apply N.eqb_neq in Ne. rewrite Ne, Eo, El.
      cbn [all_within_limits] in W. apply andb_true_iff in W. destruct W as [W1 W2].
      destruct p as [o l]. cbn [fst snd] in *. rewrite W1. rewrite IH by assumption. reflexivity.
  Qed.

  (* CompressedParameterSet::from followed by ::to is the identity on constructible lists *)
  Lemma params_roundtrip ps pb :
    Forall (fun p => In p tbl_params) ps -> ps <> [] ->
    params_to_bytes K ps = Ok pb ->
    params_of_bytes K n pb = Ok ps /\ length pb = c_ref_levels K.
  Proof.
    intros F Hne E. unfold params_to_bytes in E.
    destruct (Nat.ltb (c_ref_levels K) (length ps)) eqn:Hlen; cbv iota in E; [discriminate E|].
    apply Nat.ltb_ge in Hlen.
    destruct (all_within_limits K 0 ps) eqn:W; cbv beta iota delta [negb] in E; [|discriminate E].
    injection E as <-. split.
    - unfold params_of_bytes. rewrite params_decode_pack by assumption. cbn [bind].
      destruct ps; [congruence|reflexivity].
    - rewrite app_length, map_length, repeat_length. lia.
  Qed.

  (* ReferenceImplPrivateKey::to_binary_representation / from_binary_representation *)
  Lemma blob_parse_of k :
    length (k_params k) = c_ref_levels K -> length (k_seed k) = n ->
    k_counter k < 256 ^ N.of_nat (c_used_leafs_size K) ->
    blob_parse K n (blob_of K k) = Ok k.
  Proof.
    intros Hp Hs Hc. unfold blob_parse, blob_of.
    replace (length (be (c_used_leafs_size K) (k_counter k) ++ k_params k ++ k_seed k)
             =? c_used_leafs_size K + c_ref_levels K + n)%nat with true
      by (symmetry; apply Nat.eqb_eq; rewrite !app_length, be_length, Hp, Hs; lia).
    cbn [negb].
    rewrite read_app by apply be_length.
    rewrite read_app by assumption.
    rewrite <- (app_nil_r (k_seed k)). rewrite read_app by assumption.
    rewrite be_dec_be, N.mod_small by assumption. destruct k; reflexivity.
  Qed.
End KeyBlobProofs.
