(* Lemmas about Model/Counter.v: mixed-radix leaf selection, increment, lifetime. *)
From HbsLms Require Import Base.Bytes Model.Counter.

Local Open Scope N_scope.

Lemma pow2_pos h : 0 < 2 ^ h.
Proof. apply N.neq_0_lt_0, N.pow_nonzero. lia. Qed.

Lemma land_pow2_m1 c h : N.land c (2 ^ h - 1) = c mod 2 ^ h.
Proof.
  rewrite <- N.land_ones. f_equal. rewrite N.ones_equiv, N.pred_sub. reflexivity.
Qed.

Lemma shiftr_pow2 c h : N.shiftr c h = c / 2 ^ h.
Proof. apply N.shiftr_div_pow2. Qed.

(* value of a mixed-radix digit list, least significant (bottom level) first *)
Fixpoint mr_value (hs_rev qs_rev : list N) : N :=
  match hs_rev, qs_rev with
  | h :: hr, q :: qr => q + 2 ^ h * mr_value hr qr
  | _, _ => 0
  end.

Lemma sumN_app a b : sumN (a ++ b) = sumN a + sumN b.
Proof. induction a as [|x a IH]; cbn [sumN app fold_right]; [reflexivity|]. fold (sumN (a ++ b)) (sumN a). lia. Qed.

Lemma sumN_rev a : sumN (rev a) = sumN a.
Proof.
  induction a as [|x a IH]; [reflexivity|]. cbn [rev]. rewrite sumN_app, IH.
  cbn [sumN fold_right]. fold (sumN a). lia.
Qed.

Lemma sumN_cons x a : sumN (x :: a) = x + sumN a.
Proof. reflexivity. Qed.

Lemma leaf_digits_rev_length hs c : length (leaf_digits_rev hs c) = length hs.
Proof. revert c; induction hs as [|h r IH]; intros c; cbn; [reflexivity|now rewrite IH]. Qed.

Lemma leaf_digits_length hs c : length (leaf_digits hs c) = length hs.
Proof. unfold leaf_digits. now rewrite rev_length, leaf_digits_rev_length, rev_length. Qed.

(* the digits are the mixed-radix representation of c mod 2^(sum of heights) *)
Lemma leaf_digits_rev_value hs c :
  mr_value hs (leaf_digits_rev hs c) = c mod 2 ^ sumN hs.
Proof.
  revert c; induction hs as [|h r IH]; intros c.
  - cbn. change (2 ^ 0) with 1. now rewrite N.mod_1_r.
  - cbn [leaf_digits_rev mr_value]. rewrite IH, land_pow2_m1, shiftr_pow2, sumN_cons.
    rewrite N.pow_add_r. rewrite N.mod_mul_r; [reflexivity | | ]; apply N.pow_nonzero; lia.
Qed.

Lemma leaf_digits_rev_bound hs c :
  Forall2 (fun h q => q < 2 ^ h) hs (leaf_digits_rev hs c).
Proof.
  revert c; induction hs as [|h r IH]; intros c; cbn [leaf_digits_rev]; constructor.
  - rewrite land_pow2_m1. apply N.mod_upper_bound, N.pow_nonzero. lia.
  - apply IH.
Qed.

(* digit i (counted from the bottom) is (c / 2^(heights below)) mod 2^h_i *)
Lemma leaf_digits_rev_nth hs c i h :
  nth_error hs i = Some h ->
  nth_error (leaf_digits_rev hs c) i = Some ((c / 2 ^ sumN (firstn i hs)) mod 2 ^ h).
Proof.
  revert c i; induction hs as [|h0 r IH]; intros c i; destruct i as [|i]; cbn [nth_error]; try discriminate.
  - intros [= ->]. cbn [leaf_digits_rev nth_error firstn sumN fold_right].
    change (2 ^ 0) with 1. now rewrite N.div_1_r, land_pow2_m1.
  - intros E. cbn [leaf_digits_rev nth_error firstn]. rewrite (IH _ _ E), shiftr_pow2, sumN_cons.
    rewrite N.pow_add_r, N.div_div by (apply N.pow_nonzero; lia). reflexivity.
Qed.

Lemma mr_value_inj hs q1 q2 :
  Forall2 (fun h q => q < 2 ^ h) hs q1 -> Forall2 (fun h q => q < 2 ^ h) hs q2 ->
  mr_value hs q1 = mr_value hs q2 -> q1 = q2.
Proof.
  intros F1; revert q2; induction F1 as [|h a hr ar Ha _ IH]; intros q2 F2 E.
  - inversion F2. reflexivity.
  - inversion F2 as [|? b ? br Hb Fr]; subst. cbn [mr_value] in E.
    pose proof (pow2_pos h) as Hp.
    assert (Eab : a = b).
    { apply (f_equal (fun v => v mod 2 ^ h)) in E.
      rewrite !(N.mul_comm (2 ^ h)), !N.mod_add, !N.mod_small in E by lia. exact E. }
    subst b.
    assert (E' : mr_value hr ar = mr_value hr br).
    { apply N.add_cancel_l in E. apply N.mul_cancel_l in E; [exact E|lia]. }
    f_equal. now apply IH.
Qed.

(* two counters below the key's capacity select different leaf tuples *)
Lemma leaf_digits_rev_inj hs c1 c2 :
  c1 < 2 ^ sumN hs -> c2 < 2 ^ sumN hs ->
  leaf_digits_rev hs c1 = leaf_digits_rev hs c2 -> c1 = c2.
Proof.
  intros H1 H2 E. apply (f_equal (mr_value hs)) in E.
  rewrite !leaf_digits_rev_value in E. now rewrite !N.mod_small in E by assumption.
Qed.

(* ---------------------------------------------------------------- increment *)

Lemma incr_small hs c :
  sumN hs < 64 ->
  incr hs c = if c <? 2 ^ sumN hs - 1 then Some (c + 1) else None.
Proof.
  intros Hs. unfold incr, last_counter.
  destruct (N.ltb_spec (sumN hs) 64) as [_|]; [|lia].
  destruct (N.leb_spec (2 ^ sumN hs - 1) c), (N.ltb_spec c (2 ^ sumN hs - 1)); try lia; reflexivity.
Qed.

Lemma incr_tall hs c :
  64 <= sumN hs -> c < u64_max -> incr hs c = Some (c + 1).
Proof.
  intros Hs Hc. unfold incr, last_counter.
  destruct (N.ltb_spec (sumN hs) 64); [lia|].
  destruct (N.leb_spec u64_max c); [lia|reflexivity].
Qed.

(* ---------------------------------------------------------------- lifetime *)

Fixpoint prodN (l : list N) : N :=
  match l with [] => 1 | x :: r => x * prodN r end.

Lemma prodN_app a b : prodN (a ++ b) = prodN a * prodN b.
Proof. induction a as [|x a IH]; cbn [prodN app]; [lia|]. rewrite IH. lia. Qed.

Lemma sat_mul_min a b : 1 <= b -> sat_mul (N.min a u64_max) b = N.min (a * b) u64_max.
Proof. intros Hb. unfold sat_mul. nia. Qed.

Lemma sat_add_min a b : sat_add (N.min a u64_max) (N.min b u64_max) = N.min (a + b) u64_max.
Proof. unfold sat_add. lia. Qed.

Lemma fold_sat_mul below a :
  Forall (fun x => 1 <= x) below ->
  fold_left sat_mul below (N.min a u64_max) = N.min (a * prodN below) u64_max.
Proof.
  intros F; revert a; induction F as [|x r Hx _ IH]; intros a; cbn [fold_left prodN].
  - f_equal. lia.
  - rewrite sat_mul_min by assumption. rewrite IH. f_equal. lia.
Qed.

(* exact (unbounded) value of the loop *)
Fixpoint life_exact (lv_rev : list (N * N)) (P : N) : N :=
  match lv_rev with
  | [] => 0
  | (h, u) :: r => (2 ^ h - u) * P + life_exact r (P * 2 ^ h)
  end.

Lemma lifetime_loop_exact lv below a :
  Forall (fun hu => snd hu <= 2 ^ fst hu /\ fst hu <= 63) lv ->
  Forall (fun x => 1 <= x) below ->
  lifetime_loop lv below (N.min a u64_max) =
  Ok (N.min (a + life_exact lv (prodN below)) u64_max).
Proof.
  intros F; revert below a; induction F as [|[h u] r [Hu Hh] _ IH]; intros below a Fb.
  - cbn. f_equal. f_equal. lia.
  - cbn [lifetime_loop life_exact]. cbn [fst snd] in Hu, Hh.
    destruct (N.ltb_spec (2 ^ h) u) as [|_]; [lia|].
    assert (Hfree : 2 ^ h - u <= u64_max).
    { assert (2 ^ h <= 2 ^ 63) by (apply N.pow_le_mono_r; lia).
      unfold u64_max. change (2 ^ 64) with (2 * 2 ^ 63). lia. }
    rewrite <- (N.min_l _ _ Hfree) at 1.
    rewrite fold_sat_mul by assumption.
    rewrite sat_add_min.
    rewrite IH.
    + rewrite prodN_app. cbn [prodN]. rewrite N.mul_1_r. f_equal. f_equal. lia.
    + apply Forall_app. split; [assumption|]. constructor; [|constructor].
      pose proof (pow2_pos h). lia.
Qed.

(* bottom-first view of [used_after_expand] *)
Definition used_rev_of (qs_rev : list N) : list N :=
  match qs_rev with
  | [] => []
  | q :: r => q :: map (fun x => x + 1) r
  end.

Lemma used_after_expand_rev qs :
  rev (used_after_expand qs) = used_rev_of (rev qs).
Proof.
  induction qs as [|q r IH]; [reflexivity|].
  destruct r as [|q' r']; [reflexivity|].
  change (used_after_expand (q :: q' :: r')) with ((q + 1) :: used_after_expand (q' :: r')).
  cbn [rev] in *. rewrite IH.
  destruct (rev r' ++ [q']) as [|x l] eqn:E.
  - destruct (rev r'); discriminate.
  - cbn [used_rev_of app map]. now rewrite map_app.
Qed.

(* upper levels: each has already handed out its current leaf *)
Lemma life_exact_upper hs c P :
  life_exact (combine hs (map (fun x => x + 1) (leaf_digits_rev hs c))) P =
  (2 ^ sumN hs - 1 - c mod 2 ^ sumN hs) * P.
Proof.
  revert c P; induction hs as [|h r IH]; intros c P.
  - cbn. change (2 ^ 0) with 1. rewrite N.mod_1_r. lia.
  - cbn [leaf_digits_rev map combine life_exact]. rewrite IH, land_pow2_m1, shiftr_pow2, sumN_cons.
    rewrite N.pow_add_r, N.mod_mul_r by (apply N.pow_nonzero; lia).
    pose proof (pow2_pos h) as HA. pose proof (pow2_pos (sumN r)) as HS.
    pose proof (N.mod_upper_bound c (2 ^ h) ltac:(lia)) as Ha.
    pose proof (N.mod_upper_bound (c / 2 ^ h) (2 ^ sumN r) ltac:(lia)) as Hb.
    set (A := 2 ^ h) in *. set (S := 2 ^ sumN r) in *.
    set (a := c mod A) in *. set (b := (c / A) mod S) in *.
    assert (exists a', a + a' + 1 = A) as [a' Ea] by (exists (A - a - 1); lia).
    assert (exists b', b + b' + 1 = S) as [b' Eb] by (exists (S - b - 1); lia).
    replace (A - (a + 1)) with a' by lia.
    replace (S - 1 - b) with b' by lia.
    replace (A * S - 1 - (a + A * b)) with (A * b' + a') by nia.
    ring.
Qed.

Lemma life_exact_key hs c :
  hs <> [] ->
  life_exact (combine hs (used_rev_of (leaf_digits_rev hs c))) 1 =
  2 ^ sumN hs - c mod 2 ^ sumN hs.
Proof.
  destruct hs as [|h r]; [congruence|intros _].
  cbn [leaf_digits_rev used_rev_of combine life_exact].
  rewrite life_exact_upper, land_pow2_m1, shiftr_pow2, sumN_cons.
  rewrite N.pow_add_r, N.mod_mul_r by (apply N.pow_nonzero; lia).
  pose proof (pow2_pos h) as HA. pose proof (pow2_pos (sumN r)) as HS.
  pose proof (N.mod_upper_bound c (2 ^ h) ltac:(lia)) as Ha.
  pose proof (N.mod_upper_bound (c / 2 ^ h) (2 ^ sumN r) ltac:(lia)) as Hb.
  set (A := 2 ^ h) in *. set (S := 2 ^ sumN r) in *.
  set (a := c mod A) in *. set (b := (c / A) mod S) in *.
  assert (exists b', b + b' + 1 = S) as [b' Eb] by (exists (S - b - 1); lia).
  replace (S - 1 - b) with b' by lia.
  replace (A * S - (a + A * b)) with (A * b' + (A - a)) by nia.
  nia.
Qed.

Lemma used_bound hs c :
  Forall (fun hu => snd hu <= 2 ^ fst hu) (combine hs (used_rev_of (leaf_digits_rev hs c))).
Proof.
  destruct hs as [|h r]; [constructor|].
  cbn [leaf_digits_rev used_rev_of combine]. constructor.
  - cbn [fst snd]. rewrite land_pow2_m1.
    pose proof (N.mod_upper_bound c (2 ^ h) ltac:(apply N.pow_nonzero; lia)). lia.
  - generalize (N.shiftr c h). clear. induction r as [|h r IH]; intros c; [constructor|].
    cbn [leaf_digits_rev map combine]. constructor; [|apply IH].
    cbn [fst snd]. rewrite land_pow2_m1.
    pose proof (N.mod_upper_bound c (2 ^ h) ltac:(apply N.pow_nonzero; lia)). lia.
Qed.

Lemma combine_app_same {A B} (a1 a2 : list A) (b1 b2 : list B) :
  length a1 = length b1 -> combine (a1 ++ a2) (b1 ++ b2) = combine a1 b1 ++ combine a2 b2.
Proof.
  revert b1; induction a1 as [|x a1 IH]; intros [|y b1] E; cbn in E; try discriminate; [reflexivity|].
  cbn [app combine]. f_equal. apply IH. lia.
Qed.

Lemma combine_rev_eq {A B} (a : list A) (b : list B) :
  length a = length b -> rev (combine a b) = combine (rev a) (rev b).
Proof.
  revert b; induction a as [|x a IH]; intros [|y b] E; cbn in E; try discriminate; [reflexivity|].
  cbn [combine rev]. rewrite IH by lia.
  rewrite combine_app_same by (rewrite !rev_length; lia). reflexivity.
Qed.

Lemma used_after_expand_length qs : length (used_after_expand qs) = length qs.
Proof.
  induction qs as [|q r IH]; [reflexivity|]. destruct r as [|q' r']; [reflexivity|].
  change (used_after_expand (q :: q' :: r')) with ((q + 1) :: used_after_expand (q' :: r')).
  cbn [length] in *. now rewrite IH.
Qed.

Lemma rev_leaf_digits hs c : rev (leaf_digits hs c) = leaf_digits_rev (rev hs) c.
Proof. unfold leaf_digits. apply rev_involutive. Qed.

(* closed form of the lifetime computation, for every counter value *)
Lemma lifetime_closed hs c :
  hs <> [] -> Forall (fun h => h <= 63) hs ->
  lifetime hs c = Ok (N.min (2 ^ sumN hs - c mod 2 ^ sumN hs) u64_max).
Proof.
  intros Hne Hh. unfold lifetime, lifetime_of.
  rewrite combine_rev_eq by (now rewrite used_after_expand_length, leaf_digits_length).
  rewrite used_after_expand_rev, rev_leaf_digits.
  change 0 with (N.min 0 u64_max) at 1.
  rewrite lifetime_loop_exact.
  - cbn [prodN]. rewrite life_exact_key by (intros E; apply Hne; now rewrite <- (rev_involutive hs), E).
    rewrite sumN_rev. f_equal.
  - pose proof (used_bound (rev hs) c) as U.
    assert (Hh' : Forall (fun h => h <= 63) (rev hs)) by (apply Forall_rev; exact Hh).
    revert U Hh'. generalize (used_rev_of (leaf_digits_rev (rev hs) c)). generalize (rev hs).
    intros l; induction l as [|h l IH]; intros [|u us] U Hl; cbn [combine]; try constructor.
    + inversion U; inversion Hl; subst. cbn [fst snd] in *. split; assumption.
    + inversion U; inversion Hl; subst. apply IH; assumption.
  - constructor.
Qed.
