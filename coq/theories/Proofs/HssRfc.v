(* C07 / C08: what the model signs and generates is the RFC 8554 byte string over the hash-sigs
   derivation. *)
From HbsLms Require Import Base.Bytes Model.Consts Model.Winternitz Model.Lmots Model.Lms Model.Derive
     Model.Counter Model.KeyBlob Model.Hss.
From HbsLms Require Import Spec.Rfc8554Ots Spec.Rfc8554 Spec.HashSigs Spec.HssSpec.
From HbsLms Require Import Proofs.WinternitzDom Proofs.RfcCore Proofs.HashSigsProofs Proofs.HssComplete.

Local Open Scope N_scope.

Lemma Ok_inj {A} (a b : A) : Ok a = Ok b -> a = b.
Proof. intros E. inversion E. reflexivity. Qed.

Section HssRfc.
  Variable K : consts.
  Variable n : nat.
  Variable H : bytes -> bytes.
  Hypothesis H_len : forall x, length (H x) = n.
  Hypothesis n_range : (16 <= n <= 32)%nat.
  Hypothesis RFC : consts_rfc K = true.
  Hypothesis HS : consts_hashsigs K = true.

  Lemma H_len32 x : (length (H x) <= 32)%nat.
  Proof. rewrite H_len. lia. Qed.

  (* the spec-level description of one level of the model *)
  Definition mk_level (p : param) (seed I : bytes) (q : N) (C : bytes) : level :=
    {| lv_lms_type := l_type (snd p); lv_h := N.of_nat (l_h (snd p));
       lv_ots_type := o_type (fst p); lv_w := o_w (fst p); lv_p := N.of_nat (o_p (fst p));
       lv_ls := o_ls (fst p);
       lv_I := I; lv_seed := seed; lv_q := q; lv_C := C |}.

  Lemma tree_pk_rfc p seed I q C :
    length I = 16%nat ->
    tree_pk K n H p seed I = level_pub H (mk_level p seed I q C).
  Proof.
    intros LI. unfold tree_pk, level_pub, lms_root, mk_level. cbn [lv_lms_type lv_ots_type lv_I lv_h].
    rewrite lms_pk_rfc. rewrite (tree_rfc K n H H_len RFC) by assumption.
    rewrite Nat2N.id. reflexivity.
  Qed.

  Lemma sign_rfc p seed I q C msg :
    dom_ok n (fst p) = true -> length I = 16%nat ->
    lms_sign_bytes K n H I seed (fst p) (snd p) q C msg = level_sig n H (mk_level p seed I q C) msg.
  Proof.
    intros OK LI. unfold level_sig, mk_level.
    cbn [lv_lms_type lv_ots_type lv_I lv_h lv_q lv_w lv_p lv_ls lv_seed lv_C].
    apply (lms_sig_rfc K n H H_len RFC); assumption.
  Qed.

  (* the levels of the hash-sigs derivation along the leaf indices [q :: map snd below] *)
  Fixpoint hs_levels (seed I : bytes) (p : param) (q : N) (below : list (param * N)) : list level :=
    match below with
    | [] => [mk_level p seed I q (hs_randomizer H seed I q)]
    | (p', q') :: rest =>
      let (cseed, cI) := hs_child H seed I q in
      mk_level p seed I q (hs_randomizer H cseed cI q) :: hs_levels cseed cI p' q' rest
    end.

  Lemma hs_levels_head seed I p q below :
    exists C rest, hs_levels seed I p q below = mk_level p seed I q C :: rest.
  Proof.
    destruct below as [|[p' q'] r]; cbn [hs_levels].
    - eexists. eexists. reflexivity.
    - destruct (hs_child H seed I q). eexists. eexists. reflexivity.
  Qed.

  Lemma level_pub_indep p seed I q C q' C' :
    level_pub H (mk_level p seed I q C) = level_pub H (mk_level p seed I q' C').
  Proof. reflexivity. Qed.

  Lemma hss_chain_cons l l' r msg :
    hss_chain n H (l :: l' :: r) msg
    = level_sig n H l (level_pub H l') ++ level_pub H l' ++ hss_chain n H (l' :: r) msg.
  Proof. reflexivity. Qed.

  (* walking down the levels: signed public keys, then the bottom LMS signature *)
  Lemma expand_rfc below :
    forall seed I p q msg spks bseed bI bp bq,
      dom_ok n (fst p) = true -> Forall (fun pq => dom_ok n (fst (fst pq)) = true) below ->
      length I = 16%nat -> (length seed <= 32)%nat ->
      expand K n H seed I p q below = (spks, (bseed, bI, bp, bq)) ->
      concat spks ++ lms_sign_bytes K n H bI bseed (fst bp) (snd bp) bq (randomizer K H bseed bI bq) msg
      = hss_chain n H (hs_levels seed I p q below) msg.
  Proof.
    induction below as [|[p' q'] below IH]; intros seed I p q msg spks bseed bI bp bq OK F LI Ls E.
    - cbn [expand] in E. injection E as <- <- <- <- <-. cbn [concat app hs_levels hss_chain].
      rewrite (randomizer_hs K H HS H_len32) by assumption. now apply sign_rfc.
    - rewrite expand_cons in E.
      rewrite (child_seed_I_hs K H HS H_len32) in E by assumption.
      cbn [hs_levels].
      destruct (hs_child H seed I q) as [cseed cI] eqn:EC.
      assert (LcI : length cI = 16%nat).
      { unfold hs_child in EC. apply pair_equal_spec in EC. destruct EC as [_ <-]. rewrite firstn_length.
        unfold hs_derive. rewrite H_len. lia. }
      assert (Lcs : (length cseed <= 32)%nat).
      { unfold hs_child in EC. apply pair_equal_spec in EC. destruct EC as [<- _]. unfold hs_derive. apply H_len32. }
      destruct (expand K n H cseed cI p' q' below) as [spks' bottom] eqn:EE.
      apply pair_equal_spec in E. destruct E as [E1 E2]. subst spks bottom.
      inversion F as [|? ? OK' F']; subst. cbn [fst] in OK'.
      specialize (IH cseed cI p' q' msg spks' bseed bI bp bq OK' F' LcI Lcs EE).
      cbn [concat]. rewrite <- !app_assoc. rewrite IH.
      destruct (hs_levels_head cseed cI p' q' below) as [C' [rest' EL]].
      rewrite EL at 2. rewrite hss_chain_cons. rewrite <- EL.
      rewrite (randomizer_hs K H HS H_len32) by assumption.
      rewrite (tree_pk_rfc p' cseed cI q' C') by assumption.
      rewrite sign_rfc by assumption. reflexivity.
  Qed.

  Lemma hs_levels_length seed I p q below : length (hs_levels seed I p q below) = S (length below).
  Proof.
    revert seed I p q; induction below as [|[p' q'] r IH]; intros seed I p q; cbn [hs_levels length]; [reflexivity|].
    destruct (hs_child H seed I q). cbn [length]. now rewrite IH.
  Qed.

  (* C07: the released signature is the RFC 8554 HSS signature over the hash-sigs derivation *)
  Theorem hss_signature_is_rfc ps seed c msg sig :
    Forall (fun p => dom_ok n (fst p) = true) ps -> (length seed <= 32)%nat ->
    hss_signature K n H ps seed c msg = Ok sig ->
    match combine ps (leaf_digits (heights_of ps) c) with
    | [] => False
    | (p0, q0) :: below =>
      let (s0, I0) := hs_root H seed in
      sig = hss_signature_rfc n H (hs_levels s0 I0 p0 q0 below) msg
    end.
  Proof.
    intros F Ls. unfold hss_signature.
    assert (FC : Forall (fun pq : param * N => dom_ok n (fst (fst pq)) = true)
                        (combine ps (leaf_digits (heights_of ps) c))).
    { apply Forall_forall. intros [p q] Hin. apply in_combine_l in Hin. cbn [fst].
      rewrite Forall_forall in F. now apply F. }
    destruct (combine ps (leaf_digits (heights_of ps) c)) as [|[p0 q0] below]; [discriminate|].
    inversion FC as [|? ? OK0 FB]; subst. cbn [fst] in OK0.
    rewrite (root_seed_I_hs K H HS H_len32) by assumption.
    destruct (hs_root H seed) as [s0 I0] eqn:ER.
    assert (LI0 : length I0 = 16%nat).
    { unfold hs_root in ER. apply pair_equal_spec in ER. destruct ER as [_ <-]. rewrite firstn_length, H_len. lia. }
    assert (Ls0 : (length s0 <= 32)%nat).
    { unfold hs_root in ER. apply pair_equal_spec in ER. destruct ER as [<- _]. apply H_len32. }
    destruct (expand K n H s0 I0 p0 q0 below) as [spks [[[bseed bI] bp] bq]] eqn:EE.
    intros E. apply Ok_inj in E. subst sig. unfold hss_signature_rfc. rewrite hs_levels_length. cbn [Nat.sub]. rewrite Nat.sub_0_r.
    unfold u32str. f_equal. exact (expand_rfc below s0 I0 p0 q0 msg spks bseed bI bp bq OK0 FB LI0 Ls0 EE).
  Qed.

  (* C08: the public key is u32str(L) || LMS public key of the root tree of the hash-sigs derivation *)
  Theorem hss_public_key_is_rfc ps seed pk :
    (length seed <= 32)%nat ->
    hss_public_key K n H ps seed = Ok pk ->
    match ps with
    | [] => False
    | p0 :: _ =>
      let (s0, I0) := hs_root H seed in
      pk = u32str (N.of_nat (length ps)) ++ level_pub H (mk_level p0 s0 I0 0 [])
    end.
  Proof.
    intros Ls. unfold hss_public_key. destruct ps as [|p0 r]; [discriminate|].
    rewrite (root_seed_I_hs K H HS H_len32) by assumption.
    destruct (hs_root H seed) as [s0 I0] eqn:ER.
    assert (LI0 : length I0 = 16%nat).
    { unfold hs_root in ER. apply pair_equal_spec in ER. destruct ER as [_ <-]. rewrite firstn_length, H_len. lia. }
    intros E. apply Ok_inj in E. subst pk. unfold u32str. f_equal. now apply tree_pk_rfc.
  Qed.
End HssRfc.
