(* C10: the auxiliary cache is transparent.  Core: going through a cache whose non-empty slots
   hold true node values returns the true node and keeps the cache in that state. *)
From HbsLms Require Import Base.Bytes Model.Consts Model.Winternitz Model.Lmots Model.Lms Model.Aux.
From HbsLms Require Import Proofs.CounterProofs Proofs.RfcCore.

Local Open Scope N_scope.

(* ---------------------------------------------------------------- slots of n bytes in a layer *)

Definition slot_get (n : nat) (data : bytes) (k : nat) : bytes := firstn n (skipn (k * n) data).
Definition slot_set (n : nat) (data : bytes) (k : nat) (v : bytes) : bytes := blit data (k * n) v.

Lemma slot_decompose n (data : bytes) k m :
  length data = (m * n)%nat -> (k < m)%nat ->
  exists a mid c, data = a ++ mid ++ c /\ length a = (k * n)%nat /\ length mid = n
                  /\ length c = ((m - k - 1) * n)%nat.
Proof.
  intros L Hk.
  exists (firstn (k * n) data), (firstn n (skipn (k * n) data)), (skipn n (skipn (k * n) data)).
  assert (k * n + n <= m * n)%nat by nia.
  repeat split.
  - now rewrite firstn_skipn, firstn_skipn.
  - rewrite firstn_length. lia.
  - rewrite firstn_length, skipn_length. lia.
  - rewrite !skipn_length. nia.
Qed.

Lemma slot_set_length n (data : bytes) k m (v : bytes) :
  length data = (m * n)%nat -> (k < m)%nat -> length v = n -> length (slot_set n data k v) = (m * n)%nat.
Proof.
  intros L Hk Lv. destruct (slot_decompose n data k m L Hk) as [a [mid [c [-> [La [Lm Lc]]]]]].
  unfold slot_set. rewrite (blit_exact a mid c v (k * n)) by lia.
  rewrite !app_length in *. lia.
Qed.

Lemma slot_get_set_same n (data : bytes) k m (v : bytes) :
  length data = (m * n)%nat -> (k < m)%nat -> length v = n -> slot_get n (slot_set n data k v) k = v.
Proof.
  intros L Hk Lv. destruct (slot_decompose n data k m L Hk) as [a [mid [c [-> [La [Lm Lc]]]]]].
  unfold slot_set, slot_get. rewrite (blit_exact a mid c v (k * n)) by lia.
  rewrite skipn_app, La, Nat.sub_diag, skipn_all2 by lia. cbn [skipn app].
  rewrite firstn_app, Lv, Nat.sub_diag, firstn_all2 by lia. cbn [firstn]. now rewrite app_nil_r.
Qed.

Lemma slot_get_set_other n (data : bytes) k k' m (v : bytes) :
  length data = (m * n)%nat -> (k < m)%nat -> (k' < m)%nat -> k' <> k -> length v = n ->
  slot_get n (slot_set n data k v) k' = slot_get n data k'.
Proof.
  intros L Hk Hk' Hne Lv. destruct (slot_decompose n data k m L Hk) as [a [mid [c [-> [La [Lm Lc]]]]]].
  unfold slot_set, slot_get. rewrite (blit_exact a mid c v (k * n)) by lia.
  destruct (Nat.lt_ge_cases k' k) as [Hlt|Hge].
  - (* slot before k: inside a *)
    assert (k' * n + n <= k * n)%nat by nia.
    rewrite !skipn_app, La.
    replace (k' * n - k * n)%nat with 0%nat by lia. cbn [skipn].
    rewrite !firstn_app, skipn_length, La.
    replace (n - (k * n - k' * n))%nat with 0%nat by lia. cbn [firstn]. now rewrite !app_nil_r.
  - (* slot after k: inside c *)
    assert (k * n + n <= k' * n)%nat by nia.
    rewrite !(app_assoc a).
    rewrite (skipn_app (k' * n) (a ++ v)), (skipn_app (k' * n) (a ++ mid)), !app_length, La, Lv, Lm.
    rewrite (skipn_all2 (a ++ v)) by (rewrite app_length; lia).
    rewrite (skipn_all2 (a ++ mid)) by (rewrite app_length; lia). reflexivity.
Qed.

(* ---------------------------------------------------------------- the layer table *)

Section Cache.
  Variable K : consts.
  Variable n : nat.
  Variable H : bytes -> bytes.
  Hypothesis H_len : forall x, length (H x) = n.

  Definition wf_exp (e : expanded) : Prop :=
    NoDup (map fst (ax_layers e))
    /\ Forall (fun l : nat * bytes => length (snd l) = (2 ^ fst l * n)%nat) (ax_layers e).

  Definition slot_index (r : N) : nat := N.to_nat (r - 2 ^ N.log2 r).

  Lemma slot_index_lt r : 1 <= r -> (slot_index r < 2 ^ node_level r)%nat.
  Proof.
    intros Hr. unfold slot_index, node_level.
    destruct (N.log2_spec r ltac:(lia)) as [Hlo Hhi]. rewrite N.pow_succ_r' in Hhi.
    assert (E : (2 ^ N.to_nat (N.log2 r))%nat = N.to_nat (2 ^ N.log2 r)) by (rewrite N2Nat.inj_pow; reflexivity).
    rewrite E. lia.
  Qed.

  Lemma extract_spec e r :
    extract_aux n e r =
    match find (fun l => Nat.eqb (fst l) (node_level r)) (ax_layers e) with
    | None => None
    | Some (_, data) => let s := slot_get n data (slot_index r) in if all_zero s then None else Some s
    end.
  Proof. reflexivity. Qed.

  Lemma find_layer_In (ls : list (nat * bytes)) lv i data :
    find (fun l => Nat.eqb (fst l) lv) ls = Some (i, data) -> In (i, data) ls /\ i = lv.
  Proof.
    intros E. apply find_some in E. destruct E as [Hin E]. cbn [fst] in E. apply Nat.eqb_eq in E. now split.
  Qed.

  Lemma find_map_same (ls : list (nat * bytes)) lv (f : bytes -> bytes) :
    NoDup (map fst ls) ->
    find (fun l => Nat.eqb (fst l) lv)
         (map (fun l => if Nat.eqb (fst l) lv then (fst l, f (snd l)) else l) ls)
    = match find (fun l => Nat.eqb (fst l) lv) ls with
      | Some (i, d) => Some (i, f d)
      | None => None
      end.
  Proof.
    induction ls as [|[i d] ls IH]; intros ND; cbn [map find fst snd]; [reflexivity|].
    destruct (Nat.eqb i lv) eqn:E; cbn [fst]; rewrite ?E; [reflexivity|].
    apply IH. now inversion ND.
  Qed.

  Lemma find_map_other (ls : list (nat * bytes)) lv lv' (f : bytes -> bytes) :
    lv' <> lv ->
    find (fun l => Nat.eqb (fst l) lv')
         (map (fun l => if Nat.eqb (fst l) lv then (fst l, f (snd l)) else l) ls)
    = find (fun l => Nat.eqb (fst l) lv') ls.
  Proof.
    intros Hne. induction ls as [|[i d] ls IH]; cbn [map find fst snd]; [reflexivity|].
    destruct (Nat.eqb i lv) eqn:E; cbn [fst].
    - apply Nat.eqb_eq in E. subst i. destruct (Nat.eqb lv lv') eqn:E2; [apply Nat.eqb_eq in E2; congruence|exact IH].
    - destruct (Nat.eqb i lv'); [reflexivity|exact IH].
  Qed.

  Lemma save_wf e r v : 1 <= r -> length v = n -> wf_exp e -> wf_exp (save_aux n e r v).
  Proof.
    intros Hr Lv [ND F]. unfold wf_exp, save_aux. cbn [ax_layers]. split.
    - rewrite map_map. erewrite map_ext; [exact ND|]. intros [i d]. cbn [fst]. destruct (Nat.eqb i (node_level r)); reflexivity.
    - apply Forall_forall. intros l Hin. apply in_map_iff in Hin. destruct Hin as [[i d] [<- Hin]].
      rewrite Forall_forall in F. specialize (F _ Hin). cbn [fst snd] in *.
      destruct (Nat.eqb i (node_level r)) eqn:E; cbn [fst snd]; [|exact F].
      apply Nat.eqb_eq in E. subst i. fold (slot_index r). fold (slot_set n d (slot_index r) v).
      apply slot_set_length; try assumption. now apply slot_index_lt.
  Qed.

  Lemma extract_save_same e r v :
    1 <= r -> length v = n -> wf_exp e ->
    extract_aux n (save_aux n e r v) r = None \/ extract_aux n (save_aux n e r v) r = Some v.
  Proof.
    intros Hr Lv [ND F]. rewrite extract_spec. unfold save_aux. cbn [ax_layers].
    fold (slot_index r).
    rewrite (find_map_same (ax_layers e) (node_level r) (fun d => blit d (slot_index r * n) v)) by assumption.
    destruct (find (fun l => Nat.eqb (fst l) (node_level r)) (ax_layers e)) as [[i d]|] eqn:E; [|now left].
    apply find_layer_In in E. destruct E as [Hin ->]. rewrite Forall_forall in F. specialize (F _ Hin). cbn [fst snd] in F.
    cbn beta iota. fold (slot_set n d (slot_index r) v).
    rewrite (slot_get_set_same n d (slot_index r) (2 ^ node_level r) v F (slot_index_lt r Hr) Lv).
    destruct (all_zero v); [now left|now right].
  Qed.

  Lemma slot_index_inj r r' :
    1 <= r -> 1 <= r' -> node_level r = node_level r' -> slot_index r = slot_index r' -> r = r'.
  Proof.
    unfold node_level, slot_index. intros Hr Hr' El Es.
    assert (E : N.log2 r = N.log2 r') by lia. rewrite E in Es.
    destruct (N.log2_spec r ltac:(lia)) as [Hlo _]. destruct (N.log2_spec r' ltac:(lia)) as [Hlo' _].
    rewrite E in Hlo. lia.
  Qed.

  Lemma extract_save_other e r r' v :
    1 <= r -> 1 <= r' -> r' <> r -> length v = n -> wf_exp e ->
    extract_aux n (save_aux n e r v) r' = extract_aux n e r'.
  Proof.
    intros Hr Hr' Hne Lv [ND F]. rewrite !extract_spec. unfold save_aux. cbn [ax_layers].
    fold (slot_index r).
    destruct (Nat.eq_dec (node_level r') (node_level r)) as [El|El].
    - rewrite El.
      rewrite (find_map_same (ax_layers e) (node_level r) (fun d => blit d (slot_index r * n) v)) by assumption.
      destruct (find (fun l => Nat.eqb (fst l) (node_level r)) (ax_layers e)) as [[i d]|] eqn:E; [|reflexivity].
      apply find_layer_In in E. destruct E as [Hin ->]. rewrite Forall_forall in F. specialize (F _ Hin). cbn [fst snd] in F.
      cbn beta iota. fold (slot_set n d (slot_index r) v).
      rewrite (slot_get_set_other n d (slot_index r) (slot_index r') (2 ^ node_level r) v F
                 (slot_index_lt r Hr)); try assumption; [reflexivity| |].
      + rewrite <- El. now apply slot_index_lt.
      + intros Es. apply Hne. apply slot_index_inj; auto.
    - now rewrite (find_map_other (ax_layers e) (node_level r) (node_level r') (fun d => blit d (slot_index r * n) v)).
  Qed.

  (* ---------------------------------------------------------------- the tree through the cache *)

  Variable h : nat.
  Variables (I seed : bytes) (prm : otsp).

  Local Notation TT := (tree K n H h I seed prm).

  (* every non-empty slot holds the true node *)
  Definition cache_ok (e : expanded) : Prop :=
    forall r d v, 1 <= r -> (node_level r + d = h)%nat -> extract_aux n e r = Some v -> v = TT d r.

  Lemma tree_length' d r : length (TT d r) = n.
  Proof. destruct d; cbn [tree]; apply H_len. Qed.

  Lemma level_double r : 1 <= r -> node_level (2 * r) = S (node_level r) /\ node_level (2 * r + 1) = S (node_level r).
  Proof.
    intros Hr. unfold node_level. rewrite N.log2_double by lia.
    rewrite N.log2_succ_double by lia. split; lia.
  Qed.

  Theorem tree_aux_correct d :
    forall r e,
      1 <= r -> (node_level r + d = h)%nat -> wf_exp e -> cache_ok e ->
      fst (tree_aux K n H h I seed prm d r e) = TT d r
      /\ wf_exp (snd (tree_aux K n H h I seed prm d r e))
      /\ cache_ok (snd (tree_aux K n H h I seed prm d r e)).
  Proof.
    induction d as [|d IH]; intros r e Hr Hl W C.
    - cbn [tree_aux]. destruct (extract_aux n e r) as [v|] eqn:EX; cbn [fst snd].
      + split; [exact (C r 0%nat v Hr Hl EX)|split; assumption].
      + split; [reflexivity|]. set (v := leaf_hash K H I r (ots_pub K n H I (r - 2 ^ N.of_nat h) seed prm)).
        assert (Lv : length v = n) by apply H_len.
        split; [now apply save_wf|].
        intros r' d' v' Hr' Hl' EX'. destruct (N.eq_dec r' r) as [->|Hne].
        * assert (d' = 0%nat) by lia. subst d'.
          destruct (extract_save_same e r v Hr Lv W) as [E|E]; rewrite E in EX'; [discriminate|]. now injection EX' as <-.
        * rewrite extract_save_other in EX' by assumption. exact (C r' d' v' Hr' Hl' EX').
    - cbn [tree_aux]. destruct (extract_aux n e r) as [v|] eqn:EX; cbn [fst snd].
      + split; [exact (C r (S d) v Hr Hl EX)|split; assumption].
      + destruct (level_double r Hr) as [L1 L2].
        destruct (IH (2 * r) e ltac:(lia) ltac:(lia) W C) as [V1 [W1 C1]].
        destruct (tree_aux K n H h I seed prm d (2 * r) e) as [l e1]. cbn [fst snd] in *.
        destruct (IH (2 * r + 1) e1 ltac:(lia) ltac:(lia) W1 C1) as [V2 [W2 C2]].
        destruct (tree_aux K n H h I seed prm d (2 * r + 1) e1) as [rt e2]. cbn [fst snd] in *.
        subst l rt. cbn [tree]. split; [reflexivity|].
        set (v := intr_hash K H I r (TT d (2 * r)) (TT d (2 * r + 1))).
        assert (Lv : length v = n) by apply H_len.
        split; [now apply save_wf|].
        intros r' d' v' Hr' Hl' EX'. destruct (N.eq_dec r' r) as [->|Hne].
        * assert (d' = S d) by lia. subst d'.
          destruct (extract_save_same e2 r v Hr Lv W2) as [E|E]; rewrite E in EX'; [discriminate|]. now injection EX' as <-.
        * rewrite extract_save_other in EX' by assumption. exact (C2 r' d' v' Hr' Hl' EX').
  Qed.
End Cache.

(* ---------------------------------------------------------------- a cleared cache is a good cache *)

Lemma firstn_repeat {A} (x : A) k m : firstn k (repeat x m) = repeat x (Nat.min k m).
Proof.
  revert m; induction k as [|k IH]; intros [|m]; cbn; try reflexivity. now rewrite IH.
Qed.

Lemma skipn_repeat {A} (x : A) k m : skipn k (repeat x m) = repeat x (m - k).
Proof.
  revert m; induction k as [|k IH]; intros [|m]; cbn; try reflexivity. apply IH.
Qed.

Lemma all_zero_repeat m : all_zero (repeat x00 m) = true.
Proof. induction m as [|m IH]; cbn; [reflexivity|exact IH]. Qed.

Section Fresh.
  Variable K : consts.
  Variable n : nat.
  Variable H : bytes -> bytes.

  Lemma split_layers_zero sizes :
    forall m ls rest,
      split_layers sizes (repeat x00 m) = Ok (ls, rest) ->
      ls = map (fun s : nat * N => (fst s, repeat x00 (N.to_nat (snd s)))) sizes.
  Proof.
    induction sizes as [|[i sz] r IH]; intros m ls rest; cbn [split_layers].
    - intros [= <- _]. reflexivity.
    - rewrite repeat_length. destruct (N.ltb_spec (N.of_nat m) sz) as [|Hle]; [discriminate|].
      unfold read. rewrite repeat_length.
      replace (Nat.leb (N.to_nat sz) m) with true by (symmetry; apply Nat.leb_le; lia).
      rewrite firstn_repeat, skipn_repeat, Nat.min_l by lia.
      destruct (split_layers r (repeat x00 (m - N.to_nat sz))) as [[ls' rest']| |] eqn:E2; cbn [bind]; try discriminate.
      intros [= <- _]. cbn [map fst snd]. f_equal. exact (IH _ _ _ E2).
  Qed.

  Lemma layer_sizes_levels lvl :
    NoDup (map fst (layer_sizes K n lvl))
    /\ Forall (fun s : nat * N => N.to_nat (snd s) = (2 ^ fst s * n)%nat) (layer_sizes K n lvl).
  Proof.
    unfold layer_sizes. generalize (seq_NoDup (S (max_tree_height K)) 0).
    generalize (seq 0 (S (max_tree_height K))). intros l ND.
    induction l as [|i l IH]; cbn [flat_map map]; [split; constructor|].
    inversion ND as [|? ? Hnot ND']; subst. destruct (IH ND') as [A B].
    destruct (N.testbit lvl (N.of_nat i)); cbn [app map fst]; [|split; assumption].
    split.
    - constructor; [|exact A]. intros Hin. apply Hnot. apply in_map_iff in Hin.
      destruct Hin as [[j sz] [Ej Hin]]. cbn [fst] in Ej. subst j.
      apply in_flat_map in Hin. destruct Hin as [j [Hj Hin]].
      destruct (N.testbit lvl (N.of_nat j)); [|contradiction]. destruct Hin as [[= <- _]|[]]. exact Hj.
    - constructor; [|exact B]. cbn [fst snd].
      rewrite N2Nat.inj_mul, N2Nat.inj_pow, !Nat2N.id. change (N.to_nat 2) with 2%nat. lia.
  Qed.

  (* a cache whose layers are all zero: well-formed, and no slot claims anything *)
  Lemma zero_cache_good h (I seed : bytes) (prm : otsp) lvl hm :
    let e := {| ax_level := lvl;
                ax_layers := map (fun s : nat * N => (fst s, repeat x00 (N.to_nat (snd s)))) (layer_sizes K n lvl);
                ax_hmac := hm |} in
    wf_exp n e /\ cache_ok K n H h I seed prm e.
  Proof.
    intros e. destruct (layer_sizes_levels lvl) as [ND F]. split.
    - unfold wf_exp, e. cbn [ax_layers]. split.
      + rewrite map_map. cbn [fst]. exact ND.
      + apply Forall_forall. intros l Hin. apply in_map_iff in Hin. destruct Hin as [s [<- Hs]].
        rewrite Forall_forall in F. specialize (F s Hs). cbn [fst snd]. rewrite repeat_length. exact F.
    - intros r d v Hr Hl EX. exfalso. rewrite extract_spec in EX. unfold e in EX. cbn [ax_layers] in EX.
      destruct (find _ _) as [[i data]|] eqn:E; [|discriminate].
      apply find_some in E. destruct E as [Hin _]. apply in_map_iff in Hin. destruct Hin as [s [[= <- <-] _]].
      cbn beta iota in EX. unfold slot_get in EX. rewrite skipn_repeat, firstn_repeat, all_zero_repeat in EX.
      discriminate.
  Qed.
End Fresh.

(* ---------------------------------------------------------------- key generation with a buffer *)

From HbsLms Require Import Model.Derive Model.KeyBlob Model.Hss Proofs.TotalProofs.

Section KeygenAux.
  Variable K : consts.
  Variable n : nat.
  Variable H : bytes -> bytes.
  Hypothesis H_len : forall x, length (H x) = n.

  Definition good_view (h : nat) (I seed : bytes) (prm : otsp) (oe : option expanded) : Prop :=
    match oe with
    | None => True
    | Some e => wf_exp n e /\ cache_ok K n H h I seed prm e
    end.

  (* with a view that is absent or good, key generation returns exactly the no-aux key pair *)
  Theorem keygen_aux_same ps seed aux :
    (forall k p0 rest oe aux1,
        key_generate K ps seed = Ok k -> params_of_bytes K n (k_params k) = Ok (p0 :: rest) ->
        get_expanded K n H aux seed (l_h (snd p0)) = Ok (oe, aux1) ->
        good_view (l_h (snd p0)) (snd (root_seed_I K H seed)) (fst (root_seed_I K H seed)) (fst p0) oe) ->
    match keygen_aux K n H ps seed aux with
    | Ok (sk, pk, _) => keygen K n H ps seed = Ok (sk, pk)
    | Err => keygen K n H ps seed = Err
             \/ exists k p0 rest, key_generate K ps seed = Ok k /\ params_of_bytes K n (k_params k) = Ok (p0 :: rest)
                                  /\ get_expanded K n H aux seed (l_h (snd p0)) = Err
    | Panic => exists k p0 rest, key_generate K ps seed = Ok k /\ params_of_bytes K n (k_params k) = Ok (p0 :: rest)
                                 /\ get_expanded K n H aux seed (l_h (snd p0)) = Panic
    end.
  Proof.
    intros G. unfold keygen_aux, keygen.
    destruct (key_generate K ps seed) as [k| |] eqn:EK; cbn [bind]; [|now left|].
    2:{ exfalso. unfold key_generate, params_to_bytes in EK.
        destruct (Nat.ltb _ _); cbn [bind] in EK; [discriminate EK|].
        destruct (negb _); cbn [bind] in EK; discriminate EK. }
    destruct (params_of_bytes K n (k_params k)) as [ps'| |] eqn:EP; cbn [bind]; [|now left|].
    2:{ exfalso. exact (Proofs.TotalProofs.params_of_bytes_total K n _ EP). }
    destruct ps' as [|p0 rest].
    { exfalso. exact (Proofs.TotalProofs.params_of_bytes_nonempty K n _ _ EP eq_refl). }
    destruct (get_expanded K n H aux seed (l_h (snd p0))) as [[oe aux1]| |] eqn:EG; cbn [bind].
    - specialize (G k p0 rest oe aux1 eq_refl EP EG).
      unfold hss_public_key. destruct (root_seed_I K H seed) as [s0 I0] eqn:ER. cbn [fst snd] in G. cbn [bind].
      assert (ROOT : fst (match oe with
                          | None => (lms_root K n H I0 s0 (fst p0) (snd p0), aux1)
                          | Some e =>
                            let (rt, e') := tree_aux K n H (l_h (snd p0)) I0 s0 (fst p0) (l_h (snd p0)) 1 e in
                            (rt, unexpand (if match aux with b0 :: _ => b2n b0 =? c_no_aux_data K | [] => false end
                                           then finalize_aux K n H e' seed else e'))
                          end) = lms_root K n H I0 s0 (fst p0) (snd p0)).
      { destruct oe as [e|]; [|reflexivity]. destruct G as [W C].
        pose proof (tree_aux_correct K n H H_len (l_h (snd p0)) I0 s0 (fst p0) (l_h (snd p0)) 1 e
                      ltac:(lia) ltac:(reflexivity) W C) as [V _].
        destruct (tree_aux K n H (l_h (snd p0)) I0 s0 (fst p0) (l_h (snd p0)) 1 e) as [rt e']. exact V. }
      destruct (match oe with
                | None => (lms_root K n H I0 s0 (fst p0) (snd p0), aux1)
                | Some e => _
                end) as [root aux2]. cbn [fst] in ROOT. subst root.
      unfold tree_pk.
      destruct (Nat.ltb _ (length (blob_of K k))); [now left|].
      destruct (Nat.ltb _ _); [now left|reflexivity].
    - right. exists k, p0, rest. repeat split; assumption.
    - exists k, p0, rest. repeat split; assumption.
  Qed.
End KeygenAux.
