(* C14: a constrained build configuration only restricts what is accepted. *)
From HbsLms Require Import Base.Bytes Model.Consts Model.Counter Model.KeyBlob Model.Codec Model.Hss Model.SignCore.
From HbsLms Require Import Proofs.KeyBlobProofs Proofs.SignProofs.

Local Open Scope N_scope.

Section Cfg.
  Variable K : consts.
  Variable n : nat.
  Variable H : bytes -> bytes.
  Variables (lv : nat) (hs ws : list N).

  Local Notation K' := (with_cfg K lv hs ws).

  Hypothesis PK : pack_ok K n = true.

  Lemma pack_ok_cfg : pack_ok K' n = true.
  Proof. exact PK. Qed.

  Lemma tbl_params_cfg : tbl_params K' n = tbl_params K n.
  Proof. reflexivity. Qed.

  (* parameter bytes of a list that both configurations accept *)
  Lemma params_bytes_cfg ps :
    all_within_limits K' 0 ps = true -> all_within_limits K 0 ps = true ->
    params_to_bytes K' ps = params_to_bytes K ps.
  Proof.
    intros W' W. unfold params_to_bytes. rewrite W', W. reflexivity.
  Qed.

  Lemma params_of_bytes_cfg ps pb :
    Forall (fun p => In p (tbl_params K n)) ps -> ps <> [] ->
    all_within_limits K' 0 ps = true -> all_within_limits K 0 ps = true ->
    params_to_bytes K ps = Ok pb ->
    params_of_bytes K' n pb = Ok ps /\ params_of_bytes K n pb = Ok ps.
  Proof.
    intros F Hne W' W E. split.
    - apply (params_roundtrip K' n pack_ok_cfg ps pb F Hne). rewrite params_bytes_cfg by assumption. exact E.
    - apply (params_roundtrip K n PK ps pb F Hne E).
  Qed.

  (* key generation: same private key and public key *)
  Theorem keygen_cfg ps seed :
    Forall (fun p => In p (tbl_params K n)) ps -> ps <> [] ->
    all_within_limits K' 0 ps = true -> all_within_limits K 0 ps = true ->
    keygen K' n H ps seed = keygen K n H ps seed.
  Proof.
    intros F Hne W' W. unfold keygen, key_generate.
    rewrite params_bytes_cfg by assumption.
    destruct (params_to_bytes K ps) as [pb| |] eqn:E; cbn [bind]; try reflexivity.
    cbn [k_params k_seed].
    destruct (params_of_bytes_cfg ps pb F Hne W' W E) as [-> ->]. reflexivity.
  Qed.

  (* signing with a key whose parameter bytes both configurations decode to the same list *)
  Theorem sign_core_cfg blob k ps msg cb :
    blob_parse K n blob = Ok k ->
    params_of_bytes K' n (k_params k) = Ok ps -> params_of_bytes K n (k_params k) = Ok ps ->
    sign_core K' n H blob msg cb = sign_core K n H blob msg cb.
  Proof.
    intros EB E' E. unfold sign_core.
    change (blob_parse K' n blob) with (blob_parse K n blob). rewrite EB, E', E. reflexivity.
  Qed.

  Theorem get_lifetime_cfg blob k ps :
    blob_parse K n blob = Ok k ->
    params_of_bytes K' n (k_params k) = Ok ps -> params_of_bytes K n (k_params k) = Ok ps ->
    get_lifetime K' n blob = get_lifetime K n blob.
  Proof.
    intros EB E' E. unfold get_lifetime.
    change (blob_parse K' n blob) with (blob_parse K n blob). rewrite EB. cbn [bind]. now rewrite E', E.
  Qed.

  (* verification of a signature with fewer levels than either configuration supports *)
  Theorem hss_verify_cfg msg sig pk nb rest :
    rd 4 sig = Ok (nb, rest) -> be_dec nb < N.of_nat lv -> be_dec nb < N.of_nat (c_max_levels K) ->
    hss_verify K' n H msg sig pk = hss_verify K n H msg sig pk.
  Proof.
    intros R L1 L2. unfold hss_verify, parse_hss_sig. rewrite R. cbn [bind].
    change (c_max_levels K') with lv.
    destruct (N.leb_spec (N.of_nat lv) (be_dec nb)); [lia|].
    destruct (N.leb_spec (N.of_nat (c_max_levels K)) (be_dec nb)); [lia|]. reflexivity.
  Qed.

  (* parameter lists beyond the limits are refused with an error *)
  Theorem keygen_beyond_limits ps seed :
    all_within_limits K' 0 ps = false -> keygen K' n H ps seed = Err.
  Proof.
    intros W. unfold keygen, key_generate, params_to_bytes. rewrite W.
    destruct (Nat.ltb _ _); reflexivity.
  Qed.

  Theorem key_load_beyond_limits blob k msg cb :
    blob_parse K n blob = Ok k -> params_of_bytes K' n (k_params k) = Err ->
    sign_core K' n H blob msg cb = (Err, []) /\ get_lifetime K' n blob = Err.
  Proof.
    intros EB E. unfold sign_core, get_lifetime.
    change (blob_parse K' n blob) with (blob_parse K n blob). rewrite EB. cbn [bind]. now rewrite E.
  Qed.
End Cfg.
