(* C01: every HSS signature the model's signer produces is accepted by the model's verifier
   under the public key of the same seed -- any hash function with n-byte output, any
   number of levels, any per-level parameters, any counter, any message. *)
From HbsLms Require Import Base.Bytes Model.Consts Model.Winternitz Model.Lmots Model.Lms
     Model.Derive Model.Counter Model.KeyBlob Model.Codec Model.Hss.
From HbsLms Require Import Proofs.CounterProofs Proofs.WinternitzProofs Proofs.CompleteProofs
     Proofs.CodecProofs.

Local Open Scope N_scope.

Lemma Forall2_rev {A B} (P : A -> B -> Prop) a b : Forall2 P a b -> Forall2 P (rev a) (rev b).
Proof.
  induction 1 as [|x y a b Hxy _ IH]; [constructor|]. cbn [rev].
  apply Forall2_app; [assumption|]. constructor; [assumption|constructor].
Qed.

Section HssComplete.
  Variable K : consts.
  Variable n : nat.
  Variable H : bytes -> bytes.
  Hypothesis H_len : forall x, length (H x) = n.
  Hypothesis ilen_le : (c_ilen K <= n)%nat.
  Hypothesis levels_small : N.of_nat (c_max_levels K) < 4294967296.


  Definition wf_param (p : param) : Prop := wf_ots K n (fst p) /\ wf_lms K (snd p).

  Lemma chain_length I q i from s x : length x = n -> length (chain K n H I q i from s x) = n.
  Proof.
    revert from x; induction s as [|s IH]; intros from x Hx; cbn [chain]; [exact Hx|].
    apply IH. apply H_len.
  Qed.

  Lemma ots_sign_ys_length I q seed prm C msg :
    length (ots_sign_ys K n H I q seed prm C msg) = o_p prm.
  Proof.
    unfold ots_sign_ys. rewrite map_length, !combine_length, nrange_length, digits_length, ots_priv_length.
    lia.
  Qed.

  Lemma ots_sign_ys_sizes I q seed prm C msg :
    Forall (fun y => length y = n) (ots_sign_ys K n H I q seed prm C msg).
  Proof.
    unfold ots_sign_ys. apply Forall_forall. intros y Hy. apply in_map_iff in Hy.
    destruct Hy as [[[i a] x] [<- Hin]]. cbn [fst snd]. apply chain_length.
    apply in_combine_r in Hin. unfold ots_priv in Hin. apply in_map_iff in Hin.
    destruct Hin as [j [<- _]]. apply H_len.
  Qed.

  Lemma tree_length h I seed prm d r : length (tree K n H h I seed prm d r) = n.
  Proof. destruct d; cbn [tree]; apply H_len. Qed.

  Lemma auth_path_length I seed prm lp q : length (auth_path K n H I seed prm lp q) = l_h lp.
  Proof. unfold auth_path. now rewrite map_length, seq_length. Qed.

  Lemma auth_path_sizes I seed prm lp q :
    Forall (fun y => length y = n) (auth_path K n H I seed prm lp q).
  Proof.
    unfold auth_path. apply Forall_forall. intros y Hy. apply in_map_iff in Hy.
    destruct Hy as [i [<- _]]. apply tree_length.
  Qed.

  (* the structures the parser recovers from what the signer serialised *)
  Definition sig_struct (I seed : bytes) (p : param) (q : N) (C msg : bytes) : lms_sig :=
    {| s_q := q; s_ots := fst p; s_C := C;
       s_y := ots_sign_ys K n H I q seed (fst p) C msg;
       s_lms := snd p; s_path := auth_path K n H I seed (fst p) (snd p) q |}.

  Definition pk_struct (p : param) (seed I : bytes) : lms_pk :=
    {| p_lms := snd p; p_ots := fst p; p_I := I;
       p_key := lms_root K n H I seed (fst p) (snd p);
       p_raw := tree_pk K n H p seed I |}.

  Lemma parse_signed I seed p q C msg rest :
    wf_param p -> q < 2 ^ N.of_nat (l_h (snd p)) -> length C = n ->
    parse_lms_sig K n (lms_sign_bytes K n H I seed (fst p) (snd p) q C msg ++ rest)
    = Ok (sig_struct I seed p q C msg, rest).
  Proof.
    intros [Wo Wl] Hq HC. unfold lms_sign_bytes, ots_sig_bytes.
    rewrite <- !app_assoc.
    pose proof (parse_lms_sig_roundtrip K n (fst p) (snd p) q C
                  (ots_sign_ys K n H I q seed (fst p) C msg)
                  (auth_path K n H I seed (fst p) (snd p) q) rest Wo Wl Hq HC
                  (ots_sign_ys_length _ _ _ _ _ _) (ots_sign_ys_sizes _ _ _ _ _ _)
                  (auth_path_length _ _ _ _ _) (auth_path_sizes _ _ _ _ _)) as R.
    rewrite <- !app_assoc in R. exact R.
  Qed.

  Lemma parse_tree_pk p seed I rest :
    wf_param p -> length I = c_ilen K ->
    parse_lms_pk K n (tree_pk K n H p seed I ++ rest) = Ok (pk_struct p seed I, rest).
  Proof.
    intros [Wo Wl] HI. unfold tree_pk.
    apply parse_lms_pk_roundtrip; try assumption. apply tree_length.
  Qed.

  Lemma lms_verify_signed I seed p q C msg :
    q < 2 ^ N.of_nat (l_h (snd p)) ->
    lms_verify K n H (sig_struct I seed p q C msg) (pk_struct p seed I) msg = true.
  Proof.
    intros Hq. unfold lms_verify, sig_struct, pk_struct. cbn [s_ots s_lms s_q s_C s_y s_path p_ots p_lms p_I p_key].
    rewrite (proj2 (otsp_eqb_eq _ _) eq_refl), (proj2 (lmsp_eqb_eq _ _) eq_refl).
    rewrite (proj2 (N.ltb_lt _ _) Hq). cbn [andb].
    rewrite lms_complete by assumption. apply bytes_eqb_refl.
  Qed.

  Lemma randomizer_length seed I q : length (randomizer K H seed I q) = n.
  Proof. unfold randomizer, seed_derive. apply H_len. Qed.

  Lemma child_I_length seed I q : length (snd (child_seed_I K H seed I q)) = c_ilen K.
  Proof.
    unfold child_seed_I, seed_derive. cbn [snd]. rewrite firstn_length, (H_len _). lia.
  Qed.

  Lemma parse_spks_S k data :
    parse_spks K n (S k) data =
    (do (s, r1) <- parse_lms_sig K n data;
     do (p, r2) <- parse_lms_pk K n r1;
     do (rest, r3) <- parse_spks K n k r2;
     Ok ((s, p) :: rest, r3)).
  Proof. reflexivity. Qed.

  Lemma expand_cons seed I p q p' q' rest :
    expand K n H seed I p q ((p', q') :: rest) =
    (let (cseed, cI) := child_seed_I K H seed I q in
     let (spks, bottom) := expand K n H cseed cI p' q' rest in
     ((lms_sign_bytes K n H I seed (fst p) (snd p) q (randomizer K H cseed cI q)
                      (tree_pk K n H p' cseed cI) ++ tree_pk K n H p' cseed cI) :: spks, bottom)).
  Proof. cbn [expand]. destruct (child_seed_I K H seed I q). reflexivity. Qed.

  Definition level_ok (pq : param * N) : Prop :=
    wf_param (fst pq) /\ snd pq < 2 ^ N.of_nat (l_h (snd (fst pq))).

  (* walking down the levels: the signed public keys parse back and verify as a chain *)
  Lemma expand_verifies below :
    forall seed I p q rest spks bseed bI bp bq,
      level_ok (p, q) -> Forall level_ok below -> length I = c_ilen K ->
      expand K n H seed I p q below = (spks, (bseed, bI, bp, bq)) ->
      exists structs,
        parse_spks K n (length below) (concat spks ++ rest) = Ok (structs, rest)
        /\ verify_chain K n H (pk_struct p seed I) structs = Some (pk_struct bp bseed bI)
        /\ level_ok (bp, bq) /\ length bI = c_ilen K
        /\ map (fun sp => s_q (fst sp)) structs ++ [bq] = q :: map snd below.
  Proof.
    induction below as [|[p' q'] below IH]; intros seed I p q rest spks bseed bI bp bq Lk Fb HI E.
    - cbn [expand] in E. injection E as <- <- <- <- <-. exists []. cbn. repeat split; try assumption; apply Lk.
    - rewrite expand_cons in E.
      pose proof (child_I_length seed I q) as HcI.
      destruct (child_seed_I K H seed I q) as [cseed cI] eqn:EC. cbn [snd] in HcI.
      destruct (expand K n H cseed cI p' q' below) as [spks' bottom] eqn:EE.
      apply pair_equal_spec in E. destruct E as [E1 E2]. subst spks bottom.
      inversion Fb as [|? ? Lk' Fb']; subst.
      destruct (IH cseed cI p' q' rest spks' bseed bI bp bq Lk' Fb' HcI EE)
        as [structs [P [V [Lb [HbI HQ]]]]].
      exists ((sig_struct I seed p q (randomizer K H cseed cI q) (tree_pk K n H p' cseed cI),
               pk_struct p' cseed cI) :: structs).
      destruct Lk as [Wp Hq]. cbn [fst snd] in Wp, Hq.
      destruct Lk' as [Wp' Hq']. cbn [fst snd] in Wp', Hq'.
      split; [|split; [|split; [|split]]].
      + change (length ((p', q') :: below)) with (S (length below)).
        rewrite parse_spks_S, concat_cons. rewrite <- !app_assoc.
        rewrite parse_signed by (try assumption; apply randomizer_length). cbn [bind].
        rewrite parse_tree_pk by assumption. cbn [bind].
        rewrite P. reflexivity.
      + cbn [verify_chain]. change (p_raw (pk_struct p' cseed cI)) with (tree_pk K n H p' cseed cI).
        rewrite lms_verify_signed by assumption. exact V.
      + exact Lb.
      + exact HbI.
      + cbn [map fst snd s_q sig_struct app]. f_equal. exact HQ.
  Qed.

  Lemma root_I_length seed : length (snd (root_seed_I K H seed)) = c_ilen K.
  Proof. unfold root_seed_I. cbn [snd]. rewrite firstn_length, (H_len _). lia. Qed.

  (* per-level leaf indices selected by a counter are within their trees *)
  Lemma digits_in_range (ps : list param) c :
    Forall wf_param ps ->
    Forall level_ok (combine ps (leaf_digits (heights_of ps) c)).
  Proof.
    intros Fw.
    pose proof (leaf_digits_rev_bound (rev (heights_of ps)) c) as B.
    apply Forall2_rev in B. rewrite rev_involutive in B. fold (leaf_digits (heights_of ps) c) in B.
    revert B. generalize (leaf_digits (heights_of ps) c). clear -Fw.
    induction Fw as [|p ps Wp _ IH]; intros qs B; [constructor|].
    cbn [heights_of map] in B. inversion B as [|? q ? qs' Hq B']; subst. cbn [combine].
    constructor; [split; assumption|]. apply IH. exact B'.
  Qed.

  Theorem hss_complete (ps : list param) (seed msg : bytes) (c : N) :
    ps <> [] -> (length ps <= c_max_levels K)%nat -> Forall wf_param ps ->
    exists sig pk s,
      hss_signature K n H ps seed c msg = Ok sig
      /\ hss_public_key K n H ps seed = Ok pk
      /\ hss_verify K n H msg sig pk = Ok tt
      /\ parse_hss_sig K n sig = Ok s
      /\ map (fun sp => s_q (fst sp)) (h_spks s) ++ [s_q (h_sig s)] = leaf_digits (heights_of ps) c.
  Proof.
    intros Hne Hlen Fw.
    pose proof (digits_in_range ps c Fw) as Fl.
    pose proof (leaf_digits_length (heights_of ps) c) as Ld.
    unfold heights_of in Ld at 2. rewrite map_length in Ld.
    unfold hss_signature, hss_public_key.
    destruct ps as [|p0 ps']; [congruence|].
    destruct (leaf_digits (heights_of (p0 :: ps')) c) as [|q0 qs] eqn:ED; [cbn in Ld; lia|].
    cbn [combine] in *. inversion Fl as [|? ? L0 Fl']; subst.
    pose proof (root_I_length seed) as HI0.
    destruct (root_seed_I K H seed) as [s0 I0] eqn:ER. cbn [snd] in HI0.
    destruct (expand K n H s0 I0 p0 q0 (combine ps' qs)) as [spks [[[bseed bI] bp] bq]] eqn:EE.
    destruct (expand_verifies (combine ps' qs) s0 I0 p0 q0
                (lms_sign_bytes K n H bI bseed (fst bp) (snd bp) bq (randomizer K H bseed bI bq) msg ++ [])
                spks bseed bI bp bq L0 Fl' HI0 EE) as [structs [P [V [[Wb Hbq] [HbI HQ]]]]].
    cbn [fst snd] in Wb, Hbq.
    eexists. eexists.
    exists {| h_nspk := N.of_nat (length (combine ps' qs)); h_spks := structs;
              h_sig := sig_struct bI bseed bp bq (randomizer K H bseed bI bq) msg |}.
    split; [reflexivity|]. split; [reflexivity|].
    assert (Hk : length (combine ps' qs) = length ps').
    { rewrite combine_length. cbn [length] in Ld. lia. }
    assert (Hsmall : N.of_nat (length (combine ps' qs)) < 4294967296).
    { rewrite Hk. cbn [length] in Hlen. lia. }
    assert (PS : parse_hss_sig K n
                   (be 4 (N.of_nat (length (combine ps' qs))) ++ concat spks ++
                    lms_sign_bytes K n H bI bseed (fst bp) (snd bp) bq (randomizer K H bseed bI bq) msg)
                 = Ok {| h_nspk := N.of_nat (length (combine ps' qs)); h_spks := structs;
                         h_sig := sig_struct bI bseed bp bq (randomizer K H bseed bI bq) msg |}).
    { unfold parse_hss_sig.
      rewrite rd_app by apply be_length. cbn [bind].
      rewrite be4_dec by assumption.
      destruct (N.leb_spec (N.of_nat (c_max_levels K)) (N.of_nat (length (combine ps' qs)))) as [Hbad|_].
      { rewrite Hk in Hbad. cbn [length] in Hlen. lia. }
      rewrite Nat2N.id.
      rewrite <- (app_nil_r (lms_sign_bytes K n H bI bseed (fst bp) (snd bp) bq (randomizer K H bseed bI bq) msg)).
      rewrite P. cbn [bind].
      rewrite parse_signed by (try assumption; apply randomizer_length). reflexivity. }
    split; [|split; [exact PS|]].
    - unfold hss_verify. rewrite PS. cbn [bind].
      unfold parse_hss_pk.
      rewrite rd_app by apply be_length. cbn [bind].
      rewrite <- (app_nil_r (tree_pk K n H p0 s0 I0)).
      inversion Fw as [|? ? W0 _]; subst.
      rewrite parse_tree_pk by assumption. cbn [bind].
      cbn [h_nspk h_spks h_sig].
      rewrite be4_dec by (cbn [length] in *; lia).
      replace (N.of_nat (length (combine ps' qs)) + 1 =? N.of_nat (length (p0 :: ps'))) with true
        by (symmetry; apply N.eqb_eq; rewrite Hk; cbn [length]; lia).
      cbn [negb]. rewrite V.
      rewrite lms_verify_signed by assumption. reflexivity.
    - cbn [h_spks h_sig s_q sig_struct]. rewrite HQ. f_equal.
      cbn [length] in Ld. clear -Ld. revert qs Ld. induction ps' as [|p r IH]; intros [|x xs] L; cbn in L; try lia; [reflexivity|].
      cbn [combine map snd]. f_equal. apply IH. lia.
  Qed.
End HssComplete.
