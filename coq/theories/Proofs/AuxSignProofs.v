(* C10, signing side: the authentication path computed through a good cache is the true path, so
   signing with an absent or good view releases exactly the signature it releases without
   auxiliary data (and records the same callback invocation). *)
From HbsLms Require Import Base.Bytes Model.Consts Model.Winternitz Model.Lmots Model.Lms Model.Derive
     Model.Counter Model.KeyBlob Model.Hss Model.SignCore Model.Aux.
From HbsLms Require Import Proofs.CounterProofs Proofs.CompleteProofs Proofs.AuxProofs Proofs.HssComplete.

Local Open Scope N_scope.

Section AuxSign.
  Variable K : consts.
  Variable n : nat.
  Variable H : bytes -> bytes.
  Hypothesis H_len : forall x, length (H x) = n.

  Variable h : nat.
  Variables (I seed : bytes) (prm : otsp).
  Variable q : N.
  Hypothesis Hq : q < 2 ^ N.of_nat h.

  Definition sibling (i : nat) : N := N.lxor ((2 ^ N.of_nat h + q) / 2 ^ N.of_nat i) 1.

  Lemma sibling_level i : (i < h)%nat -> 1 <= sibling i /\ (node_level (sibling i) + i = h)%nat.
  Proof.
    intros Hi. unfold sibling.
    set (a := (2 ^ N.of_nat h + q) / 2 ^ N.of_nat i).
    set (d := N.of_nat (h - i)).
    assert (Hd : 1 <= d) by (unfold d; lia).
    assert (Epow : 2 ^ N.of_nat h = 2 ^ d * 2 ^ N.of_nat i).
    { rewrite <- N.pow_add_r. f_equal. unfold d. lia. }
    pose proof (pow2_pos (N.of_nat i)) as Pi. pose proof (pow2_pos d) as Pd.
    assert (Hlo : 2 ^ d <= a).
    { unfold a. rewrite Epow. apply N.div_le_lower_bound; [lia|]. nia. }
    assert (Hhi : a < 2 * 2 ^ d).
    { unfold a. apply N.div_lt_upper_bound; [lia|]. rewrite Epow in Hq |- *. nia. }
    assert (Ev : exists m, 2 ^ d = 2 * m) by (exists (2 ^ (d - 1)); rewrite <- N.pow_succ_r'; f_equal; lia).
    destruct Ev as [m Em].
    rewrite lxor_1.
    assert (B : 2 ^ d <= (if N.odd a then a - 1 else a + 1) < 2 ^ N.succ d).
    { rewrite N.pow_succ_r'. destruct (N.odd a) eqn:Ho.
      - pose proof (odd_div2 a Ho). lia.
      - pose proof (even_div2 a Ho). lia. }
    split; [lia|].
    unfold node_level. rewrite (N.log2_unique _ d); [unfold d; lia|lia|exact B].
  Qed.

  Lemma auth_path_aux_correct levels :
    forall e,
      Forall (fun i => (i < h)%nat) levels -> wf_exp n e -> cache_ok K n H h I seed prm e ->
      fst (auth_path_aux K n H h I seed prm q levels e)
      = map (fun i => tree K n H h I seed prm i (sibling i)) levels
      /\ wf_exp n (snd (auth_path_aux K n H h I seed prm q levels e))
      /\ cache_ok K n H h I seed prm (snd (auth_path_aux K n H h I seed prm q levels e)).
  Proof.
    induction levels as [|i r IH]; intros e F W C; cbn [auth_path_aux map fst snd]; [split; [reflexivity|split; assumption]|].
    inversion F as [|? ? Hi F']; subst.
    destruct (sibling_level i Hi) as [S1 S2].
    destruct (tree_aux_correct K n H H_len h I seed prm i (sibling i) e S1 S2 W C) as [V [W1 C1]].
    fold (sibling i).
    destruct (tree_aux K n H h I seed prm i (sibling i) e) as [v e1]. cbn [fst snd] in *.
    destruct (IH e1 F' W1 C1) as [V2 [W2 C2]].
    destruct (auth_path_aux K n H h I seed prm q r e1) as [vs e2]. cbn [fst snd] in *.
    subst. split; [reflexivity|split; assumption].
  Qed.
End AuxSign.

Section AuxSignTop.
  Variable K : consts.
  Variable n : nat.
  Variable H : bytes -> bytes.
  Hypothesis H_len : forall x, length (H x) = n.

  (* the LMS signature of the top tree through a good cache is the plain LMS signature *)
  Lemma lms_sign_bytes_aux_same I seed (p : param) q C msg e :
    q < 2 ^ N.of_nat (l_h (snd p)) -> wf_exp n e -> cache_ok K n H (l_h (snd p)) I seed (fst p) e ->
    fst (lms_sign_bytes_aux K n H I seed p q C msg e) = lms_sign_bytes K n H I seed (fst p) (snd p) q C msg.
  Proof.
    intros Hq W Ck. unfold lms_sign_bytes_aux, lms_sign_bytes, auth_path.
    assert (F : Forall (fun i => (i < l_h (snd p))%nat) (seq 0 (l_h (snd p)))).
    { apply Forall_forall. intros i Hi. apply in_seq in Hi. lia. }
    destruct (auth_path_aux_correct K n H H_len (l_h (snd p)) I seed (fst p) q Hq (seq 0 (l_h (snd p))) e F W Ck) as [V _].
    destruct (auth_path_aux K n H (l_h (snd p)) I seed (fst p) q (seq 0 (l_h (snd p))) e) as [path e'].
    cbn [fst] in *. subst path. reflexivity.
  Qed.

  (* the whole HSS signature *)
  Theorem hss_signature_aux_same ps seed c msg e :
    Forall (wf_param K n) ps ->
    (forall p0 r, ps = p0 :: r ->
       wf_exp n e /\ cache_ok K n H (l_h (snd p0)) (snd (root_seed_I K H seed)) (fst (root_seed_I K H seed)) (fst p0) e) ->
    match hss_signature_aux K n H ps seed c msg e with
    | Ok (s, _) => hss_signature K n H ps seed c msg = Ok s
    | Err => hss_signature K n H ps seed c msg = Err
    | Panic => False
    end.
  Proof.
    intros Fw G. unfold hss_signature_aux, hss_signature.
    pose proof (digits_in_range K n ps c Fw) as Fl.
    destruct ps as [|p0 ps']; [reflexivity|].
    destruct (leaf_digits (heights_of (p0 :: ps')) c) as [|q0 qs]; [reflexivity|].
    cbn [combine] in *. inversion Fl as [|? ? L0 Fl']; subst. destruct L0 as [_ Hq0]. cbn [fst snd] in Hq0.
    destruct (G p0 ps' eq_refl) as [W Ck].
    destruct (root_seed_I K H seed) as [s0 I0]. cbn [fst snd] in Ck.
    destruct (combine ps' qs) as [|[p1 q1] rest] eqn:EC.
    - pose proof (lms_sign_bytes_aux_same I0 s0 p0 q0 (randomizer K H s0 I0 q0) msg e Hq0 W Ck) as E.
      destruct (lms_sign_bytes_aux K n H I0 s0 p0 q0 (randomizer K H s0 I0 q0) msg e) as [sig e']. cbn [fst] in E.
      subst sig. cbn [expand length concat app]. reflexivity.
    - rewrite expand_cons.
      destruct (child_seed_I K H s0 I0 q0) as [cseed cI].
      pose proof (lms_sign_bytes_aux_same I0 s0 p0 q0 (randomizer K H cseed cI q0) (tree_pk K n H p1 cseed cI) e Hq0 W Ck) as E.
      destruct (lms_sign_bytes_aux K n H I0 s0 p0 q0 (randomizer K H cseed cI q0) (tree_pk K n H p1 cseed cI) e) as [sig0 e'].
      cbn [fst] in E. subst sig0.
      destruct (expand K n H cseed cI p1 q1 rest) as [spks [[[bseed bI] bp] bq]].
      cbn [concat]. rewrite <- !app_assoc. reflexivity.
  Qed.
End AuxSignTop.

Section SignCoreAux.
  Variable K : consts.
  Variable n : nat.
  Variable H : bytes -> bytes.
  Hypothesis H_len : forall x, length (H x) = n.

  (* signing with a buffer: same result and same callback record as without, whenever the view
     of the buffer is absent or good *)
  Theorem sign_core_aux_same blob msg aux cb :
    (forall k p0 r oe aux1,
        blob_parse K n blob = Ok k -> params_of_bytes K n (k_params k) = Ok (p0 :: r) ->
        get_expanded K n H aux (k_seed k) (l_h (snd p0)) = Ok (oe, aux1) ->
        Forall (wf_param K n) (p0 :: r)
        /\ good_view K n H (l_h (snd p0)) (snd (root_seed_I K H (k_seed k))) (fst (root_seed_I K H (k_seed k))) (fst p0) oe) ->
    (forall k p0 r, blob_parse K n blob = Ok k -> params_of_bytes K n (k_params k) = Ok (p0 :: r) ->
                    exists oe aux1, get_expanded K n H aux (k_seed k) (l_h (snd p0)) = Ok (oe, aux1)) ->
    let '(r, calls, _) := sign_core_aux K n H blob msg aux cb in
    (r, calls) = sign_core K n H blob msg cb.
  Proof.
    intros G NP. unfold sign_core_aux, sign_core.
    destruct (blob_parse K n blob) as [k| |] eqn:EB; try reflexivity.
    destruct (params_of_bytes K n (k_params k)) as [ps| |] eqn:EP; try reflexivity.
    destruct ps as [|p0 r].
    { exfalso. exact (Proofs.TotalProofs.params_of_bytes_nonempty K n _ _ EP eq_refl). }
    destruct (NP k p0 r eq_refl EP) as [oe [aux1 EG]]. rewrite EG.
    destruct (G k p0 r oe aux1 eq_refl EP EG) as [Fw GV].
    destruct oe as [e|].
    - destruct GV as [W Ck].
      pose proof (hss_signature_aux_same K n H H_len (p0 :: r) (k_seed k) (k_counter k) msg e Fw) as S.
      assert (GG : forall p1 r1, p0 :: r = p1 :: r1 ->
                     wf_exp n e /\ cache_ok K n H (l_h (snd p1)) (snd (root_seed_I K H (k_seed k)))
                                            (fst (root_seed_I K H (k_seed k))) (fst p1) e).
      { intros p1 r1 [= <- <-]. split; assumption. }
      specialize (S GG).
      destruct (hss_signature_aux K n H (p0 :: r) (k_seed k) (k_counter k) msg e) as [[s e']| |].
      + rewrite S. destruct (cb _); reflexivity.
      + rewrite S. reflexivity.
      + contradiction.
    - destruct (hss_signature K n H (p0 :: r) (k_seed k) (k_counter k) msg) as [s| |]; try reflexivity.
      destruct (cb _); reflexivity.
  Qed.
End SignCoreAux.
