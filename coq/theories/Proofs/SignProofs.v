(* Key generation + signing + verification put together (C01), and the order of effects
   of the signing entry point (C04). *)
From HbsLms Require Import Base.Bytes Model.Consts Model.Winternitz Model.Lmots Model.Lms
     Model.Derive Model.Counter Model.KeyBlob Model.Codec Model.Hss Model.SignCore.
From HbsLms Require Import Proofs.CounterProofs Proofs.CodecProofs Proofs.HssComplete
     Proofs.KeyBlobProofs.

Local Open Scope N_scope.

Section SignProofs.
  Variable K : consts.
  Variable n : nat.

  Definition opt_otsp_eqb (a : option otsp) (b : otsp) : bool :=
    match a with Some x => otsp_eqb x b | None => false end.
  Definition opt_lmsp_eqb (a : option lmsp) (b : lmsp) : bool :=
    match a with Some x => lmsp_eqb x b | None => false end.

  Definition wf_param_b (p : param) : bool :=
    opt_otsp_eqb (ots_of_type K n (o_type (fst p))) (fst p) && (o_type (fst p) <? 4294967296)
    && opt_lmsp_eqb (lms_of_type K (l_type (snd p))) (snd p) && (l_type (snd p) <? 4294967296)
    && Nat.leb (l_h (snd p)) 32.

  (* all side conditions on the constants, decidable by computation *)
  Definition model_ok : bool :=
    pack_ok K n
    && forallb wf_param_b (tbl_params K n)
    && Nat.leb (length (c_tree_heights K)) (c_max_levels K)
    && Nat.leb (c_ilen K) n
    && (N.of_nat (c_max_levels K) <? 4294967296).

  Hypothesis OK : model_ok = true.

  Lemma ok_pack : pack_ok K n = true.
  Proof. unfold model_ok in OK. rewrite !andb_true_iff in OK. tauto. Qed.
  Lemma ok_ilen : (c_ilen K <= n)%nat.
  Proof. unfold model_ok in OK. rewrite !andb_true_iff in OK. apply Nat.leb_le. tauto. Qed.
  Lemma ok_levels : N.of_nat (c_max_levels K) < 4294967296.
  Proof. unfold model_ok in OK. rewrite !andb_true_iff in OK. apply N.ltb_lt. tauto. Qed.
  Lemma ok_heights : (length (c_tree_heights K) <= c_max_levels K)%nat.
  Proof. unfold model_ok in OK. rewrite !andb_true_iff in OK. apply Nat.leb_le. tauto. Qed.

  Lemma ok_wf p : In p (tbl_params K n) -> wf_param K n p.
  Proof.
    intros Hin. pose proof OK as O. unfold model_ok in O. rewrite !andb_true_iff in O.
    destruct O as [[[[_ F] _] _] _]. rewrite forallb_forall in F. specialize (F p Hin).
    unfold wf_param_b in F. rewrite !andb_true_iff in F. destruct F as [[[[A B] C] D] E].
    unfold wf_param, wf_ots, wf_lms. unfold opt_otsp_eqb in A. unfold opt_lmsp_eqb in C.
    destruct (ots_of_type K n (o_type (fst p))) as [x|]; [|discriminate].
    destruct (lms_of_type K (l_type (snd p))) as [y|]; [|discriminate].
    apply otsp_eqb_eq in A. apply lmsp_eqb_eq in C. subst.
    apply N.ltb_lt in B, D. apply Nat.leb_le in E. repeat split; assumption.
  Qed.

  Lemma within_limits_length i ps :
    all_within_limits K i ps = true -> (length ps <= length (c_tree_heights K) - i)%nat.
  Proof.
    revert i; induction ps as [|p ps IH]; intros i W; cbn [length]; [lia|].
    cbn [all_within_limits] in W. apply andb_true_iff in W. destruct W as [W1 W2].
    specialize (IH (S i) W2). unfold within_limits in W1.
    destruct (nth_error (c_tree_heights K) i) eqn:E; [|discriminate].
    assert (i < length (c_tree_heights K))%nat by (apply nth_error_Some; congruence). lia.
  Qed.

  Variable H : bytes -> bytes.
  Hypothesis H_len : forall x, length (H x) = n.

  Definition with_counter (sk : bytes) (c : N) : bytes :=
    be (c_used_leafs_size K) c ++ skipn (c_used_leafs_size K) sk.

  (* what key generation returns, spelled out *)
  Lemma keygen_inv ps seed sk pk :
    Forall (fun p => In p (tbl_params K n)) ps -> length seed = n ->
    keygen K n H ps seed = Ok (sk, pk) ->
    exists pb,
      params_to_bytes K ps = Ok pb /\ params_of_bytes K n pb = Ok ps /\ length pb = c_ref_levels K
      /\ sk = be (c_used_leafs_size K) 0 ++ pb ++ seed
      /\ hss_public_key K n H ps seed = Ok pk /\ ps <> [].
  Proof.
    intros F Hs E. unfold keygen, key_generate in E.
    destruct (params_to_bytes K ps) as [pb| |] eqn:EP; cbn [bind] in E; try discriminate E.
    cbn [k_params k_seed] in E.
    assert (Hne : ps <> []).
    { intros ->. unfold params_to_bytes in EP. cbn in EP.
      destruct (c_ref_levels K) eqn:R in EP.
      - injection EP as <-. cbn in E. discriminate E.
      - injection EP as <-. cbn [map app repeat params_of_bytes params_decode] in E.
        unfold params_of_bytes in E. cbn [params_decode] in E.
        rewrite b2n_n2b, N.mod_small in E by apply (end_small K n ok_pack).
        rewrite N.eqb_refl in E. cbn in E. discriminate E. }
    destruct (params_roundtrip K n ok_pack ps pb F Hne EP) as [R L].
    rewrite R in E. cbn [bind] in E.
    destruct (hss_public_key K n H ps seed) as [pk'| |] eqn:EK; cbn [bind] in E; try discriminate E.
    destruct (Nat.ltb _ _); [discriminate E|]. destruct (Nat.ltb _ _); [discriminate E|].
    injection E as <- <-. exists pb. unfold blob_of. cbn [k_counter k_params k_seed].
    repeat split; assumption.
  Qed.

  Lemma with_counter_blob pb seed c :
    length pb = c_ref_levels K ->
    with_counter (be (c_used_leafs_size K) 0 ++ pb ++ seed) c
    = blob_of K {| k_counter := c; k_params := pb; k_seed := seed |}.
  Proof.
    intros L. unfold with_counter, blob_of. cbn [k_counter k_params k_seed]. f_equal.
    rewrite skipn_app, be_length, Nat.sub_diag. cbn [skipn].
    rewrite skipn_all2 by (rewrite be_length; lia). reflexivity.
  Qed.

  (* C01: a signature released for any counter of a generated key verifies under its public key *)
  Theorem sign_then_verify ps seed sk pk c msg cb sig calls :
    Forall (fun p => In p (tbl_params K n)) ps -> length seed = n ->
    keygen K n H ps seed = Ok (sk, pk) ->
    c < 256 ^ N.of_nat (c_used_leafs_size K) ->
    sign_core K n H (with_counter sk c) msg cb = (Ok sig, calls) ->
    hss_verify K n H msg sig pk = Ok tt.
  Proof.
    intros F Hs Ek Hc Es.
    destruct (keygen_inv ps seed sk pk F Hs Ek) as [pb [EP [R [L [-> [EK Hne]]]]]].
    rewrite with_counter_blob in Es by assumption.
    unfold sign_core in Es. rewrite blob_parse_of in Es by assumption.
    cbn [k_params k_seed k_counter] in Es. rewrite R in Es.
    assert (Hlen : (length ps <= c_max_levels K)%nat).
    { unfold params_to_bytes in EP. destruct (Nat.ltb _ _); [discriminate EP|].
      destruct (all_within_limits K 0 ps) eqn:W; [|discriminate EP].
      pose proof (within_limits_length 0 ps W). pose proof ok_heights. lia. }
    assert (Fw : Forall (wf_param K n) ps).
    { apply Forall_forall. intros p Hp. rewrite Forall_forall in F. apply ok_wf. now apply F. }
    destruct (hss_complete K n H H_len ok_ilen ok_levels ps seed msg c Hne Hlen Fw)
      as [sig0 [pk0 [s0 [E1 [E2 [E3 _]]]]]].
    rewrite E1 in Es. rewrite EK in E2. injection E2 as <-.
    destruct (cb _); [|discriminate Es]. injection Es as <- _. exact E3.
  Qed.

  (* ... and such a signature is produced for every counter whenever the callback accepts *)
  Theorem sign_succeeds ps seed sk pk c msg cb :
    Forall (fun p => In p (tbl_params K n)) ps -> length seed = n ->
    keygen K n H ps seed = Ok (sk, pk) ->
    c < 256 ^ N.of_nat (c_used_leafs_size K) ->
    (forall b, cb b = true) ->
    exists sig next, sign_core K n H (with_counter sk c) msg cb = (Ok sig, [(next, true)]).
  Proof.
    intros F Hs Ek Hc Hcb.
    destruct (keygen_inv ps seed sk pk F Hs Ek) as [pb [EP [R [L [-> [EK Hne]]]]]].
    rewrite with_counter_blob by assumption.
    unfold sign_core. rewrite blob_parse_of by assumption.
    cbn [k_params k_seed k_counter]. rewrite R.
    assert (Hlen : (length ps <= c_max_levels K)%nat).
    { unfold params_to_bytes in EP. destruct (Nat.ltb _ _); [discriminate EP|].
      destruct (all_within_limits K 0 ps) eqn:W; [|discriminate EP].
      pose proof (within_limits_length 0 ps W). pose proof ok_heights. lia. }
    assert (Fw : Forall (wf_param K n) ps).
    { apply Forall_forall. intros p Hp. rewrite Forall_forall in F. apply ok_wf. now apply F. }
    destruct (hss_complete K n H H_len ok_ilen ok_levels ps seed msg c Hne Hlen Fw)
      as [sig0 [pk0 [s0 [E1 _]]]].
    rewrite E1, Hcb. eexists. eexists. reflexivity.
  Qed.

End SignProofs.

Section Effects.
  Variable K : consts.
  Variable n : nat.
  Variable H : bytes -> bytes.

  (* ---------------------------------------------------------------- C04: order of effects *)

  (* for every key blob, message and callback behaviour *)
  Theorem sign_core_effects blob msg cb r calls :
    sign_core K n H blob msg cb = (r, calls) ->
    (length calls <= 1)%nat
    /\ (forall sig, r = Ok sig -> exists next, calls = [(next, true)] /\ cb next = true)
    /\ (r = Err -> calls = [] \/ exists next, calls = [(next, false)] /\ cb next = false)
    /\ (forall next v, In (next, v) calls ->
          exists k ps sig,
            blob_parse K n blob = Ok k /\ params_of_bytes K n (k_params k) = Ok ps
            /\ hss_signature K n H ps (k_seed k) (k_counter k) msg = Ok sig
            /\ next = blob_of K (key_increment K n k ps) /\ v = cb next
            /\ length next = length blob).
  Proof.
    unfold sign_core.
    destruct (blob_parse K n blob) as [k| |] eqn:EB;
      [|intros [= <- <-]; cbn; repeat split; try discriminate; try tauto; auto..].
    destruct (params_of_bytes K n (k_params k)) as [ps| |] eqn:EP;
      [|intros [= <- <-]; cbn; repeat split; try discriminate; try tauto; auto..].
    destruct (hss_signature K n H ps (k_seed k) (k_counter k) msg) as [sig| |] eqn:ES;
      [|intros [= <- <-]; cbn; repeat split; try discriminate; try tauto; auto..].
    assert (Hlen : length (blob_of K (key_increment K n k ps)) = length blob).
    { unfold blob_parse in EB.
      destruct (Nat.eqb (length blob) (c_used_leafs_size K + c_ref_levels K + n)) eqn:EL;
        cbn [negb] in EB; [|discriminate EB].
      apply Nat.eqb_eq in EL.
      destruct (read (c_used_leafs_size K) blob) as [[cb0 r1]|] eqn:R1; [|discriminate EB].
      destruct (read (c_ref_levels K) r1) as [[pb r2]|] eqn:R2; [|discriminate EB].
      destruct (read n r2) as [[sd r3]|] eqn:R3; [|discriminate EB].
      injection EB as <-.
      apply read_Some in R1, R2, R3. destruct R1 as [-> L1], R2 as [-> L2], R3 as [-> L3].
      unfold key_increment, blob_of. cbn [k_counter k_params k_seed].
      destruct (incr _ _); cbn [k_counter k_params k_seed wiped];
        rewrite !app_length, be_length, ?repeat_length in *; lia. }
    destruct (cb (blob_of K (key_increment K n k ps))) eqn:EC; intros [= <- <-].
    - cbn [length In]. repeat split; try lia; try discriminate.
      + intros s [= <-]. eexists. split; [reflexivity|exact EC].
      + intros next v [[= <- <-]|[]]. exists k, ps, sig. rewrite EC. repeat split; auto.
    - cbn [length In]. repeat split; try lia; try discriminate.
      + intros _. right. eexists. split; [reflexivity|exact EC].
      + intros next v [[= <- <-]|[]]. exists k, ps, sig. rewrite EC. repeat split; auto.
  Qed.
End Effects.
