(* Signing histories (C03, C05, C09): from a freshly generated key, any sequence of operations
   releases signatures for the counters 0, 1, 2, ... in order, persists exactly counter + 1
   (or the wiped key) per released signature and nothing else. *)
From HbsLms Require Import Base.Bytes Model.Consts Model.Winternitz Model.Lmots Model.Lms
     Model.Derive Model.Counter Model.KeyBlob Model.Codec Model.Hss Model.SignCore Model.History.
From HbsLms Require Import Proofs.CounterProofs Proofs.CodecProofs Proofs.HssComplete
     Proofs.KeyBlobProofs Proofs.SignProofs Proofs.TotalProofs.

Local Open Scope N_scope.

Lemma combine_map_l_aux {A B C} (f : A -> B) (a : list A) (b : list C) :
  combine (map f a) b = map (fun p => (f (fst p), snd p)) (combine a b).
Proof.
  revert b; induction a as [|x a IH]; intros [|y b]; cbn; try reflexivity. now rewrite IH.
Qed.

Section HistoryProofs.
  Variable K : consts.
  Variable n : nat.
  Hypothesis OK : model_ok K n = true.
  Hypothesis HO : heights_ok K = true.
  Variable H : bytes -> bytes.
  Hypothesis H_len : forall x, length (H x) = n.

  (* a generated key: parameter list [ps] (constructible, within the build limits), seed *)
  Variable ps : list param.
  Variable seed pb : bytes.
  Hypothesis F : Forall (fun p => In p (tbl_params K n)) ps.
  Hypothesis Hs : length seed = n.
  Hypothesis EP : params_to_bytes K ps = Ok pb.
  Hypothesis Hne : ps <> [].
  Hypothesis Hsmall : sumN (heights_of ps) <= 63.
  Hypothesis Hfit : 2 ^ sumN (heights_of ps) <= 256 ^ N.of_nat (c_used_leafs_size K).

  Definition total : N := 2 ^ sumN (heights_of ps).

  Definition key_at (j : N) : rfc_key := {| k_counter := j; k_params := pb; k_seed := seed |}.

  (* the persisted key after j released signatures *)
  Definition blob_at (j : N) : bytes :=
    if j <? total then blob_of K (key_at j) else blob_of K (wiped K n).

  Definition sig_at (j : N) (msg : bytes) : bytes :=
    match hss_signature K n H ps seed j msg with Ok s => s | _ => [] end.

  Lemma R : params_of_bytes K n pb = Ok ps /\ length pb = c_ref_levels K.
  Proof. exact (params_roundtrip K n (ok_pack K n OK) ps pb F Hne EP). Qed.

  Lemma Hlen : (length ps <= c_max_levels K)%nat.
  Proof.
    pose proof EP as E. unfold params_to_bytes in E. destruct (Nat.ltb _ _); [discriminate E|].
    destruct (all_within_limits K 0 ps) eqn:W; [|discriminate E].
    pose proof (within_limits_length K n 0 ps W). pose proof (ok_heights K n OK). lia.
  Qed.

  Lemma Fw : Forall (wf_param K n) ps.
  Proof. apply Forall_forall. intros p Hp. rewrite Forall_forall in F. apply (ok_wf K n OK). now apply F. Qed.

  Lemma sig_exists j msg : hss_signature K n H ps seed j msg = Ok (sig_at j msg).
  Proof.
    destruct (hss_complete K n H H_len (ok_ilen K n OK) (ok_levels K n OK) ps seed msg j Hne Hlen Fw)
      as [s [pk [st [E _]]]]. unfold sig_at. now rewrite E.
  Qed.

  Lemma parse_key_at j : j < total -> blob_parse K n (blob_of K (key_at j)) = Ok (key_at j).
  Proof.
    intros Hj. apply blob_parse_of; cbn [key_at k_params k_seed k_counter]; try apply R; try assumption.
    unfold total in Hj. lia.
  Qed.

  Lemma increment_at j :
    j < total -> blob_of K (key_increment K n (key_at j) ps) = blob_at (j + 1).
  Proof.
    intros Hj. unfold key_increment, blob_at. cbn [key_at k_counter k_params k_seed].
    rewrite incr_small by lia. fold total.
    destruct (N.ltb_spec j (total - 1)), (N.ltb_spec (j + 1) total); try lia; reflexivity.
  Qed.

  (* one byte-level signing call on a live key *)
  Lemma sign_at j msg cb :
    j < total ->
    sign_core K n H (blob_at j) msg cb
    = if cb (blob_at (j + 1)) then (Ok (sig_at j msg), [(blob_at (j + 1), true)])
      else (Err, [(blob_at (j + 1), false)]).
  Proof.
    intros Hj. unfold blob_at at 1. rewrite (proj2 (N.ltb_lt _ _) Hj).
    unfold sign_core. rewrite parse_key_at by assumption.
    cbn [key_at k_params k_seed k_counter]. rewrite (proj1 R), sig_exists.
    change {| k_counter := j; k_params := pb; k_seed := seed |} with (key_at j).
    rewrite increment_at by assumption. reflexivity.
  Qed.

  Lemma wiped_params : params_of_bytes K n (k_params (wiped K n)) = Err.
  Proof.
    unfold params_of_bytes, wiped. cbn [k_params].
    destruct (c_ref_levels K) as [|r]; cbn [repeat params_decode bind]; [reflexivity|].
    rewrite b2n_n2b, N.mod_small by apply (end_small K n (ok_pack K n OK)).
    now rewrite N.eqb_refl.
  Qed.

  Lemma parse_wiped : blob_parse K n (blob_of K (wiped K n)) = Ok (wiped K n).
  Proof.
    apply blob_parse_of; unfold wiped; cbn [k_params k_seed k_counter]; try apply repeat_length.
    apply N.neq_0_lt_0, N.pow_nonzero. lia.
  Qed.

  (* the wiped key: signing fails without touching the callback, lifetime queries fail *)
  Lemma sign_wiped msg cb : sign_core K n H (blob_of K (wiped K n)) msg cb = (Err, []).
  Proof. unfold sign_core. now rewrite parse_wiped, wiped_params. Qed.

  Lemma lifetime_wiped : get_lifetime K n (blob_of K (wiped K n)) = Err.
  Proof. unfold get_lifetime. rewrite parse_wiped. cbn [bind]. now rewrite wiped_params. Qed.

  Lemma heights_small : Forall (fun h => h <= 63) (heights_of ps).
  Proof.
    destruct R as [R1 _]. unfold params_of_bytes in R1.
    destruct (params_decode K n 0 pb) as [ps'| |] eqn:ED; cbn [bind] in R1; try discriminate.
    destruct ps'; [discriminate|]. injection R1 as <-.
    exact (params_decode_heights K n HO _ _ _ ED).
  Qed.

  (* C05: remaining lifetime after j released signatures *)
  Lemma lifetime_at j :
    j < total -> get_lifetime K n (blob_at j) = Ok (N.min (total - j) u64_max).
  Proof.
    intros Hj. unfold blob_at. rewrite (proj2 (N.ltb_lt _ _) Hj).
    unfold get_lifetime. rewrite parse_key_at by assumption. cbn [bind key_at k_params k_counter].
    rewrite (proj1 R). cbn [bind].
    rewrite lifetime_closed; [|destruct ps; [congruence|discriminate]|exact heights_small].
    fold total. now rewrite N.mod_small by assumption.
  Qed.

  (* ---------------------------------------------------------------- histories *)

  (* what a history must do, as a function of the number j of signatures released so far *)
  Fixpoint spec_run (ops : list (op)) (j : N) : N * list bytes :=
    match ops with
    | [] => (j, [])
    | o :: r =>
      let releases :=
          match o with
          | OSign msg true => Some msg
          | OSignMem msg => Some msg
          | _ => None
          end in
      match releases with
      | Some msg =>
        if j <? total
        then let (j', l) := spec_run r (j + 1) in (j', sig_at j msg :: l)
        else spec_run r j
      | None => spec_run r j
      end
    end.

  Lemma blob_at_ge j : total <= j -> blob_at j = blob_of K (wiped K n).
  Proof. intros Hj. unfold blob_at. destruct (N.ltb_spec j total); [lia|reflexivity]. Qed.

  Lemma step_spec o j :
    step K n H (blob_at j) o =
    match o with
    | OSign msg true | OSignMem msg =>
      if j <? total then (blob_at (j + 1), Some (sig_at j msg)) else (blob_at j, None)
    | _ => (blob_at j, None)
    end.
  Proof.
    destruct o as [msg acc|msg| |]; cbn [step]; try reflexivity.
    - destruct (N.ltb_spec j total) as [Hj|Hj].
      + rewrite sign_at by assumption. destruct acc; reflexivity.
      + rewrite blob_at_ge by assumption. rewrite sign_wiped. destruct acc; reflexivity.
    - unfold signing_key_try_sign. destruct (N.ltb_spec j total) as [Hj|Hj].
      + rewrite sign_at by assumption. reflexivity.
      + rewrite blob_at_ge by assumption. rewrite sign_wiped. reflexivity.
  Qed.

  Theorem run_spec ops j :
    run K n H ops (blob_at j) = (blob_at (fst (spec_run ops j)), snd (spec_run ops j)).
  Proof.
    revert j; induction ops as [|o r IH]; intros j; [reflexivity|].
    cbn [run]. rewrite step_spec.
    destruct o as [msg [|]|msg| |]; cbn [spec_run];
      try (rewrite IH; destruct (spec_run r j); reflexivity).
    - destruct (j <? total).
      + rewrite IH. destruct (spec_run r (j + 1)). reflexivity.
      + rewrite IH. destruct (spec_run r j). reflexivity.
    - destruct (j <? total).
      + rewrite IH. destruct (spec_run r (j + 1)). reflexivity.
      + rewrite IH. destruct (spec_run r j). reflexivity.
  Qed.

  (* the released signatures are those of the counters j, j+1, ... in order: the k-th one
     (0-based) of a history started on a fresh key is the signature for counter k *)
  Lemma spec_run_counters ops j :
    exists msgs,
      snd (spec_run ops j) = map (fun im => sig_at (j + N.of_nat (fst im)) (snd im))
                                 (combine (seq 0 (length msgs)) msgs)
      /\ fst (spec_run ops j) = j + N.of_nat (length msgs)
      /\ (j + N.of_nat (length msgs) <= N.max j total).
  Proof.
    revert j; induction ops as [|o r IH]; intros j.
    - exists []. cbn. repeat split; lia.
    - assert (Skip : exists msgs,
                 snd (spec_run r j) = map (fun im => sig_at (j + N.of_nat (fst im)) (snd im))
                                          (combine (seq 0 (length msgs)) msgs)
                 /\ fst (spec_run r j) = j + N.of_nat (length msgs)
                 /\ (j + N.of_nat (length msgs) <= N.max j total)) by apply IH.
      assert (Take : forall msg, j < total ->
                 exists msgs,
                   sig_at j msg :: snd (spec_run r (j + 1))
                   = map (fun im => sig_at (j + N.of_nat (fst im)) (snd im))
                         (combine (seq 0 (length msgs)) msgs)
                   /\ fst (spec_run r (j + 1)) = j + N.of_nat (length msgs)
                   /\ (j + N.of_nat (length msgs) <= N.max j total)).
      { intros msg Hj. destruct (IH (j + 1)) as [msgs [E1 [E2 E3]]].
        exists (msg :: msgs). cbn [length seq combine map fst snd]. rewrite N.add_0_r.
        split; [|split; [rewrite E2; lia|lia]].
        f_equal. rewrite E1. rewrite <- seq_shift, combine_map_l_aux. rewrite map_map.
        apply map_ext. intros [i m]. cbn [fst snd]. f_equal. lia. }
      destruct o as [msg [|]|msg| |]; cbn [spec_run]; try exact Skip.
      + destruct (N.ltb_spec j total) as [Hj|Hj]; [|exact Skip].
        destruct (spec_run r (j + 1)) as [j' l] eqn:E. cbn [fst snd].
        destruct (Take msg Hj) as [msgs HH]. try rewrite E in HH. cbn [fst snd] in HH. exists msgs. exact HH.
      + destruct (N.ltb_spec j total) as [Hj|Hj]; [|exact Skip].
        destruct (spec_run r (j + 1)) as [j' l] eqn:E. cbn [fst snd].
        destruct (Take msg Hj) as [msgs HH]. try rewrite E in HH. cbn [fst snd] in HH. exists msgs. exact HH.
  Qed.
End HistoryProofs.

(* ---------------------------------------------------------------- one-time keys (C03) *)

Section Paths.
  Variable K : consts.
  Variable n : nat.
  Variable H : bytes -> bytes.

  (* the signed public key of level l depends only on the parameters and on the leaf indices
     q_0 .. q_l of the levels down to l *)
  Lemma expand_prefix m :
    forall below1 below2 seed I p q,
      map fst below1 = map fst below2 ->
      firstn m (map snd below1) = firstn m (map snd below2) ->
      firstn (S m) (fst (expand K n H seed I p q below1))
      = firstn (S m) (fst (expand K n H seed I p q below2)).
  Proof.
    induction m as [|m IH]; intros below1 below2 seed I p q EP EQ.
    - destruct below1 as [|[p1 q1] r1], below2 as [|[p2 q2] r2]; cbn [map] in EP; try discriminate; [reflexivity|].
      injection EP as -> EP.
      cbn [expand]. destruct (child_seed_I K H seed I q) as [cs cI].
      destruct (expand K n H cs cI p2 q1 r1) as [s1 b1]. destruct (expand K n H cs cI p2 q2 r2) as [s2 b2].
      reflexivity.
    - destruct below1 as [|[p1 q1] r1], below2 as [|[p2 q2] r2]; cbn [map] in EP; try discriminate; [reflexivity|].
      injection EP as -> EP. cbn [map firstn] in EQ. injection EQ as -> EQ.
      cbn [expand]. destruct (child_seed_I K H seed I q) as [cs cI].
      specialize (IH r1 r2 cs cI p2 q2 EP EQ).
      destruct (expand K n H cs cI p2 q2 r1) as [s1 b1]. destruct (expand K n H cs cI p2 q2 r2) as [s2 b2].
      cbn [fst] in *. cbn [firstn]. f_equal. exact IH.
  Qed.
End Paths.
