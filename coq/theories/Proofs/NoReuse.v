(* C03, end to end over one key: where the signed public keys sit inside a released signature,
   and that two signatures whose leaf indices agree down to level m carry identical signed
   public keys down to level m -- i.e. an upper-level one-time key (addressed by the leaf
   indices of the levels above and its own) only ever signs one content. *)
From HbsLms Require Import Base.Bytes Model.Consts Model.Winternitz Model.Lmots Model.Lms
     Model.Derive Model.Counter Model.KeyBlob Model.Codec Model.Hss.
From HbsLms Require Import Proofs.CounterProofs Proofs.HistoryProofs.

Local Open Scope N_scope.

Lemma combine_fst_snd {A B} (a : list A) (b : list B) :
  length a = length b -> map fst (combine a b) = a /\ map snd (combine a b) = b.
Proof.
  revert b. induction a as [|x a IH]; intros [|y b] L; cbn [length] in L; try discriminate.
  - split; reflexivity.
  - injection L as L. destruct (IH b L) as [E1 E2]. cbn [combine map fst snd]. now rewrite E1, E2.
Qed.

Section NoReuse.
  Variable K : consts.
  Variable n : nat.
  Variable H : bytes -> bytes.

  (* the signed public keys (LMS signature by level i over the public key of level i+1, then
     that key) carried by the signature for counter c *)
  Definition signed_pks (ps : list param) (seed : bytes) (c : N) : list bytes :=
    match combine ps (leaf_digits (heights_of ps) c) with
    | [] => []
    | (p0, q0) :: below =>
      let (s0, I0) := root_seed_I K H seed in fst (expand K n H s0 I0 p0 q0 below)
    end.

  (* layout: level count, the signed public keys, then the bottom LMS signature over the message *)
  Lemma signature_layout ps seed c msg sig :
    hss_signature K n H ps seed c msg = Ok sig ->
    exists tail, sig = be 4 (N.of_nat (length ps - 1)) ++ concat (signed_pks ps seed c) ++ tail.
  Proof.
    unfold hss_signature, signed_pks.
    pose proof (leaf_digits_length (heights_of ps) c) as Ld.
    unfold heights_of in Ld at 2. rewrite map_length in Ld.
    destruct ps as [|p0 ps']; [cbn [combine]; discriminate|].
    destruct (leaf_digits (heights_of (p0 :: ps')) c) as [|q0 qs]; [cbn [length] in Ld; discriminate|].
    cbn [combine]. destruct (root_seed_I K H seed) as [s0 I0].
    destruct (expand K n H s0 I0 p0 q0 (combine ps' qs)) as [spks [[[bseed bI] bp] bq]].
    intros E. injection E as <-. eexists. cbn [fst length].
    rewrite combine_length. cbn [length] in Ld. injection Ld as Ld. rewrite Ld, Nat.min_id.
    replace (S (length ps') - 1)%nat with (length ps') by lia. reflexivity.
  Qed.

  (* same leaf indices on the levels 0 .. m  ==>  same signed public keys on the levels 0 .. m *)
  Lemma signed_pks_prefix ps seed c1 c2 m :
    firstn (S m) (leaf_digits (heights_of ps) c1) = firstn (S m) (leaf_digits (heights_of ps) c2) ->
    firstn (S m) (signed_pks ps seed c1) = firstn (S m) (signed_pks ps seed c2).
  Proof.
    unfold signed_pks.
    pose proof (leaf_digits_length (heights_of ps) c1) as L1.
    pose proof (leaf_digits_length (heights_of ps) c2) as L2.
    unfold heights_of in L1 at 2, L2 at 2. rewrite map_length in L1, L2.
    destruct ps as [|p0 ps']; [reflexivity|].
    destruct (leaf_digits (heights_of (p0 :: ps')) c1) as [|q1 qs1]; [cbn [length] in L1; discriminate|].
    destruct (leaf_digits (heights_of (p0 :: ps')) c2) as [|q2 qs2]; [cbn [length] in L2; discriminate|].
    cbn [firstn]. intros E. injection E as -> E.
    cbn [length] in L1, L2. injection L1 as L1. injection L2 as L2.
    destruct (combine_fst_snd ps' qs1 (eq_sym L1)) as [F1 S1].
    destruct (combine_fst_snd ps' qs2 (eq_sym L2)) as [F2 S2].
    cbn [combine]. destruct (root_seed_I K H seed) as [s0 I0].
    apply expand_prefix; [now rewrite F1, F2 | now rewrite S1, S2].
  Qed.
End NoReuse.
