(* Slicing lemmas for the RFC transcription's [sub S a b] (bytes a .. b-1 of S). *)
From HbsLms Require Import Base.Bytes Spec.Rfc8554.

Lemma sub_length (S : bytes) a b : (a <= b)%nat -> (b <= length S)%nat -> length (sub S a b) = (b - a)%nat.
Proof. intros H1 H2. unfold sub. rewrite firstn_length, skipn_length. lia. Qed.

(* skipping a whole prefix *)
Lemma sub_app_r (x r : bytes) a b :
  (length x <= a)%nat -> sub (x ++ r) a b = sub r (a - length x) (b - length x).
Proof.
  intros H. unfold sub. rewrite skipn_app, skipn_all2 by lia. cbn [app].
  f_equal. lia.
Qed.

(* a slice that lies inside the first component *)
Lemma sub_app_l (x r : bytes) a b :
  (b <= length x)%nat -> sub (x ++ r) a b = sub x a b.
Proof.
  intros H. unfold sub. rewrite skipn_app.
  destruct (Nat.le_gt_cases a (length x)) as [Ha|Ha].
  - rewrite firstn_app, skipn_length. replace (b - a - (length x - a))%nat with 0%nat by lia.
    cbn [firstn]. now rewrite app_nil_r.
  - replace (b - a)%nat with 0%nat by lia. reflexivity.
Qed.

(* exactly the first component *)
Lemma sub_head (x r : bytes) : sub (x ++ r) 0 (length x) = x.
Proof.
  unfold sub. cbn [skipn]. rewrite Nat.sub_0_r, firstn_app, Nat.sub_diag, firstn_all. cbn [firstn].
  now rewrite app_nil_r.
Qed.

Lemma sub_head' (x r : bytes) k : length x = k -> sub (x ++ r) 0 k = x.
Proof. intros <-. apply sub_head. Qed.

Lemma sub_all (x : bytes) k : length x = k -> sub x 0 k = x.
Proof. intros <-. unfold sub. cbn [skipn]. now rewrite Nat.sub_0_r, firstn_all. Qed.

(* the i-th chunk of a concatenation of equally sized pieces *)
Lemma sub_concat_nth n (xs : list bytes) (r : bytes) i :
  Forall (fun x => length x = n) xs -> (i < length xs)%nat ->
  sub (concat xs ++ r) (n * i) (n * (i + 1)) = nth i xs [].
Proof.
  revert i; induction xs as [|x xs IH]; intros i F Hi; [cbn in Hi; lia|].
  inversion F as [|? ? Hx F']; subst. cbn [concat]. rewrite <- app_assoc.
  destruct i as [|i].
  - cbn [nth]. rewrite Nat.mul_0_r, Nat.mul_1_r. now apply sub_head'.
  - cbn [nth]. rewrite sub_app_r by nia.
    replace (length x * S i - length x)%nat with (length x * i)%nat by nia.
    replace (length x * (S i + 1) - length x)%nat with (length x * (i + 1))%nat by nia.
    apply IH; [assumption|cbn [length] in Hi; lia].
Qed.

(* splitting a string of known length into its first k bytes and the rest *)
Lemma split_at (S : bytes) k : (k <= length S)%nat -> S = sub S 0 k ++ skipn k S /\ length (sub S 0 k) = k.
Proof.
  intros H. unfold sub. cbn [skipn]. rewrite Nat.sub_0_r. split; [symmetry; apply firstn_skipn|].
  rewrite firstn_length. lia.
Qed.

(* cutting a string of length n*k into k chunks of n bytes *)
Lemma chunks_concat_id n k (S : bytes) :
  length S = (n * k)%nat -> concat (chunks n k S) = S /\ Forall (fun x => length x = n) (chunks n k S).
Proof.
  revert S; induction k as [|k IH]; intros S L.
  - cbn. destruct S; [split; [reflexivity|constructor]|cbn in L; lia].
  - cbn [chunks concat].
    destruct (IH (skipn n S)) as [E F]; [rewrite skipn_length; nia|].
    rewrite E. split; [apply firstn_skipn|]. constructor; [|exact F].
    rewrite firstn_length. nia.
Qed.
