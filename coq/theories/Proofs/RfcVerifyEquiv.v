(* The model's verifier (cursor parsers + lms_verify + verify_chain, i.e. the code's
   hss::verify) accepts EXACTLY the triples that RFC 8554 section 6.3 / Algorithms 6, 6a, 4b
   accept, for every byte string, every hash with n-byte output and every table of parameter
   rows that is injective on type codes.  The RFC side is Spec/Rfc8554.v (slicing by offsets,
   written from the RFC text); the tables handed to it are the ones of the code under test, so
   the statement is independent of the known checksum-shift deviation (C12 decides separately
   which rows are the RFC's). *)
From HbsLms Require Import Base.Bytes Model.Consts Model.Winternitz Model.Lmots Model.Lms
     Model.Codec Model.Hss.
From HbsLms Require Import Spec.Rfc8554Ots Spec.Rfc8554.
From HbsLms Require Import Proofs.CounterProofs Proofs.WinternitzProofs Proofs.WinternitzDom
     Proofs.CompleteProofs Proofs.CodecProofs Proofs.VerifyTotal Proofs.VerifyStruct
     Proofs.RfcCore Proofs.SubLemmas.

Local Open Scope N_scope.

(* ------------------------------------------------------------------------------------------
   digits = RFC digits under the weak row conditions (w in {1,2,4,8}, indices fit in u16);
   no condition on ls: the checksum is "sum << ls" with whatever ls the row carries *)
Definition row_ok (n : nat) (prm : otsp) : bool :=
  wok_b (o_w prm) && (N.of_nat (n + 2) * (8 / o_w prm) <? 65536) && (N.of_nat (o_p prm) <? 65536).

Section DigitsWeak.
  Variable n : nat.
  Variable prm : otsp.
  Hypothesis OK : row_ok n prm = true.

  Lemma rk_w : wok (o_w prm).
  Proof. unfold row_ok in OK. rewrite !andb_true_iff in OK. apply wok_b_spec. tauto. Qed.
  Lemma rk_len : N.of_nat (n + 2) * (8 / o_w prm) < 65536.
  Proof. unfold row_ok in OK. rewrite !andb_true_iff in OK. apply N.ltb_lt. tauto. Qed.
  Lemma rk_p : N.of_nat (o_p prm) < 65536.
  Proof. unfold row_ok in OK. rewrite !andb_true_iff in OK. apply N.ltb_lt. tauto. Qed.

  Lemma fold_rfc_sum_w Q k :
    N.of_nat k < 65536 ->
    fold_left (fun acc i => acc + (coef_mask (o_w prm) - coef Q i (o_w prm))) (nrange k) 0
    = rfc_sum Q (o_w prm) k.
  Proof.
    pose proof rk_w as Hw. induction k as [|k IH]; intros Hk; [reflexivity|].
    replace (S k) with (k + 1)%nat by lia. rewrite nrange_app, fold_left_app, IH by lia.
    cbn [nrange seq map fold_left]. rewrite N.add_0_r.
    replace (k + 1)%nat with (S k) by lia. cbn [rfc_sum].
    rewrite coef_mask_spec, coef_rfc by (assumption || lia). reflexivity.
  Qed.

  Lemma checksum_rfc_w Q : checksum n prm Q = rfc_cksm (N.of_nat n) (o_w prm) (o_ls prm) Q.
  Proof.
    pose proof rk_w as Hw. pose proof rk_len as Hlen. destruct (dn_pos (o_w prm) Hw) as [_ Hd].
    unfold checksum, rfc_cksm, cksm_sum.
    rewrite N.shiftl_mul_pow2. rewrite fold_rfc_sum_w; [reflexivity|].
    rewrite dn_mul by assumption. nia.
  Qed.

  Theorem digits_rfc_w Q :
    digits n prm Q = rfc_digits (N.of_nat n) (o_w prm) (o_ls prm) (N.of_nat (o_p prm)) Q.
  Proof.
    pose proof rk_w as Hw. pose proof rk_p as Hp.
    unfold digits, rfc_digits, append_checksum.
    rewrite <- checksum_rfc_w, be2_spec, Nat2N.id. unfold nrange. rewrite map_map.
    apply map_ext_in. intros i Hi. apply in_seq in Hi.
    apply coef_rfc; [assumption|]. lia.
  Qed.
End DigitsWeak.

(* ------------------------------------------------------------------------------------------
   list helpers *)
Lemma map_nth_seq {A} (l : list A) d : map (fun i => nth i l d) (seq 0 (length l)) = l.
Proof.
  apply (nth_ext _ _ d d).
  - now rewrite map_length, seq_length.
  - intros i Hi. rewrite map_length, seq_length in Hi.
    rewrite (nth_indep _ d (nth 0 l d)) by (now rewrite map_length, seq_length).
    rewrite (map_nth (fun i => nth i l d) (seq 0 (length l)) 0%nat i).
    now rewrite seq_nth.
Qed.

Lemma skipn_add {A} (l : list A) a c : skipn c (skipn a l) = skipn (a + c) l.
Proof.
  revert l; induction a as [|a IH]; intros l; [reflexivity|].
  destruct l as [|x l]; [now rewrite !skipn_nil|]. cbn [skipn Nat.add]. apply IH.
Qed.

Lemma split_len (S : bytes) k : (k <= length S)%nat -> exists a b, S = a ++ b /\ length a = k.
Proof.
  intros Hk. exists (firstn k S), (skipn k S). split; [symmetry; apply firstn_skipn|].
  now apply firstn_length_le.
Qed.

(* side conditions on the type-code tables: a row's type id is the code it is found under
   (so equal rows <=> equal codes), its digit computation fits the u16 index arithmetic, and
   tree heights fit the 32-bit leaf index.  Decidable: the tables are finite. *)
Definition tables_ok (K : consts) (n : nat) : bool :=
  forallb (fun code => match ots_of_type K n code with
                       | Some prm => (o_type prm =? code) && row_ok n prm
                       | None => true end) (map fst (c_ots_get_from_type K))
  && forallb (fun code => match lms_of_type K code with
                          | Some lp => (l_type lp =? code) && Nat.leb (l_h lp) 32
                          | None => true end) (map fst (c_lms_get_from_type K)).

Lemma Ok_inj_pair {A B} (a a' : A) (b b' : B) : Ok (a, b) = Ok (a', b') -> a = a' /\ b = b'.
Proof. intros E. injection E as -> ->. now split. Qed.

Lemma assoc_key {A} k (l : list (N * A)) v : assoc k l = Some v -> In k (map fst l).
Proof. intros E. apply assoc_In in E. apply (in_map fst) in E. exact E. Qed.

Section Equiv.
  Variable K : consts.
  Variable n : nat.
  Variable H : bytes -> bytes.
  Hypothesis H_len : forall x, length (H x) = n.
  Hypothesis RFC : consts_rfc K = true.
  Hypothesis TBL : tables_ok K n = true.

  Lemma tbl_ots code prm : ots_of_type K n code = Some prm -> o_type prm = code /\ row_ok n prm = true.
  Proof.
    intros E. unfold tables_ok in TBL. apply andb_true_iff in TBL. destruct TBL as [T _].
    rewrite forallb_forall in T. specialize (T code).
    assert (Hin : In code (map fst (c_ots_get_from_type K))).
    { unfold ots_of_type in E. destruct (assoc code (c_ots_get_from_type K)) eqn:A; [|discriminate].
      eapply assoc_key; eassumption. }
    specialize (T Hin). rewrite E in T. apply andb_true_iff in T. destruct T as [T1 T2].
    apply N.eqb_eq in T1. now split.
  Qed.

  Lemma tbl_lms code lp : lms_of_type K code = Some lp -> l_type lp = code /\ (l_h lp <= 32)%nat.
  Proof.
    intros E. unfold tables_ok in TBL. apply andb_true_iff in TBL. destruct TBL as [_ T].
    rewrite forallb_forall in T. specialize (T code).
    assert (Hin : In code (map fst (c_lms_get_from_type K))).
    { unfold lms_of_type in E. destruct (assoc code (c_lms_get_from_type K)) eqn:A; [|discriminate].
      eapply assoc_key; eassumption. }
    specialize (T Hin). rewrite E in T. apply andb_true_iff in T. destruct T as [T1 T2].
    apply N.eqb_eq in T1. apply Nat.leb_le in T2. now split.
  Qed.

  Lemma ilen16 : c_ilen K = 16%nat.
  Proof. exact (proj1 (proj2 (proj2 (proj2 (proj2 (rfc_fields K RFC)))))). Qed.

  (* the tables handed to the RFC transcription: typecode -> (w, p, ls) and typecode -> h *)
  Definition ots_tbl_of (code : N) : option (N * N * N) :=
    match ots_of_type K n code with
    | Some prm => Some (o_w prm, N.of_nat (o_p prm), o_ls prm)
    | None => None
    end.
  Definition lms_tbl_of (code : N) : option N :=
    match lms_of_type K code with
    | Some lp => Some (N.of_nat (l_h lp))
    | None => None
    end.

  (* serialised forms *)
  Definition ser_ots (s : lms_sig) : bytes := be 4 (o_type (s_ots s)) ++ s_C s ++ concat (s_y s).
  Definition ser_lms (s : lms_sig) : bytes :=
    be 4 (s_q s) ++ ser_ots s ++ be 4 (l_type (s_lms s)) ++ concat (s_path s).

  Definition sig_wf (s : lms_sig) : Prop :=
    wf_ots K n (s_ots s) /\ wf_lms K (s_lms s)
    /\ s_q s < 2 ^ N.of_nat (l_h (s_lms s))
    /\ length (s_C s) = n
    /\ length (s_y s) = o_p (s_ots s) /\ Forall (fun y => length y = n) (s_y s)
    /\ length (s_path s) = l_h (s_lms s) /\ Forall (fun y => length y = n) (s_path s).

  Definition pk_wf (key : lms_pk) : Prop :=
    wf_ots K n (p_ots key) /\ wf_lms K (p_lms key)
    /\ length (p_I key) = 16%nat /\ length (p_key key) = n
    /\ p_raw key = lms_pk_bytes (p_ots key) (p_lms key) (p_I key) (p_key key).

  Lemma be4_of_dec (b : bytes) : length b = 4%nat -> be 4 (be_dec b) = b /\ be_dec b < 4294967296.
  Proof.
    intros L. split.
    - rewrite <- L. apply be_be_dec.
    - pose proof (be_dec_lt b) as Hlt. rewrite L in Hlt. exact Hlt.
  Qed.

  Lemma wf_ots_of code prm : ots_of_type K n code = Some prm -> code < 4294967296 -> wf_ots K n prm.
  Proof. intros E Hc. destruct (tbl_ots code prm E) as [T _]. unfold wf_ots. rewrite T. now split. Qed.

  Lemma wf_lms_of code lp : lms_of_type K code = Some lp -> code < 4294967296 -> wf_lms K lp.
  Proof. intros E Hc. destruct (tbl_lms code lp E) as [T Hh]. unfold wf_lms. rewrite T. repeat split; assumption. Qed.

  (* ---- the cursor parsers accept exactly the serialised well-formed structures ---- *)

  Lemma ser_lms_length s : sig_wf s ->
    length (ser_lms s) = (12 + n * (o_p (s_ots s) + 1) + n * l_h (s_lms s))%nat.
  Proof.
    intros [_ [_ [_ [LC [Ly [Fy [Lp Fp]]]]]]]. unfold ser_lms, ser_ots.
    rewrite !app_length, !be_length, (concat_length_const n _ Fy), (concat_length_const n _ Fp), LC, Ly, Lp.
    lia.
  Qed.

  Lemma parse_lms_sig_ser s rest : sig_wf s -> parse_lms_sig K n (ser_lms s ++ rest) = Ok (s, rest).
  Proof.
    intros [Wo [Wl [Hq [LC [Ly [Fy [Lp Fp]]]]]]]. unfold ser_lms, ser_ots.
    rewrite <- !app_assoc.
    pose proof (parse_lms_sig_roundtrip K n (s_ots s) (s_lms s) (s_q s) (s_C s) (s_y s) (s_path s) rest
                  Wo Wl Hq LC Ly Fy Lp Fp) as R.
    rewrite <- !app_assoc in R. rewrite R. destruct s; reflexivity.
  Qed.

  Lemma parse_lms_sig_inv data s rest :
    parse_lms_sig K n data = Ok (s, rest) -> sig_wf s /\ data = ser_lms s ++ rest.
  Proof.
    intros E. pose proof (parse_lms_sig_shape K n H data s rest E) as [SC [SY [FY [SP [FP [SQ _]]]]]].
    revert E. unfold parse_lms_sig.
    destruct (rd 4 data) as [[qb r1]| |] eqn:E1; cbn [bind]; try discriminate.
    destruct (rd 4 r1) as [[tb r1']| |] eqn:E2; cbn [bind]; try discriminate.
    destruct (ots_of_type K n (be_dec tb)) as [prm|] eqn:EO; cbn [of_option bind]; try discriminate.
    destruct (rd (4 + n * (1 + o_p prm)) r1) as [[otsb r2]| |] eqn:E3; cbn [bind]; try discriminate.
    destruct (rd 4 otsb) as [[tb' o1]| |] eqn:E4; cbn [bind]; try discriminate.
    destruct (ots_of_type K n (be_dec tb')) as [prm'|] eqn:EO'; cbn [of_option bind]; try discriminate.
    destruct (rd n o1) as [[C o2]| |] eqn:E5; cbn [bind]; try discriminate.
    destruct (rd (n * o_p prm') o2) as [[yb o3]| |] eqn:E6; cbn [bind]; try discriminate.
    destruct (rd 4 r2) as [[lb r3]| |] eqn:E7; cbn [bind]; try discriminate.
    destruct (lms_of_type K (be_dec lb)) as [lp|] eqn:EL; cbn [of_option bind]; try discriminate.
    destruct (rd (n * l_h lp) r3) as [[pb r4]| |] eqn:E8; cbn [bind]; try discriminate.
    destruct (N.leb_spec (2 ^ N.of_nat (l_h lp)) (be_dec qb)); [discriminate|].
    intros E. apply Ok_inj_pair in E. destruct E as [<- <-].
    cbn [s_C s_y s_ots s_path s_lms s_q] in *.
    apply rd_Ok in E1, E2, E3, E4, E5, E6, E7, E8.
    destruct E1 as [-> L1], E2 as [E2 L2], E3 as [E3 L3], E4 as [-> L4], E5 as [-> L5],
             E6 as [-> L6], E7 as [-> L7], E8 as [-> L8].
    (* the two reads of the LM-OTS type are the same four bytes *)
    assert (tb = tb' /\ r1' = (C ++ yb ++ o3) ++ lb ++ pb ++ r4) as [<- ->].
    { apply app_inv_length; [congruence|]. rewrite <- E2, E3. now rewrite <- !app_assoc. }
    rewrite EO in EO'. injection EO' as <-.
    assert (o3 = []) as ->.
    { rewrite !app_length in L3. destruct o3; [reflexivity|cbn [length] in L3; lia]. }
    rewrite app_nil_r in *.
    destruct (be4_of_dec qb L1) as [Bq _]. destruct (be4_of_dec tb L2) as [Bt Bt'].
    destruct (be4_of_dec lb L7) as [Bl Bl'].
    destruct (tbl_ots _ _ EO) as [To _]. destruct (tbl_lms _ _ EL) as [Tl _].
    destruct (chunks_concat_id n (o_p prm) yb L6) as [Cy _].
    destruct (chunks_concat_id n (l_h lp) pb L8) as [Cp _].
    split.
    - unfold sig_wf. cbn [s_C s_y s_ots s_path s_lms s_q].
      repeat split; try assumption; try (eapply wf_ots_of; eassumption).
      + apply (wf_lms_of _ _ EL Bl').
      + apply (wf_lms_of _ _ EL Bl').
      + apply (wf_lms_of _ _ EL Bl').
    - rewrite E2. unfold ser_lms, ser_ots. cbn [s_C s_y s_ots s_path s_lms s_q].
      rewrite To, Tl, Bq, Bt, Bl, Cy, Cp. now rewrite <- !app_assoc.
  Qed.

  Lemma parse_lms_pk_ser key rest : pk_wf key -> parse_lms_pk K n (p_raw key ++ rest) = Ok (key, rest).
  Proof.
    intros [Wo [Wl [LI [LK R]]]]. rewrite R.
    rewrite (parse_lms_pk_roundtrip K n (p_ots key) (p_lms key) (p_I key) (p_key key) rest Wo Wl)
      by (rewrite ?ilen16; assumption).
    rewrite <- R. destruct key; reflexivity.
  Qed.

  Lemma parse_lms_pk_inv data key rest :
    parse_lms_pk K n data = Ok (key, rest) -> pk_wf key /\ data = p_raw key ++ rest.
  Proof.
    unfold parse_lms_pk.
    destruct (rd 4 data) as [[lb r1]| |] eqn:E1; cbn [bind]; try discriminate.
    destruct (lms_of_type K (be_dec lb)) as [lp|] eqn:EL; cbn [of_option bind]; try discriminate.
    destruct (rd 4 r1) as [[tb r2]| |] eqn:E2; cbn [bind]; try discriminate.
    destruct (ots_of_type K n (be_dec tb)) as [prm|] eqn:EO; cbn [of_option bind]; try discriminate.
    destruct (rd (c_ilen K) r2) as [[tid r3]| |] eqn:E3; cbn [bind]; try discriminate.
    destruct (rd n r3) as [[key' r4]| |] eqn:E4; cbn [bind]; try discriminate.
    intros E. apply Ok_inj_pair in E. destruct E as [<- <-].
    apply rd_Ok in E1, E2, E3, E4.
    destruct E1 as [-> L1], E2 as [-> L2], E3 as [-> L3], E4 as [-> L4].
    destruct (be4_of_dec lb L1) as [Bl Bl']. destruct (be4_of_dec tb L2) as [Bt Bt'].
    destruct (tbl_ots _ _ EO) as [To _]. destruct (tbl_lms _ _ EL) as [Tl _].
    assert (R : firstn (4 + 4 + c_ilen K + n) (lb ++ tb ++ tid ++ key' ++ r4) = lb ++ tb ++ tid ++ key').
    { rewrite !app_assoc. rewrite firstn_app.
      replace (4 + 4 + c_ilen K + n - length (((lb ++ tb) ++ tid) ++ key'))%nat with 0%nat
        by (rewrite !app_length; lia).
      cbn [firstn]. rewrite app_nil_r. apply firstn_all2. rewrite !app_length. lia. }
    unfold pk_wf. cbn [p_ots p_lms p_I p_key p_raw]. rewrite R. rewrite ilen16 in L3.
    split; [|now rewrite <- !app_assoc].
    split; [eapply wf_ots_of; eassumption|]. split; [eapply wf_lms_of; eassumption|].
    split; [assumption|]. split; [assumption|].
    unfold lms_pk_bytes. now rewrite To, Tl, Bl, Bt.
  Qed.

  (* ---- Algorithm 4b ---- *)

  Lemma nth_len (xs : list bytes) i : Forall (fun y => length y = n) xs -> (i < length xs)%nat -> length (nth i xs []) = n.
  Proof.
    intros F Hi. rewrite Forall_forall in F. apply F. now apply nth_In.
  Qed.

  Lemma ots_candidate_rfc I q prm C ys msg :
    row_ok n prm = true -> length I = 16%nat -> length ys = o_p prm -> Forall (fun y => length y = n) ys ->
    ots_candidate K n H I q prm C ys msg =
    let Q := H (I ++ u32str q ++ u16str D_MESG ++ C ++ msg) in
    let QC := Q ++ u16str (rfc_cksm (N.of_nat n) (o_w prm) (o_ls prm) Q) in
    H (I ++ u32str q ++ u16str D_PBLC ++
       concat (map (fun i => let a := rfc_coef QC (N.of_nat i) (o_w prm) in
                             hchain H I q (N.of_nat i) a (N.to_nat (2 ^ (o_w prm) - 1 - a)) (nth i ys []))
                   (seq 0 (o_p prm)))).
  Proof.
    intros OK LI Ly Fy. unfold ots_candidate, ots_msg_hash.
    destruct (rfc_fields K RFC) as [-> [-> _]].
    rewrite (digits_rfc_w n prm OK). unfold rfc_digits. rewrite Nat2N.id. unfold nrange.
    rewrite <- (map_nth_seq ys []) at 1. rewrite Ly.
    rewrite combine_map_map, combine_map_map, map_map. cbv zeta.
    f_equal. f_equal. f_equal. f_equal. f_equal. apply map_ext_in. intros i Hi. apply in_seq in Hi.
    cbn [fst snd]. unfold chain_len.
    apply (chain_rfc K n H H_len RFC); [assumption|]. apply nth_len; [assumption|lia].
  Qed.

  Lemma sub_y (t C : bytes) (ys : list bytes) (r : bytes) i :
    length t = 4%nat -> length C = n -> Forall (fun y => length y = n) ys -> (i < length ys)%nat ->
    sub (t ++ C ++ concat ys ++ r) (4 + n + n * i) (4 + n + n * (i + 1)) = nth i ys [].
  Proof.
    intros Lt LC F Hi.
    rewrite sub_app_r by lia. rewrite sub_app_r by lia. rewrite Lt, LC.
    replace (4 + n + n * i - 4 - n)%nat with (n * i)%nat by lia.
    replace (4 + n + n * (i + 1) - 4 - n)%nat with (n * (i + 1))%nat by lia.
    now apply sub_concat_nth.
  Qed.

  Lemma ser_ots_length s : sig_wf s -> length (ser_ots s) = (4 + n * (o_p (s_ots s) + 1))%nat.
  Proof.
    intros [_ [_ [_ [LC [Ly [Fy _]]]]]]. unfold ser_ots.
    rewrite !app_length, !be_length, (concat_length_const n _ Fy), LC, Ly. lia.
  Qed.

  Lemma ots_tbl_wf prm : wf_ots K n prm -> ots_tbl_of (o_type prm) = Some (o_w prm, N.of_nat (o_p prm), o_ls prm).
  Proof. intros [E _]. unfold ots_tbl_of. now rewrite E. Qed.

  Lemma lms_tbl_wf lp : wf_lms K lp -> lms_tbl_of (l_type lp) = Some (N.of_nat (l_h lp)).
  Proof. intros [E _]. unfold lms_tbl_of. now rewrite E. Qed.

  Lemma alg4b_ser s I q msg :
    sig_wf s -> length I = 16%nat ->
    alg4b n H ots_tbl_of (o_type (s_ots s)) I q (ser_ots s) msg
    = Some (ots_candidate K n H I q (s_ots s) (s_C s) (s_y s) msg).
  Proof.
    intros W LI. pose proof (ser_ots_length s W) as L.
    destruct W as [Wo [_ [_ [LC [Ly [Fy _]]]]]].
    destruct (tbl_ots _ _ (proj1 Wo)) as [_ OK].
    unfold alg4b. rewrite L.
    destruct (Nat.ltb_spec (4 + n * (o_p (s_ots s) + 1)) 4); [lia|].
    assert (ET : strTou32 (sub (ser_ots s) 0 4) = o_type (s_ots s)).
    { unfold ser_ots. rewrite sub_head' by apply be_length. unfold strTou32. apply be4_dec. apply Wo. }
    rewrite ET, N.eqb_refl. cbn [negb]. rewrite (ots_tbl_wf _ Wo), Nat2N.id, Nat.eqb_refl. cbn [negb].
    rewrite (ots_candidate_rfc I q (s_ots s) (s_C s) (s_y s) msg OK LI Ly Fy). cbv zeta.
    assert (EC : sub (ser_ots s) 4 (4 + n) = s_C s).
    { unfold ser_ots. rewrite sub_app_r by (rewrite be_length; lia). rewrite be_length.
      replace (4 - 4)%nat with 0%nat by lia. replace (4 + n - 4)%nat with n by lia.
      now apply sub_head'. }
    rewrite EC. f_equal. f_equal. f_equal. f_equal. f_equal. f_equal. apply map_ext_in. intros i Hi. apply in_seq in Hi.
    f_equal. unfold ser_ots. rewrite <- (app_nil_r (concat (s_y s))).
    apply sub_y; [apply be_length|assumption|assumption|lia].
  Qed.

  (* ---- Algorithm 6a ---- *)

  Lemma q_lt32 s : sig_wf s -> s_q s < 4294967296.
  Proof.
    intros [_ [[_ [_ Hh]] [Hq _]]]. eapply N.lt_le_trans; [exact Hq|].
    change 4294967296 with (2 ^ 32). apply N.pow_le_mono_r; lia.
  Qed.

  Lemma alg6a_ser s lt ot I msg :
    sig_wf s -> length I = 16%nat ->
    alg6a n H ots_tbl_of lms_tbl_of lt ot I (ser_lms s) msg
    = if (o_type (s_ots s) =? ot) && (l_type (s_lms s) =? lt)
      then Some (lms_candidate K n H I (s_ots s) (s_lms s) (s_q s) (s_C s) (s_y s) (s_path s) msg)
      else None.
  Proof.
    intros W LI. pose proof (ser_lms_length s W) as L. pose proof (ser_ots_length s W) as Lo.
    pose proof (q_lt32 s W) as Hq32. pose proof (alg4b_ser s I (s_q s) msg W LI) as A4.
    destruct W as [Wo [Wl [Hq [LC [Ly [Fy [Lp Fp]]]]]]].
    set (np := (n * (o_p (s_ots s) + 1))%nat) in *.
    assert (EQ : strTou32 (sub (ser_lms s) 0 4) = s_q s).
    { unfold ser_lms. rewrite sub_head' by apply be_length. now apply be4_dec. }
    assert (ET : strTou32 (sub (ser_lms s) 4 8) = o_type (s_ots s)).
    { unfold ser_lms, ser_ots. rewrite sub_app_r by (rewrite be_length; lia). rewrite be_length.
      rewrite <- !app_assoc. replace (4 - 4)%nat with 0%nat by lia. replace (8 - 4)%nat with 4%nat by lia.
      rewrite sub_head' by apply be_length. apply be4_dec. apply Wo. }
    assert (EO : sub (ser_lms s) 4 (8 + np) = ser_ots s).
    { unfold ser_lms. rewrite sub_app_r by (rewrite be_length; lia). rewrite be_length.
      replace (4 - 4)%nat with 0%nat by lia. replace (8 + np - 4)%nat with (4 + np)%nat by lia.
      now apply sub_head'. }
    assert (EL : strTou32 (sub (ser_lms s) (8 + np) (12 + np)) = l_type (s_lms s)).
    { unfold ser_lms. rewrite sub_app_r by (rewrite be_length; lia). rewrite be_length.
      rewrite sub_app_r by lia. rewrite Lo.
      replace (8 + np - 4 - (4 + np))%nat with 0%nat by lia.
      replace (12 + np - 4 - (4 + np))%nat with 4%nat by lia.
      rewrite sub_head' by apply be_length. apply be4_dec. apply Wl. }
    assert (EP : forall i, (i < length (s_path s))%nat ->
                           sub (ser_lms s) (12 + np + n * i) (12 + np + n * (i + 1)) = nth i (s_path s) []).
    { intros i Hi. unfold ser_lms. rewrite sub_app_r by (rewrite be_length; lia). rewrite be_length.
      rewrite sub_app_r by lia. rewrite Lo. rewrite sub_app_r by (rewrite be_length; lia). rewrite be_length.
      replace (12 + np + n * i - 4 - (4 + np) - 4)%nat with (n * i)%nat by lia.
      replace (12 + np + n * (i + 1) - 4 - (4 + np) - 4)%nat with (n * (i + 1))%nat by lia.
      rewrite <- (app_nil_r (concat (s_path s))). now apply sub_concat_nth. }
    unfold alg6a. rewrite L.
    destruct (Nat.ltb_spec (12 + np + n * l_h (s_lms s)) 8); [lia|].
    rewrite EQ, ET.
    destruct (N.eqb_spec (o_type (s_ots s)) ot) as [<-|Hne]; cbn [negb andb]; [|reflexivity].
    rewrite (ots_tbl_wf _ Wo), Nat2N.id. fold np.
    destruct (Nat.ltb_spec (12 + np + n * l_h (s_lms s)) (12 + np)); [lia|].
    rewrite EL.
    destruct (N.eqb_spec (l_type (s_lms s)) lt) as [<-|Hne]; cbn [negb]; [|reflexivity].
    rewrite (lms_tbl_wf _ Wl), Nat2N.id, Nat.eqb_refl.
    destruct (N.leb_spec (2 ^ N.of_nat (l_h (s_lms s))) (s_q s)); [lia|]. cbn [negb orb].
    rewrite EO, A4. f_equal. unfold lms_candidate. rewrite (leaf_hash_rfc K H RFC).
    symmetry. rewrite <- Lp. apply (climb_rfc K n H H_len RFC).
    - intros k Hk. cbn [Nat.add]. now apply EP.
    - trivial.
    - rewrite Lp. cbn [length]. rewrite Nat2N.inj_succ, N.pow_succ_r'. lia.
  Qed.

  (* whatever Algorithm 6a accepts is the serialisation of a well-formed signature *)
  Lemma alg6a_Some_inv lt ot I S msg Tc :
    alg6a n H ots_tbl_of lms_tbl_of lt ot I S msg = Some Tc ->
    exists s, sig_wf s /\ S = ser_lms s.
  Proof.
    unfold alg6a.
    destruct (Nat.ltb_spec (length S) 8) as [|L8]; [discriminate|].
    destruct (N.eqb_spec (strTou32 (sub S 4 8)) ot) as [Eot|]; cbn [negb]; [|discriminate].
    unfold ots_tbl_of at 1. destruct (ots_of_type K n ot) as [prm|] eqn:EO; [|discriminate].
    cbv zeta. rewrite Nat2N.id.
    set (np := (n * (o_p prm + 1))%nat).
    destruct (Nat.ltb_spec (length S) (12 + np)) as [|L12]; [discriminate|].
    destruct (N.eqb_spec (strTou32 (sub S (8 + np) (12 + np))) lt) as [Elt|]; cbn [negb]; [|discriminate].
    unfold lms_tbl_of. destruct (lms_of_type K lt) as [lp|] eqn:EL; [|discriminate].
    rewrite Nat2N.id.
    destruct (N.leb_spec (2 ^ N.of_nat (l_h lp)) (strTou32 (sub S 0 4))) as [|Hq]; cbn [orb]; [discriminate|].
    destruct (Nat.eqb_spec (length S) (12 + np + n * l_h lp)) as [LS|]; cbn [negb]; [|discriminate].
    intros _.
    destruct (split_len S 4) as [qb [S1 [-> L1]]]; [lia|]. rewrite app_length in LS.
    destruct (split_len S1 4) as [tb [S2 [-> L2]]]; [lia|]. rewrite app_length in LS.
    destruct (split_len S2 n) as [C [S3 [-> L3]]]; [unfold np in LS; lia|]. rewrite app_length in LS.
    destruct (split_len S3 (n * o_p prm)) as [yb [S4 [-> L4]]]; [unfold np in LS; lia|]. rewrite app_length in LS.
    destruct (split_len S4 4) as [lb [pb [-> L5]]]; [unfold np in LS; lia|]. rewrite app_length in LS.
    assert (L6 : length pb = (n * l_h lp)%nat) by (unfold np in LS; lia).
    clear L8 L12 LS.
    rewrite sub_head' in Hq by assumption.
    rewrite sub_app_r in Eot by lia. rewrite L1 in Eot.
    replace (4 - 4)%nat with 0%nat in Eot by lia. replace (8 - 4)%nat with 4%nat in Eot by lia.
    rewrite sub_head' in Eot by assumption.
    rewrite sub_app_r in Elt by lia. rewrite sub_app_r in Elt by lia. rewrite sub_app_r in Elt by lia.
    rewrite sub_app_r in Elt by (unfold np; lia). rewrite L1, L2, L3, L4 in Elt.
    replace (8 + np - 4 - 4 - n - n * o_p prm)%nat with 0%nat in Elt by (unfold np; lia).
    replace (12 + np - 4 - 4 - n - n * o_p prm)%nat with 4%nat in Elt by (unfold np; lia).
    rewrite sub_head' in Elt by assumption.
    unfold strTou32 in *.
    destruct (be4_of_dec qb L1) as [Bq _]. destruct (be4_of_dec tb L2) as [Bt Bt'].
    destruct (be4_of_dec lb L5) as [Bl Bl'].
    destruct (tbl_ots _ _ EO) as [To _]. destruct (tbl_lms _ _ EL) as [Tl _].
    destruct (chunks_concat_id n (o_p prm) yb L4) as [Cy Fy].
    destruct (chunks_concat_id n (l_h lp) pb L6) as [Cp Fp].
    exists {| s_q := be_dec qb; s_ots := prm; s_C := C; s_y := chunks n (o_p prm) yb;
              s_lms := lp; s_path := chunks n (l_h lp) pb |}.
    split.
    - unfold sig_wf. cbn [s_C s_y s_ots s_path s_lms s_q].
      split; [apply (wf_ots_of ot prm EO); now rewrite <- Eot|].
      split; [apply (wf_lms_of lt lp EL); now rewrite <- Elt|].
      split; [assumption|]. split; [assumption|].
      split; [apply chunks_length|]. split; [assumption|]. split; [apply chunks_length|assumption].
    - unfold ser_lms, ser_ots. cbn [s_C s_y s_ots s_path s_lms s_q].
      rewrite To, Tl, <- Eot, <- Elt, Bq, Bt, Bl, Cy, Cp. now rewrite <- !app_assoc.
  Qed.

  (* ---- Algorithm 6 ---- *)

  Lemma otsp_eqb_code a b : wf_ots K n a -> wf_ots K n b -> (o_type a =? o_type b) = otsp_eqb a b.
  Proof.
    intros [Ea _] [Eb _]. destruct (N.eqb_spec (o_type a) (o_type b)) as [E|E].
    - rewrite E in Ea. rewrite Ea in Eb. injection Eb as ->. symmetry. now apply otsp_eqb_eq.
    - destruct (otsp_eqb a b) eqn:X; [|reflexivity]. apply otsp_eqb_eq in X. now subst.
  Qed.

  Lemma lmsp_eqb_code a b : wf_lms K a -> wf_lms K b -> (l_type a =? l_type b) = lmsp_eqb a b.
  Proof.
    intros [Ea _] [Eb _]. destruct (N.eqb_spec (l_type a) (l_type b)) as [E|E].
    - rewrite E in Ea. rewrite Ea in Eb. injection Eb as ->. symmetry. now apply lmsp_eqb_eq.
    - destruct (lmsp_eqb a b) eqn:X; [|reflexivity]. apply lmsp_eqb_eq in X. now subst.
  Qed.

  Lemma alg6_of key s msg :
    pk_wf key -> sig_wf s ->
    alg6 n H ots_tbl_of lms_tbl_of (p_raw key) (ser_lms s) msg = lms_verify K n H s key msg.
  Proof.
    intros [Wo [Wl [LI [LK R]]]] W. rewrite R. unfold lms_pk_bytes, alg6.
    rewrite !app_length, !be_length, LI, LK.
    destruct (Nat.ltb_spec (4 + (4 + (16 + n))) 8); [lia|].
    rewrite sub_head' by apply be_length.
    rewrite sub_app_r by (rewrite be_length; lia). rewrite be_length.
    replace (4 - 4)%nat with 0%nat by lia. replace (8 - 4)%nat with 4%nat by lia.
    rewrite sub_head' by apply be_length.
    unfold strTou32. rewrite (be4_dec (l_type (p_lms key))) by apply Wl.
    rewrite (be4_dec (o_type (p_ots key))) by apply Wo.
    rewrite (lms_tbl_wf _ Wl), (ots_tbl_wf _ Wo).
    replace (Nat.eqb (4 + (4 + (16 + n))) (24 + n)) with true by (symmetry; apply Nat.eqb_eq; lia).
    cbn [negb].
    assert (EI : sub (be 4 (l_type (p_lms key)) ++ be 4 (o_type (p_ots key)) ++ p_I key ++ p_key key) 8 24 = p_I key).
    { rewrite sub_app_r by (rewrite be_length; lia). rewrite be_length.
      rewrite sub_app_r by (rewrite be_length; lia). rewrite be_length.
      replace (8 - 4 - 4)%nat with 0%nat by lia. replace (24 - 4 - 4)%nat with 16%nat by lia.
      now apply sub_head'. }
    assert (EK : sub (be 4 (l_type (p_lms key)) ++ be 4 (o_type (p_ots key)) ++ p_I key ++ p_key key) 24 (24 + n) = p_key key).
    { rewrite sub_app_r by (rewrite be_length; lia). rewrite be_length.
      rewrite sub_app_r by (rewrite be_length; lia). rewrite be_length.
      rewrite sub_app_r by lia. rewrite LI.
      replace (24 - 4 - 4 - 16)%nat with 0%nat by lia. replace (24 + n - 4 - 4 - 16)%nat with n by lia.
      now apply sub_all. }
    rewrite EI, EK, (alg6a_ser s _ _ (p_I key) msg W LI).
    unfold lms_verify.
    destruct W as [Wo' [Wl' [Hq _]]].
    rewrite (otsp_eqb_code _ _ Wo' Wo), (lmsp_eqb_code _ _ Wl' Wl).
    destruct (N.ltb_spec (s_q s) (2 ^ N.of_nat (l_h (s_lms s)))); [|lia].
    destruct (otsp_eqb (s_ots s) (p_ots key)); cbn [andb]; [|reflexivity].
    destruct (lmsp_eqb (s_lms s) (p_lms key)); cbn [andb]; reflexivity.
  Qed.

  Lemma alg6_true_inv pkb S msg :
    alg6 n H ots_tbl_of lms_tbl_of pkb S msg = true ->
    exists key s, pk_wf key /\ pkb = p_raw key /\ sig_wf s /\ S = ser_lms s
                  /\ lms_verify K n H s key msg = true.
  Proof.
    intros A. pose proof A as A0. revert A. unfold alg6.
    destruct (Nat.ltb_spec (length pkb) 8) as [|L8]; [discriminate|].
    unfold lms_tbl_of at 1. destruct (lms_of_type K (strTou32 (sub pkb 0 4))) as [lp|] eqn:EL; [|discriminate].
    unfold ots_tbl_of at 1. destruct (ots_of_type K n (strTou32 (sub pkb 4 8))) as [prm|] eqn:EO; [|discriminate].
    destruct (Nat.eqb_spec (length pkb) (24 + n)) as [LS|]; cbn [negb]; [|discriminate].
    destruct (alg6a _ _ _ _ _ _ _ S msg) as [Tc|] eqn:A6; [|discriminate].
    intros _.
    destruct (alg6a_Some_inv _ _ _ _ _ _ A6) as [s [W ->]].
    destruct (split_len pkb 4) as [lb [P1 [-> L1]]]; [lia|]. rewrite app_length in LS.
    destruct (split_len P1 4) as [tb [P2 [-> L2]]]; [lia|]. rewrite app_length in LS.
    destruct (split_len P2 16) as [tid [root [-> L3]]]; [lia|]. rewrite app_length in LS.
    assert (L4 : length root = n) by lia.
    rewrite sub_head' in EL by assumption.
    rewrite sub_app_r in EO by lia. rewrite L1 in EO.
    replace (4 - 4)%nat with 0%nat in EO by lia. replace (8 - 4)%nat with 4%nat in EO by lia.
    rewrite sub_head' in EO by assumption. unfold strTou32 in *.
    destruct (be4_of_dec lb L1) as [Bl Bl']. destruct (be4_of_dec tb L2) as [Bt Bt'].
    destruct (tbl_ots _ _ EO) as [To _]. destruct (tbl_lms _ _ EL) as [Tl _].
    set (key := {| p_lms := lp; p_ots := prm; p_I := tid; p_key := root; p_raw := lb ++ tb ++ tid ++ root |}).
    assert (WK : pk_wf key).
    { unfold pk_wf, key. cbn [p_ots p_lms p_I p_key p_raw].
      split; [eapply wf_ots_of; eassumption|]. split; [eapply wf_lms_of; eassumption|].
      split; [assumption|]. split; [assumption|].
      unfold lms_pk_bytes. now rewrite To, Tl, Bl, Bt. }
    exists key, s. split; [exact WK|]. split; [reflexivity|]. split; [exact W|]. split; [reflexivity|].
    rewrite <- (alg6_of key s msg WK W). exact A0.
  Qed.

  (* ---- section 6.3: the list of signed public keys ---- *)

  Lemma p_raw_length key : pk_wf key -> length (p_raw key) = (24 + n)%nat.
  Proof.
    intros [_ [_ [LI [LK R]]]]. rewrite R. unfold lms_pk_bytes.
    rewrite !app_length, !be_length, LI, LK. lia.
  Qed.

  Lemma split3 (S : bytes) a b :
    (a <= b)%nat -> (b <= length S)%nat -> S = sub S 0 a ++ sub S a b ++ skipn b S.
  Proof.
    intros Hab Hb. unfold sub. cbn [skipn]. rewrite Nat.sub_0_r.
    assert (E : skipn b S = skipn (b - a) (skipn a S)).
    { rewrite skipn_add. replace (a + (b - a))%nat with b by lia. reflexivity. }
    rewrite E, firstn_skipn, firstn_skipn. reflexivity.
  Qed.

  Lemma next_len_ser s rest :
    sig_wf s -> next_lms_sig_len n ots_tbl_of lms_tbl_of (ser_lms s ++ rest) = Some (length (ser_lms s)).
  Proof.
    intros W. pose proof (ser_lms_length s W) as L. pose proof (ser_ots_length s W) as Lo.
    destruct W as [Wo [Wl _]].
    set (np := (n * (o_p (s_ots s) + 1))%nat) in *.
    unfold next_lms_sig_len. rewrite app_length, L.
    destruct (Nat.ltb_spec (12 + np + n * l_h (s_lms s) + length rest) 8); [lia|].
    assert (ET : strTou32 (sub (ser_lms s ++ rest) 4 8) = o_type (s_ots s)).
    { rewrite sub_app_l by lia.
      unfold ser_lms, ser_ots. rewrite sub_app_r by (rewrite be_length; lia). rewrite be_length.
      rewrite <- !app_assoc. replace (4 - 4)%nat with 0%nat by lia. replace (8 - 4)%nat with 4%nat by lia.
      rewrite sub_head' by apply be_length. apply be4_dec. apply Wo. }
    rewrite ET, (ots_tbl_wf _ Wo), Nat2N.id. fold np.
    destruct (Nat.ltb_spec (12 + np + n * l_h (s_lms s) + length rest) (12 + np)); [lia|].
    assert (EL : strTou32 (sub (ser_lms s ++ rest) (8 + np) (12 + np)) = l_type (s_lms s)).
    { rewrite sub_app_l by lia.
      unfold ser_lms. rewrite sub_app_r by (rewrite be_length; lia). rewrite be_length.
      rewrite sub_app_r by lia. rewrite Lo.
      replace (8 + np - 4 - (4 + np))%nat with 0%nat by lia.
      replace (12 + np - 4 - (4 + np))%nat with 4%nat by lia.
      rewrite sub_head' by apply be_length. apply be4_dec. apply Wl. }
    rewrite EL, (lms_tbl_wf _ Wl), Nat2N.id. reflexivity.
  Qed.

  Lemma walk_sound k : forall S keyb msg,
    hss_walk n H ots_tbl_of lms_tbl_of k S keyb msg = true ->
    exists key, pk_wf key /\ keyb = p_raw key /\
      exists spks s key', parse_spks K n k S = Ok (spks, ser_lms s) /\ sig_wf s
                          /\ verify_chain K n H key spks = Some key'
                          /\ lms_verify K n H s key' msg = true.
  Proof.
    induction k as [|k IH]; intros S keyb msg; cbn [hss_walk].
    - intros A. destruct (alg6_true_inv _ _ _ A) as [key [s [WK [-> [W [-> V]]]]]].
      exists key. split; [assumption|]. split; [reflexivity|].
      exists [], s, key. cbn [parse_spks verify_chain].
      split; [reflexivity|]. split; [assumption|]. split; [reflexivity|assumption].
    - destruct (next_lms_sig_len _ _ _ S) as [sl|]; [|discriminate].
      destruct (Nat.ltb_spec (length S) (sl + 24 + n)) as [|LS]; [discriminate|].
      destruct (alg6 _ _ _ _ keyb (sub S 0 sl) (sub S sl (sl + 24 + n))) eqn:A; [|discriminate].
      intros Wk.
      destruct (alg6_true_inv _ _ _ A) as [key [s [WK [-> [W [ES V]]]]]].
      destruct (IH _ _ _ Wk) as [key1 [WK1 [EP [spks [s' [key' [PS [W' [VC V']]]]]]]]].
      exists key. split; [assumption|]. split; [reflexivity|].
      exists ((s, key1) :: spks), s', key'.
      split; [|split; [assumption|split; [|assumption]]].
      + rewrite (split3 S sl (sl + 24 + n)) by lia. rewrite ES, EP.
        cbn [parse_spks]. rewrite (parse_lms_sig_ser s _ W). cbn [bind].
        rewrite (parse_lms_pk_ser key1 _ WK1). cbn [bind]. rewrite PS. reflexivity.
      + cbn [verify_chain]. rewrite <- EP, V. exact VC.
  Qed.

  Lemma walk_complete k : forall S key msg spks s key',
    pk_wf key -> parse_spks K n k S = Ok (spks, ser_lms s) -> sig_wf s ->
    verify_chain K n H key spks = Some key' -> lms_verify K n H s key' msg = true ->
    hss_walk n H ots_tbl_of lms_tbl_of k S (p_raw key) msg = true.
  Proof.
    induction k as [|k IH]; intros S key msg spks s key' WK PS W VC V.
    - cbn [parse_spks] in PS. apply Ok_inj_pair in PS. destruct PS as [<- ->].
      cbn [verify_chain] in VC. injection VC as <-.
      cbn [hss_walk]. now rewrite alg6_of.
    - cbn [parse_spks] in PS.
      destruct (parse_lms_sig K n S) as [[s1 r1]| |] eqn:P1; cbn [bind] in PS; try discriminate.
      destruct (parse_lms_pk K n r1) as [[p r2]| |] eqn:P2; cbn [bind] in PS; try discriminate.
      destruct (parse_spks K n k r2) as [[rest r3]| |] eqn:P3; cbn [bind] in PS; try discriminate.
      apply Ok_inj_pair in PS. destruct PS as [<- ->].
      destruct (parse_lms_sig_inv _ _ _ P1) as [W1 ->].
      destruct (parse_lms_pk_inv _ _ _ P2) as [WP ->].
      cbn [verify_chain] in VC.
      destruct (lms_verify K n H s1 key (p_raw p)) eqn:V1; [|discriminate].
      pose proof (p_raw_length p WP) as LP.
      cbn [hss_walk]. rewrite (next_len_ser s1 _ W1).
      rewrite !app_length, LP.
      destruct (Nat.ltb_spec (length (ser_lms s1) + (24 + n + length r2)) (length (ser_lms s1) + 24 + n)); [lia|].
      rewrite sub_head.
      rewrite sub_app_r by lia.
      replace (length (ser_lms s1) - length (ser_lms s1))%nat with 0%nat by lia.
      replace (length (ser_lms s1) + 24 + n - length (ser_lms s1))%nat with (24 + n)%nat by lia.
      rewrite (sub_head' (p_raw p) r2 (24 + n) LP).
      rewrite (alg6_of key s1 (p_raw p) WK W1), V1.
      replace (skipn (length (ser_lms s1) + 24 + n) (ser_lms s1 ++ p_raw p ++ r2)) with r2.
      + eapply IH; eassumption.
      + rewrite app_assoc. rewrite skipn_app.
        rewrite skipn_all2 by (rewrite app_length; lia).
        rewrite app_length, LP. replace (length (ser_lms s1) + 24 + n - (length (ser_lms s1) + (24 + n)))%nat with 0%nat by lia.
        reflexivity.
  Qed.

  (* ---- section 6.3: HSS verification ---- *)

  Definition rfc_verify_K (msg sig pk : bytes) : bool :=
    hss_verify_rfc n H ots_tbl_of lms_tbl_of (N.of_nat (c_max_levels K)) msg sig pk.

  Lemma model_accepts_rfc_accepts msg sig pk :
    hss_verify K n H msg sig pk = Ok tt -> rfc_verify_K msg sig pk = true.
  Proof.
    unfold hss_verify, parse_hss_sig, parse_hss_pk.
    destruct (rd 4 sig) as [[nb r1]| |] eqn:E1; cbn [bind]; try discriminate.
    destruct (N.leb_spec (N.of_nat (c_max_levels K)) (be_dec nb)) as [|HM]; cbn [bind]; [discriminate|].
    destruct (parse_spks K n (N.to_nat (be_dec nb)) r1) as [[spks r2]| |] eqn:PS; cbn [bind]; try discriminate.
    destruct (parse_lms_sig K n r2) as [[s0 r3]| |] eqn:P0; cbn [bind]; try discriminate.
    destruct r3 as [|]; cbn [bind]; [|discriminate].
    destruct (rd 4 pk) as [[lb p1]| |] eqn:E2; cbn [bind]; try discriminate.
    destruct (parse_lms_pk K n p1) as [[key p2]| |] eqn:PK; cbn [bind]; try discriminate.
    destruct p2 as [|]; cbn [bind]; [|discriminate].
    cbn [h_nspk h_spks h_sig].
    destruct (N.eqb_spec (be_dec nb + 1) (be_dec lb)) as [EL|]; cbn [negb]; [|discriminate].
    destruct (verify_chain K n H key spks) as [key'|] eqn:VC; [|discriminate].
    destruct (lms_verify K n H s0 key' msg) eqn:V; [|discriminate].
    intros _.
    apply rd_Ok in E1, E2. destruct E1 as [-> L1], E2 as [-> L2].
    destruct (parse_lms_sig_inv _ _ _ P0) as [W0 ->]. rewrite app_nil_r in PS.
    destruct (parse_lms_pk_inv _ _ _ PK) as [WK ->]. rewrite app_nil_r.
    unfold rfc_verify_K, hss_verify_rfc. rewrite !app_length, L1, L2.
    destruct (Nat.ltb_spec (4 + length r1) 4); [lia|].
    destruct (Nat.ltb_spec (4 + length (p_raw key)) 4); [lia|]. cbn [orb].
    rewrite !sub_head' by assumption. unfold strTou32.
    rewrite <- EL, N.eqb_refl. cbn [negb].
    destruct (N.leb_spec (N.of_nat (c_max_levels K)) (be_dec nb)); [lia|].
    replace (skipn 4 (nb ++ r1)) with r1
      by (rewrite skipn_app, skipn_all2, L1 by lia; reflexivity).
    replace (skipn 4 (lb ++ p_raw key)) with (p_raw key)
      by (rewrite skipn_app, skipn_all2, L2 by lia; reflexivity).
    eapply walk_complete; eassumption.
  Qed.

  Lemma rfc_accepts_model_accepts msg sig pk :
    rfc_verify_K msg sig pk = true -> hss_verify K n H msg sig pk = Ok tt.
  Proof.
    unfold rfc_verify_K, hss_verify_rfc.
    destruct (Nat.ltb_spec (length sig) 4) as [|LS]; cbn [orb]; [discriminate|].
    destruct (Nat.ltb_spec (length pk) 4) as [|LP]; [discriminate|].
    destruct (N.eqb_spec (strTou32 (sub sig 0 4) + 1) (strTou32 (sub pk 0 4))) as [EL|]; cbn [negb]; [|discriminate].
    destruct (N.leb_spec (N.of_nat (c_max_levels K)) (strTou32 (sub sig 0 4))) as [|HM]; [discriminate|].
    intros Wk.
    destruct (split_len sig 4 LS) as [nb [r1 [-> L1]]]. destruct (split_len pk 4 LP) as [lb [p1 [-> L2]]].
    rewrite !sub_head' in * by assumption. unfold strTou32 in *.
    replace (skipn 4 (nb ++ r1)) with r1 in Wk
      by (rewrite skipn_app, skipn_all2, L1 by lia; reflexivity).
    replace (skipn 4 (lb ++ p1)) with p1 in Wk
      by (rewrite skipn_app, skipn_all2, L2 by lia; reflexivity).
    destruct (walk_sound _ _ _ _ Wk) as [key [WK [-> [spks [s [key' [PS [W [VC V]]]]]]]]].
    unfold hss_verify, parse_hss_sig, parse_hss_pk.
    rewrite (rd_app 4 nb r1 L1). cbn [bind].
    destruct (N.leb_spec (N.of_nat (c_max_levels K)) (be_dec nb)); [lia|].
    rewrite PS. cbn [bind].
    rewrite <- (app_nil_r (ser_lms s)), (parse_lms_sig_ser s [] W). cbn [bind].
    rewrite (rd_app 4 lb _ L2). cbn [bind].
    rewrite <- (app_nil_r (p_raw key)), (parse_lms_pk_ser key [] WK). cbn [bind].
    cbn [h_nspk h_spks h_sig]. rewrite EL, N.eqb_refl. cbn [negb].
    now rewrite VC, V.
  Qed.

  (* C02, byte level: the verifier of the code accepts exactly what RFC 8554 accepts *)
  Theorem hss_verify_iff_rfc msg sig pk :
    hss_verify K n H msg sig pk = Ok tt <-> rfc_verify_K msg sig pk = true.
  Proof. split; [apply model_accepts_rfc_accepts|apply rfc_accepts_model_accepts]. Qed.
End Equiv.

(* ------------------------------------------------------------------------------------------
   the RFC algorithms depend on the parameter tables only through their values *)
Section TableExt.
  Variable n : nat.
  Variable H : bytes -> bytes.
  Variables o1 o2 : N -> option (N * N * N).
  Variables l1 l2 : N -> option N.
  Hypothesis EO : forall c, o1 c = o2 c.
  Hypothesis EL : forall c, l1 c = l2 c.

  Lemma alg4b_ext pt I q s m : alg4b n H o1 pt I q s m = alg4b n H o2 pt I q s m.
  Proof. unfold alg4b. cbv zeta. now rewrite EO. Qed.

  Lemma alg6a_ext lt ot I s m : alg6a n H o1 l1 lt ot I s m = alg6a n H o2 l2 lt ot I s m.
  Proof.
    unfold alg6a. cbv zeta. rewrite EO, EL.
    destruct (Nat.ltb _ 8); [reflexivity|]. destruct (negb _); [reflexivity|].
    destruct (o2 ot) as [[[w p] ls]|]; [|reflexivity].
    destruct (Nat.ltb _ _); [reflexivity|]. destruct (negb _); [reflexivity|].
    destruct (l2 lt); [|reflexivity]. destruct (_ || _); [reflexivity|].
    now rewrite alg4b_ext.
  Qed.

  Lemma alg6_ext pk s m : alg6 n H o1 l1 pk s m = alg6 n H o2 l2 pk s m.
  Proof.
    unfold alg6. cbv zeta. rewrite EO, EL.
    destruct (Nat.ltb _ 8); [reflexivity|].
    destruct (l2 _); [|reflexivity]. destruct (o2 _); [|reflexivity].
    destruct (negb _); [reflexivity|]. now rewrite alg6a_ext.
  Qed.

  Lemma next_len_ext S : next_lms_sig_len n o1 l1 S = next_lms_sig_len n o2 l2 S.
  Proof.
    unfold next_lms_sig_len. rewrite EO.
    destruct (Nat.ltb _ 8); [reflexivity|].
    destruct (o2 _) as [[[w p] ls]|]; [|reflexivity].
    destruct (Nat.ltb _ _); [reflexivity|]. now rewrite EL.
  Qed.

  Lemma hss_walk_ext k : forall S key m, hss_walk n H o1 l1 k S key m = hss_walk n H o2 l2 k S key m.
  Proof.
    induction k as [|k IH]; intros S key m; cbn [hss_walk]; [apply alg6_ext|].
    rewrite next_len_ext. destruct (next_lms_sig_len n o2 l2 S); [|reflexivity].
    destruct (Nat.ltb _ _); [reflexivity|]. rewrite alg6_ext.
    destruct (alg6 _ _ _ _ _ _ _); [apply IH|reflexivity].
  Qed.

  Lemma hss_verify_rfc_ext ml m s pk : hss_verify_rfc n H o1 l1 ml m s pk = hss_verify_rfc n H o2 l2 ml m s pk.
  Proof.
    unfold hss_verify_rfc. destruct (_ || _); [reflexivity|]. cbv zeta.
    destruct (negb _); [reflexivity|]. destruct (_ <=? _); [reflexivity|]. apply hss_walk_ext.
  Qed.
End TableExt.
