(* Parser / serialiser round trips for the signature and public-key formats. *)
From HbsLms Require Import Base.Bytes Model.Consts Model.Winternitz Model.Lmots Model.Lms Model.Codec.
From HbsLms Require Import Proofs.CounterProofs Proofs.WinternitzProofs Proofs.CompleteProofs.

Local Open Scope N_scope.

Lemma be4_dec x : x < 4294967296 -> be_dec (be 4 x) = x.
Proof. intros Hx. rewrite be_dec_be. apply N.mod_small. exact Hx. Qed.

Lemma rd_app k a b : length a = k -> rd k (a ++ b) = Ok (a, b).
Proof. intros E. unfold rd. now rewrite read_app. Qed.

Lemma rd_app_nil k a : length a = k -> rd k a = Ok (a, []).
Proof. intros E. rewrite <- (app_nil_r a) at 1. now apply rd_app. Qed.

Lemma chunks_concat_exact n k (xs : list bytes) :
  length xs = k -> Forall (fun x => length x = n) xs -> chunks n k (concat xs) = xs.
Proof. intros. rewrite <- (app_nil_r (concat xs)). now apply chunks_concat. Qed.

Section Codec.
  Variable K : consts.
  Variable n : nat.

  Definition wf_ots (prm : otsp) : Prop :=
    ots_of_type K n (o_type prm) = Some prm /\ o_type prm < 4294967296.
  Definition wf_lms (lp : lmsp) : Prop :=
    lms_of_type K (l_type lp) = Some lp /\ l_type lp < 4294967296 /\ (l_h lp <= 32)%nat.

  Lemma parse_lms_sig_roundtrip prm lp q C ys path rest :
    wf_ots prm -> wf_lms lp ->
    q < 2 ^ N.of_nat (l_h lp) ->
    length C = n ->
    length ys = o_p prm -> Forall (fun y => length y = n) ys ->
    length path = l_h lp -> Forall (fun y => length y = n) path ->
    parse_lms_sig K n
      (be 4 q ++ (be 4 (o_type prm) ++ C ++ concat ys) ++ be 4 (l_type lp) ++ concat path ++ rest)
    = Ok ({| s_q := q; s_ots := prm; s_C := C; s_y := ys; s_lms := lp; s_path := path |}, rest).
  Proof.
    intros [Ho Hot] [Hl [Hlt Hh]] Hq HC Hys Fys Hp Fp.
    assert (Hq32 : q < 4294967296).
    { eapply N.lt_le_trans; [exact Hq|]. change 4294967296 with (2 ^ 32).
      apply N.pow_le_mono_r; lia. }
    assert (Lys : length (concat ys) = (n * o_p prm)%nat)
      by ((rewrite (concat_length_const n) by assumption); rewrite Hys; apply Nat.mul_comm).
    assert (Lp : length (concat path) = (n * l_h lp)%nat)
      by ((rewrite (concat_length_const n) by assumption); rewrite Hp; apply Nat.mul_comm).
    unfold parse_lms_sig.
    rewrite rd_app by apply be_length. cbn [bind].
    rewrite <- !app_assoc.
    rewrite (rd_app 4 (be 4 (o_type prm))) by apply be_length. cbn [bind].
    rewrite (be4_dec (o_type prm) Hot), Ho. cbn [of_option bind].
    rewrite !app_assoc.
    rewrite <- (app_assoc _ (be 4 (l_type lp))).
    rewrite <- (app_assoc _ (be 4 (l_type lp) ++ concat path)).
    rewrite (rd_app (4 + n * (1 + o_p prm)) ((be 4 (o_type prm) ++ C) ++ concat ys)).
    2:{ rewrite !app_length, be_length, HC, Lys. lia. }
    cbn [bind].
    rewrite <- !app_assoc.
    rewrite (rd_app 4 (be 4 (o_type prm))) by apply be_length. cbn [bind].
    rewrite (be4_dec (o_type prm) Hot), Ho. cbn [of_option bind].
    rewrite (rd_app n C) by assumption. cbn [bind].
    rewrite (rd_app_nil (n * o_p prm) (concat ys)) by assumption. cbn [bind].
    rewrite (rd_app 4 (be 4 (l_type lp))) by apply be_length. cbn [bind].
    rewrite (be4_dec (l_type lp) Hlt), Hl. cbn [of_option bind].
    rewrite (rd_app (n * l_h lp) (concat path)) by assumption. cbn [bind].
    rewrite (be4_dec q Hq32).
    destruct (N.leb_spec (2 ^ N.of_nat (l_h lp)) q); [lia|].
    rewrite chunks_concat_exact by assumption.
    rewrite chunks_concat_exact by assumption.
    reflexivity.
  Qed.

  Lemma parse_lms_pk_roundtrip prm lp tid root rest :
    wf_ots prm -> wf_lms lp -> length tid = c_ilen K -> length root = n ->
    parse_lms_pk K n (lms_pk_bytes prm lp tid root ++ rest)
    = Ok ({| p_lms := lp; p_ots := prm; p_I := tid; p_key := root;
             p_raw := lms_pk_bytes prm lp tid root |}, rest).
  Proof.
    intros [Ho Hot] [Hl [Hlt Hh]] HI Hr.
    unfold parse_lms_pk, lms_pk_bytes.
    rewrite <- !app_assoc.
    rewrite (rd_app 4 (be 4 (l_type lp))) by apply be_length. cbn [bind].
    rewrite (be4_dec (l_type lp) Hlt), Hl. cbn [of_option bind].
    rewrite (rd_app 4 (be 4 (o_type prm))) by apply be_length. cbn [bind].
    rewrite (be4_dec (o_type prm) Hot), Ho. cbn [of_option bind].
    rewrite (rd_app (c_ilen K) tid) by assumption. cbn [bind].
    rewrite (rd_app n root) by assumption. cbn [bind].
    f_equal. f_equal. f_equal.
    rewrite !app_assoc.
    rewrite firstn_app.
    replace (4 + 4 + c_ilen K + n - length (((be 4 (l_type lp) ++ be 4 (o_type prm)) ++ tid) ++ root))%nat
      with 0%nat by (rewrite !app_length, !be_length, HI, Hr; lia).
    cbn [firstn]. rewrite app_nil_r. apply firstn_all2.
    rewrite !app_length, !be_length, HI, Hr. lia.
  Qed.
End Codec.
