(* C06: verification is total.  The model's parsers use checked cursor reads only; this file
   proves (i) no outcome of verification is a panic, (ii) every structure that reaches the hash
   computations has exactly the field sizes the computations index into, and (iii) the parser
   consumes its input (termination: the level loop runs at most MAX_ALLOWED_HSS_LEVELS - 1 times). *)
From HbsLms Require Import Base.Bytes Model.Consts Model.Codec Model.Hss.

Local Open Scope N_scope.

Section VerifyTotal.
  Variable K : consts.
  Variable n : nat.

  Lemma rd_not_panic k l : rd k l <> Panic.
  Proof. unfold rd. destruct (read k l); discriminate. Qed.

  Ltac step :=
    match goal with
    | |- bind (rd ?k ?l) _ <> Panic =>
      let E := fresh "E" in destruct (rd k l) as [[? ?]| |] eqn:E;
        [cbn [bind]|cbn [bind]; discriminate|exfalso; exact (rd_not_panic _ _ E)]
    | |- bind (of_option ?o) _ <> Panic => destruct o; cbn [of_option bind]; [|discriminate]
    end.

  Lemma parse_lms_sig_total data : parse_lms_sig K n data <> Panic.
  Proof.
    unfold parse_lms_sig. repeat step.
    destruct (_ <=? _); discriminate.
  Qed.

  Lemma parse_lms_pk_total data : parse_lms_pk K n data <> Panic.
  Proof. unfold parse_lms_pk. repeat step. discriminate. Qed.

  Lemma parse_spks_total k data : parse_spks K n k data <> Panic.
  Proof.
    revert data; induction k as [|k IH]; intros data; cbn [parse_spks]; [discriminate|].
    pose proof (parse_lms_sig_total data).
    destruct (parse_lms_sig K n data) as [[s r1]| |]; cbn [bind]; try congruence; try discriminate.
    pose proof (parse_lms_pk_total r1).
    destruct (parse_lms_pk K n r1) as [[p r2]| |]; cbn [bind]; try congruence; try discriminate.
    specialize (IH r2). destruct (parse_spks K n k r2) as [[rest r3]| |]; cbn [bind]; try congruence; discriminate.
  Qed.

  Lemma parse_hss_sig_total data : parse_hss_sig K n data <> Panic.
  Proof.
    unfold parse_hss_sig. step. destruct (_ <=? _); [discriminate|].
    pose proof (parse_spks_total (N.to_nat (be_dec l)) l0).
    destruct (parse_spks K n (N.to_nat (be_dec l)) l0) as [[spks r2]| |]; cbn [bind]; try congruence; try discriminate.
    pose proof (parse_lms_sig_total r2).
    destruct (parse_lms_sig K n r2) as [[s r3]| |]; cbn [bind]; try congruence; try discriminate.
    destruct r3; discriminate.
  Qed.

  Lemma parse_hss_pk_total data : parse_hss_pk K n data <> Panic.
  Proof.
    unfold parse_hss_pk. step.
    pose proof (parse_lms_pk_total l0).
    destruct (parse_lms_pk K n l0) as [[p r2]| |]; cbn [bind]; try congruence; try discriminate.
    destruct r2; discriminate.
  Qed.

  Variable H : bytes -> bytes.

  Theorem hss_verify_total msg sig pk : hss_verify K n H msg sig pk <> Panic.
  Proof.
    unfold hss_verify. pose proof (parse_hss_sig_total sig).
    destruct (parse_hss_sig K n sig) as [s| |]; cbn [bind]; try congruence; try discriminate.
    pose proof (parse_hss_pk_total pk).
    destruct (parse_hss_pk K n pk) as [[L key]| |]; cbn [bind]; try congruence; try discriminate.
    destruct (negb _); [discriminate|].
    destruct (verify_chain K n H key (h_spks s)); [|discriminate].
    destruct (lms_verify K n H (h_sig s) l msg); discriminate.
  Qed.

  (* what reaches the hash computations is exactly sized: p chain values and h path nodes of n
     bytes each, an n-byte randomizer, a leaf index inside the tree *)
  Lemma chunks_sizes m k l : (m * k <= length l)%nat -> Forall (fun x => length x = m) (chunks m k l).
  Proof.
    revert l; induction k as [|k IH]; intros l Hl; cbn [chunks]; constructor.
    - apply firstn_length_le. lia.
    - apply IH. rewrite skipn_length. lia.
  Qed.

  Lemma parse_lms_sig_shape data s rest :
    parse_lms_sig K n data = Ok (s, rest) ->
    length (s_C s) = n
    /\ length (s_y s) = o_p (s_ots s) /\ Forall (fun y => length y = n) (s_y s)
    /\ length (s_path s) = l_h (s_lms s) /\ Forall (fun y => length y = n) (s_path s)
    /\ s_q s < 2 ^ N.of_nat (l_h (s_lms s))
    /\ (length rest < length data)%nat.
  Proof.
    unfold parse_lms_sig.
    destruct (rd 4 data) as [[qb r1]| |] eqn:E1; cbn [bind]; try discriminate.
    destruct (rd 4 r1) as [[tb r1']| |] eqn:E2; cbn [bind]; try discriminate.
    destruct (ots_of_type K n (be_dec tb)) as [prm|]; cbn [of_option bind]; try discriminate.
    destruct (rd (4 + n * (1 + o_p prm)) r1) as [[otsb r2]| |] eqn:E3; cbn [bind]; try discriminate.
    destruct (rd 4 otsb) as [[tb' o1]| |] eqn:E4; cbn [bind]; try discriminate.
    destruct (ots_of_type K n (be_dec tb')) as [prm'|]; cbn [of_option bind]; try discriminate.
    destruct (rd n o1) as [[C o2]| |] eqn:E5; cbn [bind]; try discriminate.
    destruct (rd (n * o_p prm') o2) as [[yb o3]| |] eqn:E6; cbn [bind]; try discriminate.
    destruct (rd 4 r2) as [[lb r3]| |] eqn:E7; cbn [bind]; try discriminate.
    destruct (lms_of_type K (be_dec lb)) as [lp|]; cbn [of_option bind]; try discriminate.
    destruct (rd (n * l_h lp) r3) as [[pb r4]| |] eqn:E8; cbn [bind]; try discriminate.
    destruct (N.leb_spec (2 ^ N.of_nat (l_h lp)) (be_dec qb)); [discriminate|].
    intros [= <- <-]. cbn [s_C s_y s_ots s_path s_lms s_q].
    unfold rd in *.
    repeat match goal with
           | E : of_option (read ?k ?l) = Ok _ |- _ =>
             destruct (read k l) as [[? ?]|] eqn:?; cbn [of_option] in E; [injection E as <- <-|discriminate E]
           end.
    repeat match goal with
           | E : read _ _ = Some _ |- _ =>
             apply read_Some in E; destruct E as [E ?];
             apply (f_equal (@length byte)) in E; rewrite app_length in E
           end.
    repeat split; try assumption.
    - apply chunks_length.
    - apply chunks_sizes. lia.
    - apply chunks_length.
    - apply chunks_sizes. lia.
    - lia.
  Qed.
End VerifyTotal.
