(* Totality of the signer-side entry points on arbitrary inputs (C11). *)
From HbsLms Require Import Base.Bytes Model.Consts Model.Counter Model.KeyBlob Model.Derive Model.Hss Model.SignCore.
From HbsLms Require Import Proofs.CounterProofs.

Local Open Scope N_scope.

Section Total.
  Variable K : consts.
  Variable n : nat.

  Lemma read_ok k (l : bytes) : (k <= length l)%nat -> exists a b, read k l = Some (a, b) /\ length b = (length l - k)%nat.
  Proof.
    intros Hk. unfold read. replace (Nat.leb k (length l)) with true by (symmetry; apply Nat.leb_le; exact Hk).
    eexists. eexists. split; [reflexivity|]. apply skipn_length.
  Qed.

  Lemma blob_parse_total b : blob_parse K n b <> Panic.
  Proof.
    unfold blob_parse.
    destruct (Nat.eqb (length b) (c_used_leafs_size K + c_ref_levels K + n)) eqn:E; cbn [negb]; [|discriminate].
    apply Nat.eqb_eq in E.
    destruct (read_ok (c_used_leafs_size K) b ltac:(lia)) as [cb [r1 [-> L1]]].
    destruct (read_ok (c_ref_levels K) r1 ltac:(lia)) as [pb [r2 [-> L2]]].
    destruct (read_ok n r2 ltac:(lia)) as [sd [r3 [-> L3]]]. discriminate.
  Qed.

  Lemma params_decode_total i bs : params_decode K n i bs <> Panic.
  Proof.
    revert i; induction bs as [|b r IH]; intros i; cbn [params_decode]; [discriminate|].
    destruct (b2n b =? c_param_set_end K); [discriminate|].
    destruct (ots_of_u32 K n (N.land (b2n b) 15)); [|discriminate].
    destruct (lms_of_u32 K (N.shiftr (b2n b) 4)); [|discriminate].
    destruct (within_limits K i (o, l)); [|discriminate].
    specialize (IH (S i)). destruct (params_decode K n (S i) r); cbn [bind]; congruence.
  Qed.

  Lemma params_of_bytes_total bs : params_of_bytes K n bs <> Panic.
  Proof.
    unfold params_of_bytes. pose proof (params_decode_total 0 bs).
    destruct (params_decode K n 0 bs) as [[|p ps]| |]; cbn [bind]; congruence.
  Qed.

  Lemma params_of_bytes_nonempty bs ps : params_of_bytes K n bs = Ok ps -> ps <> [].
  Proof.
    unfold params_of_bytes. destruct (params_decode K n 0 bs) as [[|p l]| |]; cbn [bind]; congruence.
  Qed.

  Variable H : bytes -> bytes.

  Lemma hss_signature_total ps seed c msg : hss_signature K n H ps seed c msg <> Panic.
  Proof.
    unfold hss_signature. destruct (combine ps _) as [|[p0 q0] below]; [discriminate|].
    destruct (root_seed_I _ _ _) as [s0 I0].
    destruct (expand K n H s0 I0 p0 q0 below) as [spks [[[bseed bI] bp] bq]]. discriminate.
  Qed.

  Lemma hss_public_key_total ps seed : hss_public_key K n H ps seed <> Panic.
  Proof.
    unfold hss_public_key. destruct ps; [discriminate|]. destruct (root_seed_I _ _ _). discriminate.
  Qed.

  (* signing: any key bytes, any message, any callback *)
  Theorem sign_core_total blob msg cb : fst (sign_core K n H blob msg cb) <> Panic.
  Proof.
    unfold sign_core. pose proof (blob_parse_total blob).
    destruct (blob_parse K n blob) as [k| |]; cbn [fst]; try congruence; try discriminate.
    pose proof (params_of_bytes_total (k_params k)).
    destruct (params_of_bytes K n (k_params k)) as [ps| |]; cbn [fst]; try congruence; try discriminate.
    pose proof (hss_signature_total ps (k_seed k) (k_counter k) msg).
    destruct (hss_signature K n H ps (k_seed k) (k_counter k) msg); cbn [fst]; try congruence; try discriminate.
    destruct (cb _); cbn [fst]; discriminate.
  Qed.

  Theorem keygen_total ps seed : keygen K n H ps seed <> Panic.
  Proof.
    unfold keygen, key_generate, params_to_bytes.
    destruct (Nat.ltb _ _); cbn [bind]; [discriminate|].
    destruct (negb _); cbn [bind]; [discriminate|]. cbn [k_params k_seed].
    pose proof (params_of_bytes_total
                  (map (pack_param) ps ++ repeat (n2b (c_param_set_end K)) (c_ref_levels K - length ps))) as P.
    destruct (params_of_bytes K n _) as [ps'| |]; cbn [bind]; try congruence; try discriminate.
    pose proof (hss_public_key_total ps' seed).
    destruct (hss_public_key K n H ps' seed); cbn [bind]; try congruence; try discriminate.
    destruct (Nat.ltb _ _); [discriminate|]. destruct (Nat.ltb _ _); discriminate.
  Qed.

  (* table side condition for the lifetime arithmetic: every decodable height is below 64 *)
  Definition heights_ok : bool :=
    forallb (fun row : N * (N * N) => snd (snd row) <=? 63) (c_lms_construct K).

  Hypothesis HO : heights_ok = true.

  Lemma lms_height_ok code lp : lms_of_u32 K code = Some lp -> N.of_nat (l_h lp) <= 63.
  Proof.
    unfold lms_of_u32, lms_construct. destruct (assoc code (c_lms_from_u32 K)) as [v|]; [|discriminate].
    destruct (assoc v (c_lms_construct K)) as [[ty h]|] eqn:A; [|discriminate]. intros [= <-].
    apply assoc_In in A. unfold heights_ok in HO. rewrite forallb_forall in HO.
    specialize (HO _ A). cbn [snd l_h] in *. apply N.leb_le in HO. lia.
  Qed.

  Lemma params_decode_heights i bs ps :
    params_decode K n i bs = Ok ps -> Forall (fun h => h <= 63) (heights_of ps).
  Proof.
    revert i ps; induction bs as [|b r IH]; intros i ps; cbn [params_decode].
    - intros [= <-]. constructor.
    - destruct (b2n b =? c_param_set_end K); [intros [= <-]; constructor|].
      destruct (ots_of_u32 K n (N.land (b2n b) 15)); [|discriminate].
      destruct (lms_of_u32 K (N.shiftr (b2n b) 4)) eqn:EL; [|discriminate].
      destruct (within_limits K i (o, l)); [|discriminate].
      destruct (params_decode K n (S i) r) as [rest| |] eqn:ER; cbn [bind]; try discriminate.
      intros [= <-]. cbn [heights_of map snd]. constructor; [exact (lms_height_ok _ _ EL)|].
      exact (IH _ _ ER).
  Qed.

  Theorem get_lifetime_total key : get_lifetime K n key <> Panic.
  Proof.
    unfold get_lifetime. pose proof (blob_parse_total key).
    destruct (blob_parse K n key) as [k| |]; cbn [bind]; try congruence; try discriminate.
    pose proof (params_of_bytes_total (k_params k)).
    destruct (params_of_bytes K n (k_params k)) as [ps| |] eqn:EP; cbn [bind]; try congruence; try discriminate.
    rewrite lifetime_closed; [discriminate| |].
    - pose proof (params_of_bytes_nonempty _ _ EP). destruct ps; [congruence|discriminate].
    - unfold params_of_bytes in EP. destruct (params_decode K n 0 (k_params k)) as [ps'| |] eqn:ED; cbn [bind] in EP; try discriminate.
      destruct ps'; [discriminate|]. injection EP as <-. exact (params_decode_heights _ _ _ ED).
  Qed.
End Total.
