(* Lemmas about Model/Winternitz.v: agreement with RFC 8554 and absence of domination. *)
From HbsLms Require Import Base.Bytes Model.Consts Model.Winternitz Spec.Rfc8554Ots.
From HbsLms Require Import Model.Counter Proofs.CounterProofs.

Local Open Scope N_scope.

Definition wok (w : N) : Prop := w = 1 \/ w = 2 \/ w = 4 \/ w = 8.
Definition wok_b (w : N) : bool := (w =? 1) || (w =? 2) || (w =? 4) || (w =? 8).

Lemma wok_b_spec w : wok_b w = true -> wok w.
Proof.
  unfold wok_b, wok. rewrite !orb_true_iff, !N.eqb_eq. tauto.
Qed.

Ltac wcases H :=
  destruct H as [H | [H | [H | H] ] ]; rewrite ?H in *.

(* ---------------------------------------------------------------- coef *)

(* digit j (most significant first) of byte b in base 2^w *)
Definition dig (w : N) (b : byte) (j : N) : N :=
  (b2n b / 2 ^ (w * (8 / w - 1 - j))) mod 2 ^ w.

Lemma coef_shift_spec i w :
  wok w -> i < 65536 -> coef_shift i w = w * (8 / w - 1 - i mod (8 / w)).
Proof.
  intros Hw Hi. unfold coef_shift. wcases Hw.
  - change (8 / 1 - 1) with (N.ones 3). rewrite N.land_ones. change (8 / 1) with 8.
    change (N.ones 3) with 7. change (2 ^ 3) with 8. lia.
  - change (8 / 2 - 1) with (N.ones 2). rewrite N.land_ones. change (8 / 2) with 4.
    change (N.ones 2) with 3. change (2 ^ 2) with 4. lia.
  - change (8 / 4 - 1) with (N.ones 1). rewrite N.land_ones. change (8 / 4) with 2.
    change (N.ones 1) with 1. change (2 ^ 1) with 2. lia.
  - change (8 / 8 - 1) with 0. rewrite N.land_0_r. change (8 / 8) with 1.
    rewrite N.mod_1_r. lia.
Qed.

Lemma coef_index_spec i w : wok w -> coef_index i w = N.to_nat (i / (8 / w)).
Proof.
  intros Hw. unfold coef_index. f_equal. wcases Hw.
  - change (8 / 1) with 8. lia.
  - change (8 / 2) with 4. lia.
  - change (8 / 4) with 2. lia.
  - change (8 / 8) with 1. lia.
Qed.

Lemma coef_mask_spec w : coef_mask w = 2 ^ w - 1.
Proof. unfold coef_mask. now rewrite N.shiftl_1_l. Qed.

Lemma coef_spec S i w :
  wok w -> i < 65536 ->
  coef S i w = dig w (nth (N.to_nat (i / (8 / w))) S x00) (i mod (8 / w)).
Proof.
  intros Hw Hi. unfold coef, dig.
  rewrite coef_shift_spec, coef_index_spec, coef_mask_spec by assumption.
  now rewrite land_pow2_m1, shiftr_pow2.
Qed.

Lemma coef_rfc S i w : wok w -> i < 65536 -> coef S i w = rfc_coef S i w.
Proof.
  intros Hw Hi. unfold coef, rfc_coef.
  rewrite coef_shift_spec, coef_mask_spec by assumption.
  rewrite N.land_comm. f_equal. unfold coef_index. f_equal.
  wcases Hw.
  - change (8 / 1) with 8. lia.
  - change (8 / 2) with 4. lia.
  - change (8 / 4) with 2. lia.
  - change (8 / 8) with 1. rewrite N.mod_1_r. lia.
Qed.

Lemma coef_bound S i w : coef S i w <= coef_mask w.
Proof.
  unfold coef. rewrite coef_mask_spec, land_pow2_m1.
  pose proof (N.mod_upper_bound (N.shiftr (b2n (nth (coef_index i w) S x00)) (coef_shift i w)) (2 ^ w)
                                ltac:(apply N.pow_nonzero; lia)). lia.
Qed.

(* ---------------------------------------------------------------- digit strings *)

Definition dn (w : N) : nat := N.to_nat (8 / w).
Definition byte_digits (w : N) (b : byte) : list N := map (dig w b) (nrange (dn w)).
Definition str_digits (w : N) (S : bytes) : list N := flat_map (byte_digits w) S.

Lemma nrange_length k : length (nrange k) = k.
Proof. unfold nrange. now rewrite map_length, seq_length. Qed.

Lemma nrange_app a b :
  nrange (a + b) = nrange a ++ map (fun i => N.of_nat a + i) (nrange b).
Proof.
  unfold nrange. rewrite seq_app, map_app. f_equal.
  generalize 0%nat. induction b as [|b IH]; intros s; [reflexivity|].
  cbn [seq map]. f_equal; [lia|]. change (S (s + a)) with (S s + a)%nat. apply IH.
Qed.

Lemma nrange_In k i : In i (nrange k) <-> i < N.of_nat k.
Proof.
  unfold nrange. rewrite in_map_iff. split.
  - intros [x [<- Hx]]. apply in_seq in Hx. lia.
  - intros H. exists (N.to_nat i). split; [lia|]. apply in_seq. lia.
Qed.

Lemma byte_digits_length w b : length (byte_digits w b) = dn w.
Proof. unfold byte_digits. now rewrite map_length, nrange_length. Qed.

Lemma str_digits_length w S : length (str_digits w S) = (length S * dn w)%nat.
Proof.
  induction S as [|b S IH]; [reflexivity|]. cbn [str_digits flat_map length].
  fold (str_digits w S). rewrite app_length, byte_digits_length, IH. lia.
Qed.

Lemma dn_pos w : wok w -> (0 < dn w)%nat /\ N.of_nat (dn w) = 8 / w.
Proof. intros Hw. unfold dn. wcases Hw; vm_compute; split; (lia || reflexivity). Qed.

Lemma coef_cons_head b S i w :
  wok w -> i < 8 / w -> coef (b :: S) i w = dig w b i.
Proof.
  intros Hw Hi.
  assert (Hd : 8 / w <= 8) by (wcases Hw; vm_compute; discriminate).
  rewrite coef_spec by (assumption || lia).
  rewrite N.div_small, N.mod_small by assumption. reflexivity.
Qed.

Lemma coef_cons_tail b S i w :
  wok w -> 8 / w + i < 65536 -> coef (b :: S) (8 / w + i) w = coef S i w.
Proof.
  intros Hw Hi.
  assert (Hd : 8 / w <> 0) by (wcases Hw; vm_compute; discriminate).
  rewrite (coef_spec (b :: S)) by assumption.
  rewrite (coef_spec S) by (try assumption; generalize dependent (8 / w); intros; lia).
  generalize dependent (8 / w). intros d Hi Hd.
  replace ((d + i) / d) with (1 + i / d).
  2:{ replace (d + i) with (1 * d + i) by lia. rewrite N.div_add_l by assumption. reflexivity. }
  replace ((d + i) mod d) with (i mod d).
  2:{ replace (d + i) with (i + 1 * d) by lia. now rewrite N.mod_add. }
  replace (N.to_nat (1 + i / d)) with (Datatypes.S (N.to_nat (i / d))) by lia.
  reflexivity.
Qed.

(* the code's digit extraction over a whole string is the flat digit string *)
Lemma map_coef_str w S :
  wok w -> N.of_nat (length S) * (8 / w) < 65536 ->
  map (fun i => coef S i w) (nrange (length S * dn w)) = str_digits w S.
Proof.
  intros Hw. destruct (dn_pos w Hw) as [Hp Hd].
  induction S as [|b S IH]; intros Hl; [reflexivity|].
  cbn [length str_digits flat_map]. fold (str_digits w S).
  replace (Datatypes.S (length S) * dn w)%nat with (dn w + length S * dn w)%nat by lia.
  rewrite nrange_app, map_app. f_equal.
  - unfold byte_digits. apply map_ext_in. intros i Hi. apply nrange_In in Hi.
    apply coef_cons_head; [assumption|lia].
  - rewrite map_map. rewrite <- IH by (cbn [length] in Hl; lia).
    apply map_ext_in. intros i Hi. apply nrange_In in Hi. rewrite Hd.
    apply coef_cons_tail; [assumption|]. cbn [length] in Hl. nia.
Qed.

Lemma str_digits_app w A B : str_digits w (A ++ B) = str_digits w A ++ str_digits w B.
Proof. unfold str_digits. apply flat_map_app. Qed.

Lemma map_nrange_firstn {A} (f : N -> A) k m :
  (k <= m)%nat -> map f (nrange k) = firstn k (map f (nrange m)).
Proof.
  intros H. replace m with (k + (m - k))%nat by lia. rewrite nrange_app, map_app.
  rewrite firstn_app, map_length, nrange_length, Nat.sub_diag. cbn [firstn].
  rewrite app_nil_r. rewrite firstn_all2; [reflexivity|]. now rewrite map_length, nrange_length.
Qed.

(* ---------------------------------------------------------------- sums *)

Lemma fold_add_sum {A} (f : A -> N) l a :
  fold_left (fun acc i => acc + f i) l a = a + sumN (map f l).
Proof.
  revert a; induction l as [|x l IH]; intros a; cbn [fold_left map sumN fold_right]; [lia|].
  rewrite IH. fold (sumN (map f l)). lia.
Qed.

Lemma sum_defect M ds :
  Forall (fun d => d <= M) ds ->
  sumN (map (fun d => M - d) ds) + sumN ds = M * N.of_nat (length ds).
Proof.
  induction 1 as [|d ds Hd _ IH]; cbn [map sumN fold_right length]; [lia|].
  fold (sumN ds) (sumN (map (fun d0 => M - d0) ds)). lia.
Qed.

Lemma Forall2_le_sum a b : Forall2 N.le a b -> sumN a <= sumN b.
Proof. induction 1; cbn [sumN fold_right]; [lia|]. fold (sumN l) (sumN l'). lia. Qed.

Lemma Forall2_le_sum_eq a b : Forall2 N.le a b -> sumN a = sumN b -> a = b.
Proof.
  induction 1 as [|x y l l' Hxy F IH]; [reflexivity|]. cbn [sumN fold_right].
  fold (sumN l) (sumN l'). intros E. pose proof (Forall2_le_sum _ _ F).
  f_equal; [lia|]. apply IH. lia.
Qed.

Lemma Forall2_app_split {A B} (R : A -> B -> Prop) a1 a2 b1 b2 :
  length a1 = length b1 -> Forall2 R (a1 ++ a2) (b1 ++ b2) -> Forall2 R a1 b1 /\ Forall2 R a2 b2.
Proof.
  revert b1; induction a1 as [|x a1 IH]; intros [|y b1] E F; cbn in E; try discriminate.
  - split; [constructor|exact F].
  - cbn [app] in F. inversion F; subst. destruct (IH b1 ltac:(lia) H4). split; [constructor|]; assumption.
Qed.

(* value of a digit list in base B, most significant first *)
Definition val (B : N) (ds : list N) : N := fold_left (fun acc d => acc * B + d) ds 0.

Lemma val_mono_acc B d1 d2 a1 a2 :
  Forall2 N.le d1 d2 -> a1 <= a2 ->
  fold_left (fun acc d => acc * B + d) d1 a1 <= fold_left (fun acc d => acc * B + d) d2 a2.
Proof.
  intros F; revert a1 a2; induction F as [|x y l l' Hxy _ IH]; intros a1 a2 Ha; cbn [fold_left]; [exact Ha|].
  apply IH. nia.
Qed.

Lemma val_mono B d1 d2 : Forall2 N.le d1 d2 -> val B d1 <= val B d2.
Proof. intros F. apply val_mono_acc; [assumption|lia]. Qed.

(* ---------------------------------------------------------------- finite facts, checked by computation *)

Definition all_bytes : list byte := map n2b (nrange 256).

Lemma all_bytes_complete b : In b all_bytes.
Proof.
  unfold all_bytes. rewrite <- (n2b_b2n b). apply in_map. apply nrange_In.
  pose proof (b2n_lt b). lia.
Qed.

(* the base-2^w digits of a byte determine the byte *)
Lemma byte_digits_val w b : wok w -> val (2 ^ w) (byte_digits w b) = b2n b.
Proof.
  intros Hw.
  assert (F : forallb (fun w => forallb (fun b => val (2 ^ w) (byte_digits w b) =? b2n b) all_bytes)
                      [1; 2; 4; 8] = true) by (vm_compute; reflexivity).
  rewrite forallb_forall in F.
  assert (Hin : In w [1; 2; 4; 8]) by (wcases Hw; cbn; tauto).
  specialize (F w Hin). rewrite forallb_forall in F. specialize (F b (all_bytes_complete b)).
  now apply N.eqb_eq.
Qed.

Lemma byte_digits_inj w b1 b2 : wok w -> byte_digits w b1 = byte_digits w b2 -> b1 = b2.
Proof.
  intros Hw E. apply b2n_inj. rewrite <- (byte_digits_val w b1 Hw), <- (byte_digits_val w b2 Hw).
  now rewrite E.
Qed.

Lemma byte_digits_bound w b : Forall (fun d => d <= 2 ^ w - 1) (byte_digits w b).
Proof.
  unfold byte_digits. apply Forall_forall. intros d Hd. apply in_map_iff in Hd.
  destruct Hd as [j [<- _]]. unfold dig.
  pose proof (N.mod_upper_bound (b2n b / 2 ^ (w * (8 / w - 1 - j))) (2 ^ w)
                                ltac:(apply N.pow_nonzero; lia)). lia.
Qed.

Lemma str_digits_bound w S : Forall (fun d => d <= 2 ^ w - 1) (str_digits w S).
Proof.
  induction S as [|b S IH]; [constructor|]. cbn [str_digits flat_map].
  apply Forall_app. split; [apply byte_digits_bound|exact IH].
Qed.

Lemma app_inv_length {A} (a1 a2 b1 b2 : list A) :
  length a1 = length a2 -> a1 ++ b1 = a2 ++ b2 -> a1 = a2 /\ b1 = b2.
Proof.
  revert a2; induction a1 as [|x a1 IH]; intros [|y a2] E H; cbn in E; try discriminate.
  - split; [reflexivity|exact H].
  - cbn [app] in H. injection H as -> H. destruct (IH a2 ltac:(lia) H) as [-> ->]. split; reflexivity.
Qed.

Lemma str_digits_inj w S1 S2 :
  wok w -> length S1 = length S2 -> str_digits w S1 = str_digits w S2 -> S1 = S2.
Proof.
  intros Hw. revert S2; induction S1 as [|b1 S1 IH]; intros [|b2 S2] El E; cbn in El; try discriminate.
  - reflexivity.
  - cbn [str_digits flat_map] in E.
    apply app_inv_length in E; [|now rewrite !byte_digits_length].
    destruct E as [Eb Es]. f_equal.
    + exact (byte_digits_inj w _ _ Hw Eb).
    + apply IH; [lia|exact Es].
Qed.

(* the (w, v) pairs of the twelve LM-OTS parameter sets: v checksum digits of w bits *)
Definition wv_pairs : list (N * N) := [(1, 8); (1, 9); (2, 4); (2, 5); (4, 3); (8, 2)].

(* the first v base-2^w digits of a 16-bit big-endian value are its top v*w bits *)
Lemma checksum_digits_val w v b1 b2 :
  In (w, v) wv_pairs ->
  val (2 ^ w) (firstn (N.to_nat v) (str_digits w [b1; b2]))
  = (b2n b1 * 256 + b2n b2) / 2 ^ (16 - v * w).
Proof.
  intros Hin.
  assert (F : forallb (fun wv : N * N => let (w, v) := wv in
              forallb (fun b1 => forallb (fun b2 =>
                val (2 ^ w) (firstn (N.to_nat v) (str_digits w [b1; b2]))
                =? (b2n b1 * 256 + b2n b2) / 2 ^ (16 - v * w)) all_bytes) all_bytes) wv_pairs = true)
    by (vm_compute; reflexivity).
  rewrite forallb_forall in F. specialize (F (w, v) Hin). cbn beta iota in F.
  rewrite forallb_forall in F. specialize (F b1 (all_bytes_complete b1)).
  rewrite forallb_forall in F. specialize (F b2 (all_bytes_complete b2)).
  now apply N.eqb_eq.
Qed.
