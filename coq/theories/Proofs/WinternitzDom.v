(* The digit vector of the code: structure, RFC equality, and absence of domination. *)
From HbsLms Require Import Base.Bytes Model.Consts Model.Winternitz Model.Counter Spec.Rfc8554Ots.
From HbsLms Require Import Proofs.CounterProofs Proofs.WinternitzProofs.

Local Open Scope N_scope.

Lemma n2b_mod x : n2b (x mod 256) = n2b x.
Proof. unfold n2b. now rewrite N.mod_mod by lia. Qed.

Lemma land_255 x : N.land x 255 = x mod 256.
Proof. change 255 with (N.ones 8). now rewrite N.land_ones. Qed.

Lemma dn_mul w k : wok w -> N.to_nat ((N.of_nat k * 8) / w) = (k * dn w)%nat.
Proof.
  intros Hw. unfold dn. wcases Hw.
  - change (8 / 1) with 8. lia.
  - change (8 / 2) with 4. lia.
  - change (8 / 4) with 2. lia.
  - change (8 / 8) with 1. lia.
Qed.

Section Digits.
  Variable n : nat.
  Variable prm : otsp.
  Local Notation w := (o_w prm).
  Local Notation p := (o_p prm).
  Local Notation u := (n * dn (o_w prm))%nat.
  Local Notation v := (o_p prm - n * dn (o_w prm))%nat.
  Local Notation M := (2 ^ (o_w prm) - 1).

  (* side conditions on a parameter row, decidable by computation *)
  Definition dom_ok : bool :=
    wok_b w
    && Nat.leb u p
    && existsb (fun wv => (fst wv =? w) && (snd wv =? N.of_nat v)) wv_pairs
    && (o_ls prm + N.of_nat v * w =? 16)
    && (M * N.of_nat u <? 2 ^ (N.of_nat v * w))
    && (N.of_nat (n + 2) * (8 / w) <? 65536).

  Hypothesis OK : dom_ok = true.

  Lemma ok_w : wok w.
  Proof. unfold dom_ok in OK. rewrite !andb_true_iff in OK. apply wok_b_spec. tauto. Qed.
  Lemma ok_up : (u <= p)%nat.
  Proof. unfold dom_ok in OK. rewrite !andb_true_iff in OK. apply Nat.leb_le. tauto. Qed.
  Lemma ok_pair : In (w, N.of_nat v) wv_pairs.
  Proof.
    unfold dom_ok in OK. rewrite !andb_true_iff in OK.
    destruct OK as [[[[[_ _] E] _] _] _]. apply existsb_exists in E.
    destruct E as [[a b] [Hin Hab]]. cbn [fst snd] in Hab. apply andb_true_iff in Hab.
    destruct Hab as [Ha Hb]. apply N.eqb_eq in Ha, Hb. now subst.
  Qed.
  Lemma ok_ls : o_ls prm + N.of_nat v * w = 16.
  Proof. unfold dom_ok in OK. rewrite !andb_true_iff in OK. apply N.eqb_eq. tauto. Qed.
  Lemma ok_fit : M * N.of_nat u < 2 ^ (N.of_nat v * w).
  Proof. unfold dom_ok in OK. rewrite !andb_true_iff in OK. apply N.ltb_lt. tauto. Qed.
  Lemma ok_len : N.of_nat (n + 2) * (8 / w) < 65536.
  Proof. unfold dom_ok in OK. rewrite !andb_true_iff in OK. apply N.ltb_lt. tauto. Qed.

  Lemma v_le : (v <= 2 * dn w)%nat.
  Proof.
    pose proof ok_ls as H. pose proof ok_w as Hw. unfold dn in *.
    remember (o_p prm - n * N.to_nat (8 / o_w prm))%nat as vv eqn:Evv. clear Evv.
    assert (Hv : N.of_nat vv * w <= 16) by (remember (N.of_nat vv * w) as x; lia). clear H.
    wcases Hw.
    - change (8 / 1) with 8. lia.
    - change (8 / 2) with 4. lia.
    - change (8 / 4) with 2. lia.
    - change (8 / 8) with 1. lia.
  Qed.

  Definition cks_bytes (Q : bytes) : bytes :=
    let c := checksum n prm Q in [n2b (N.land (N.shiftr c 8) 255); n2b (N.land c 255)].

  (* structure: message digits followed by the first v checksum digits *)
  Lemma digits_split Q :
    length Q = n ->
    digits n prm Q = str_digits w Q ++ firstn v (str_digits w (cks_bytes Q)).
  Proof.
    intros Hl. pose proof ok_w as Hw. pose proof ok_up as Hup. pose proof v_le as Hv.
    destruct (dn_pos w Hw) as [Hp Hd].
    unfold digits. fold w p. unfold append_checksum. fold (cks_bytes Q).
    set (S' := Q ++ cks_bytes Q).
    assert (HlS : length S' = (n + 2)%nat) by (unfold S', cks_bytes; rewrite app_length, Hl; reflexivity).
    rewrite (map_nrange_firstn _ p (length S' * dn w)) by (rewrite HlS; fold u v in *; nia).
    rewrite map_coef_str by (try assumption; rewrite HlS; apply ok_len).
    unfold S'. rewrite str_digits_app.
    rewrite firstn_app, str_digits_length, Hl.
    rewrite firstn_all2 by (rewrite str_digits_length, Hl; exact Hup). reflexivity.
  Qed.

  Lemma cksm_sum_spec Q :
    length Q = n ->
    cksm_sum n w Q = sumN (map (fun d => M - d) (str_digits w Q)).
  Proof.
    intros Hl. pose proof ok_w as Hw. unfold cksm_sum.
    rewrite dn_mul by assumption. rewrite fold_add_sum, N.add_0_l. f_equal.
    rewrite <- (map_coef_str w Q), Hl, map_map by
        (try assumption; rewrite Hl; pose proof ok_len; destruct (dn_pos w Hw); nia).
    apply map_ext. intros i. now rewrite coef_mask_spec.
  Qed.

  Lemma cksm_sum_digits Q :
    length Q = n ->
    cksm_sum n w Q + sumN (str_digits w Q) = M * N.of_nat u.
  Proof.
    intros Hl. rewrite cksm_sum_spec by assumption.
    rewrite sum_defect by apply str_digits_bound.
    now rewrite str_digits_length, Hl.
  Qed.

  (* the 16-bit checksum value: nothing is shifted out *)
  Lemma checksum_exact Q :
    length Q = n ->
    checksum n prm Q = cksm_sum n w Q * 2 ^ o_ls prm /\ checksum n prm Q < 65536.
  Proof.
    intros Hl. pose proof (cksm_sum_digits Q Hl) as Hs. pose proof ok_fit as Hf. pose proof ok_ls as Hls.
    unfold checksum. fold w.
    assert (Hlt : cksm_sum n w Q * 2 ^ o_ls prm < 65536).
    { change 65536 with (2 ^ 16). rewrite <- Hls. rewrite N.pow_add_r.
      pose proof (pow2_pos (o_ls prm)). fold w in Hls. nia. }
    rewrite N.mod_small by assumption. split; [reflexivity|assumption].
  Qed.

  Lemma cks_bytes_value Q :
    length Q = n ->
    match cks_bytes Q with
    | [b1; b2] => b2n b1 * 256 + b2n b2 = checksum n prm Q
    | _ => False
    end.
  Proof.
    intros Hl. destruct (checksum_exact Q Hl) as [_ Hlt]. unfold cks_bytes.
    rewrite !b2n_n2b, !land_255, shiftr_pow2. change (2 ^ 8) with 256.
    set (c := checksum n prm Q) in *. lia.
  Qed.

  (* the checksum digits, read in base 2^w, are the checksum sum itself *)
  Lemma checksum_digits_encode_sum Q :
    length Q = n ->
    val (2 ^ w) (firstn v (str_digits w (cks_bytes Q))) = cksm_sum n w Q.
  Proof.
    intros Hl. pose proof (cks_bytes_value Q Hl) as Hv.
    destruct (cks_bytes Q) as [|b1 [|b2 [|? ?]]] eqn:E; try contradiction.
    rewrite <- (Nat2N.id v). rewrite checksum_digits_val by apply ok_pair.
    rewrite Hv. destruct (checksum_exact Q Hl) as [-> _]. fold w.
    pose proof ok_ls as Hls. fold w in Hls.
    replace (16 - N.of_nat v * w) with (o_ls prm) by lia.
    apply N.div_mul. apply N.pow_nonzero. lia.
  Qed.

  (* no digest's digit vector is component-wise >= that of a different digest *)
  Theorem no_domination Q1 Q2 :
    length Q1 = n -> length Q2 = n ->
    Forall2 N.le (digits n prm Q1) (digits n prm Q2) -> Q1 = Q2.
  Proof.
    intros H1 H2 F. pose proof ok_w as Hw.
    rewrite !digits_split in F by assumption.
    apply Forall2_app_split in F; [|now rewrite !str_digits_length, H1, H2].
    destruct F as [Fm Fc].
    pose proof (Forall2_le_sum _ _ Fm) as Hsum.
    apply (val_mono (2 ^ w)) in Fc.
    rewrite !checksum_digits_encode_sum in Fc by assumption.
    pose proof (cksm_sum_digits Q1 H1) as E1. pose proof (cksm_sum_digits Q2 H2) as E2.
    assert (Es : sumN (str_digits w Q1) = sumN (str_digits w Q2)) by lia.
    apply (str_digits_inj w); [assumption|congruence|].
    now apply Forall2_le_sum_eq.
  Qed.

  (* ---------------------------------------------------------------- RFC equality *)

  Lemma fold_rfc_sum Q k :
    N.of_nat k < 65536 ->
    fold_left (fun acc i => acc + (coef_mask w - coef Q i w)) (nrange k) 0 = rfc_sum Q w k.
  Proof.
    pose proof ok_w as Hw. induction k as [|k IH]; intros Hk; [reflexivity|].
    replace (S k) with (k + 1)%nat by lia. rewrite nrange_app, fold_left_app, IH by lia.
    cbn [nrange seq map fold_left]. rewrite N.add_0_r.
    replace (k + 1)%nat with (S k) by lia. cbn [rfc_sum].
    rewrite coef_mask_spec, coef_rfc by (assumption || lia). reflexivity.
  Qed.

  Lemma checksum_rfc Q :
    checksum n prm Q = rfc_cksm (N.of_nat n) w (o_ls prm) Q.
  Proof.
    pose proof ok_w as Hw. pose proof ok_len as Hlen. destruct (dn_pos w Hw) as [_ Hd].
    unfold checksum, rfc_cksm, cksm_sum. fold w.
    rewrite N.shiftl_mul_pow2. rewrite fold_rfc_sum; [reflexivity|].
    rewrite dn_mul by assumption. nia.
  Qed.

  Lemma be2_spec c : be 2 c = [n2b (N.land (N.shiftr c 8) 255); n2b (N.land c 255)].
  Proof.
    cbn [be app]. rewrite !land_255, !n2b_mod, shiftr_pow2. reflexivity.
  Qed.

  Theorem digits_rfc Q :
    digits n prm Q = rfc_digits (N.of_nat n) w (o_ls prm) (N.of_nat p) Q.
  Proof.
    pose proof ok_w as Hw. pose proof ok_len as Hlen. pose proof ok_up. pose proof v_le.
    destruct (dn_pos w Hw) as [_ Hd].
    unfold digits, rfc_digits, append_checksum. fold w p.
    rewrite <- checksum_rfc, be2_spec, Nat2N.id. unfold nrange. rewrite map_map.
    apply map_ext_in. intros i Hi. apply in_seq in Hi.
    apply coef_rfc; [assumption|]. fold u v in *. nia.
  Qed.
End Digits.

(* boolean pointwise comparison, to exhibit concrete domination pairs by computation *)
Fixpoint le_all_b (a b : list N) : bool :=
  match a, b with
  | [], [] => true
  | x :: a', y :: b' => (x <=? y) && le_all_b a' b'
  | _, _ => false
  end.

Lemma le_all_b_spec a b : le_all_b a b = true -> Forall2 N.le a b.
Proof.
  revert b; induction a as [|x a IH]; intros [|y b]; cbn; try discriminate; [constructor|].
  rewrite andb_true_iff, N.leb_le. intros [H1 H2]. constructor; [assumption|now apply IH].
Qed.

(* a digest pair witnessing domination for a parameter row whose shift drops checksum bits *)
Definition dom_witness (n : nat) : bytes * bytes :=
  (repeat xff n, repeat xff (n - 1) ++ [xfe]).

Definition dominated_b (n : nat) (prm : otsp) : bool :=
  let (Q1, Q2) := dom_witness n in
  negb (bytes_eqb Q1 Q2) && Nat.eqb (length Q1) n && Nat.eqb (length Q2) n
  && le_all_b (digits n prm Q2) (digits n prm Q1).

Lemma dominated_b_spec n prm :
  dominated_b n prm = true ->
  exists Q1 Q2, Q1 <> Q2 /\ length Q1 = n /\ length Q2 = n /\
                Forall2 N.le (digits n prm Q2) (digits n prm Q1).
Proof.
  unfold dominated_b. destruct (dom_witness n) as [Q1 Q2].
  rewrite !andb_true_iff, negb_true_iff, !Nat.eqb_eq. intros [[[Hne H1] H2] Hle].
  exists Q1, Q2. repeat split; try assumption.
  - intros E. apply bytes_eqb_eq in E. congruence.
  - now apply le_all_b_spec.
Qed.
