(* C07, "every length equals the RFC formula": the length of a released HSS signature and of the
   public key, for every hash with n-byte output, every parameter list and every counter. *)
From HbsLms Require Import Base.Bytes Model.Consts Model.Winternitz Model.Lmots Model.Lms
     Model.Derive Model.Counter Model.KeyBlob Model.Codec Model.Hss.
From HbsLms Require Import Proofs.CounterProofs Proofs.WinternitzProofs Proofs.CompleteProofs
     Proofs.CodecProofs Proofs.HssComplete.

Local Open Scope N_scope.

Lemma Ok_inj' {A} (a b : A) : Ok a = Ok b -> a = b.
Proof. intros E. now injection E. Qed.

Section Lengths.
  Variable K : consts.
  Variable n : nat.
  Variable H : bytes -> bytes.
  Hypothesis H_len : forall x, length (H x) = n.
  Hypothesis ilen_le : (c_ilen K <= n)%nat.
  Hypothesis levels_small : N.of_nat (c_max_levels K) < 4294967296.

  (* RFC 8554: an LM-OTS signature is 4 + n * (p + 1) bytes (4.5), an LMS signature
     12 + n * (p + 1) + n * h bytes (5.4), an LMS public key 24 + n bytes (5.3) *)
  Definition lms_sig_len (p : param) : nat := (12 + n * (o_p (fst p) + 1) + n * l_h (snd p))%nat.
  Definition lms_pk_len : nat := (8 + c_ilen K + n)%nat.

  Lemma lms_sign_bytes_length I seed (p : param) q C msg :
    length C = n ->
    length (lms_sign_bytes K n H I seed (fst p) (snd p) q C msg) = lms_sig_len p.
  Proof.
    intros LC. unfold lms_sign_bytes, ots_sig_bytes, lms_sig_len.
    rewrite !app_length, !be_length, LC.
    assert (S1 : Forall (fun y => length y = n) (ots_sign_ys K n H I q seed (fst p) C msg))
      by (eapply ots_sign_ys_sizes; eassumption).
    assert (S2 : Forall (fun y => length y = n) (auth_path K n H I seed (fst p) (snd p) q))
      by (eapply auth_path_sizes; eassumption).
    assert (L1 : length (ots_sign_ys K n H I q seed (fst p) C msg) = o_p (fst p))
      by (eapply ots_sign_ys_length; eassumption).
    assert (L2 : length (auth_path K n H I seed (fst p) (snd p) q) = l_h (snd p))
      by (eapply auth_path_length; eassumption).
    rewrite (concat_length_const n _ S1), (concat_length_const n _ S2), L1, L2.
    lia.
  Qed.

  Lemma tree_pk_length (p : param) seed I : length I = c_ilen K -> length (tree_pk K n H p seed I) = lms_pk_len.
  Proof.
    intros LI. unfold tree_pk, lms_pk_bytes, lms_root, lms_pk_len.
    assert (T : length (tree K n H (l_h (snd p)) I seed (fst p) (l_h (snd p)) 1) = n) by (eapply tree_length; eassumption).
    rewrite !app_length, !be_length, LI, T. lia.
  Qed.

  (* the signed public keys written while walking down the levels *)
  Lemma expand_lengths below : forall seed I p q spks bottom,
    length I = c_ilen K ->
    expand K n H seed I p q below = (spks, bottom) ->
    map (@length byte) spks = map (fun pp => (lms_sig_len pp + lms_pk_len)%nat) (removelast (p :: map fst below))
    /\ length (snd (fst (fst bottom))) = c_ilen K
    /\ forall d, snd (fst bottom) = last (p :: map fst below) d.
  Proof.
    induction below as [|[p' q'] below IH]; intros seed I p q spks bottom LI E.
    - cbn [expand] in E. apply pair_equal_spec in E. destruct E as [<- <-]. cbn. auto.
    - rewrite (expand_cons K n H) in E.
      assert (HcI : length (snd (child_seed_I K H seed I q)) = c_ilen K) by (eapply child_I_length; eassumption).
      destruct (child_seed_I K H seed I q) as [cseed cI] eqn:EC. cbn [snd] in HcI.
      destruct (expand K n H cseed cI p' q' below) as [spks' bottom'] eqn:EE.
      apply pair_equal_spec in E. destruct E as [<- <-].
      destruct (IH cseed cI p' q' spks' bottom' HcI EE) as [A [B C]].
      split; [|split; [exact B|]].
      + cbn [map]. change (removelast (p :: map fst ((p', q') :: below)))
          with (p :: removelast (p' :: map fst below)).
        cbn [map]. rewrite A. f_equal.
        rewrite app_length, lms_sign_bytes_length by (eapply randomizer_length; eassumption).
        now rewrite tree_pk_length.
      + intros d. rewrite (C d). reflexivity.
  Qed.

  Definition sumnat (l : list nat) : nat := fold_right Nat.add 0%nat l.

  Lemma concat_length_sum (xs : list bytes) : length (concat xs) = sumnat (map (@length byte) xs).
  Proof. induction xs as [|x xs IH]; cbn; [reflexivity|]. now rewrite app_length, IH. Qed.

  (* the released signature: u32(L-1), then for every level but the last an LMS signature and an LMS
     public key, then the LMS signature of the message *)
  Theorem hss_signature_length ps seed c msg sig :
    hss_signature K n H ps seed c msg = Ok sig ->
    length sig = (4 + sumnat (map (fun pp => (lms_sig_len pp + lms_pk_len)%nat) (removelast ps))
                  + lms_sig_len (last ps (hd ({| o_type := 0; o_w := 0; o_p := 0; o_ls := 0 |}, {| l_type := 0; l_h := 0 |}) ps)))%nat.
  Proof.
    unfold hss_signature.
    destruct ps as [|p0 ps']; [discriminate|].
    pose proof (leaf_digits_length (heights_of (p0 :: ps')) c) as Ld.
    destruct (leaf_digits (heights_of (p0 :: ps')) c) as [|q0 qs] eqn:ED;
      [unfold heights_of in Ld; rewrite map_length in Ld; cbn in Ld; discriminate|].
    unfold heights_of in Ld. rewrite map_length in Ld. cbn [length] in Ld.
    cbn [combine].
    assert (LI : length (snd (root_seed_I K H seed)) = c_ilen K) by (eapply root_I_length; eassumption).
    destruct (root_seed_I K H seed) as [s0 I0]. cbn [snd] in LI.
    destruct (expand K n H s0 I0 p0 q0 (combine ps' qs)) as [spks [[[bseed bI] bp] bq]] eqn:EE.
    intros E. apply Ok_inj' in E. subst sig.
    destruct (expand_lengths _ _ _ _ _ _ _ LI EE) as [A [B C]]. cbn [fst snd] in B, C.
    assert (Lq : length qs = length ps') by lia.
    assert (EM : map fst (combine ps' qs) = ps').
    { clear -Lq. revert qs Lq; induction ps' as [|p ps IH]; intros [|q qs] L; cbn in *; try discriminate; [reflexivity|].
      f_equal. apply IH. lia. }
    rewrite EM in A, C.
    rewrite !app_length, be_length, concat_length_sum, A.
    rewrite lms_sign_bytes_length by (eapply randomizer_length; eassumption).
    rewrite (C (hd ({| o_type := 0; o_w := 0; o_p := 0; o_ls := 0 |}, {| l_type := 0; l_h := 0 |}) (p0 :: ps'))). reflexivity.
  Qed.

  Theorem hss_public_key_length ps seed pk :
    hss_public_key K n H ps seed = Ok pk -> length pk = (4 + lms_pk_len)%nat.
  Proof.
    unfold hss_public_key. destruct ps as [|p0 ps']; [discriminate|].
    assert (LI : length (snd (root_seed_I K H seed)) = c_ilen K) by (eapply root_I_length; eassumption).
    destruct (root_seed_I K H seed) as [s0 I0]. cbn [snd] in LI.
    intros E. apply Ok_inj' in E. subst pk.
    rewrite app_length, be_length, tree_pk_length by assumption. reflexivity.
  Qed.
End Lengths.
