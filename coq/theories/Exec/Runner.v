(* Evaluates the model on the cases recorded from the implementation and compares.
   The driver writes cases_<k>.v files that apply [run_cases] to a literal case list. *)
From HbsLms Require Import Base.Bytes Model.Consts Model.Winternitz Model.Counter Model.KeyBlob.
From HbsLms Require Import Model.Lmots Model.Lms Model.Derive Model.Codec Model.Hss Model.SignCore Model.Aux Model.FastVerify.
From HbsLms Require Import Gen.Generated Exec.Sha256 Exec.Toy Spec.Rfc8554Ots Spec.Rfc8554.

Local Open Scope N_scope.

Definition res_eqb {A} (eqb : A -> A -> bool) (a b : res A) : bool :=
  match a, b with
  | Ok x, Ok y => eqb x y
  | Err, Err => true
  | Panic, Panic => true
  | _, _ => false
  end.

Fixpoint list_eqb {A} (eqb : A -> A -> bool) (a b : list A) : bool :=
  match a, b with
  | [], [] => true
  | x :: a', y :: b' => eqb x y && list_eqb eqb a' b'
  | _, _ => false
  end.

Definition opt_res {A} (o : option A) : res A := of_option o.

Inductive case :=
| COtsParam (n : nat) (ty : N) (expect : res (list N))
| CCoefs (s : bytes) (w : N) (expect : res bytes)
| CDigits (n : nat) (ty : N) (q : bytes) (expect : res bytes)
| CCounter (n : nat) (blob : bytes) (digits : res (list N)) (next : res bytes) (life : res N)
(* variants = enum discriminants of (LmotsAlgorithm, LmsAlgorithm) per level *)
| CKeygen (n : nat) (variants : list (N * N)) (seed : bytes) (sk pk : res bytes)
| CSign (n : nat) (blob msg : bytes) (accept : bool) (sig : res bytes) (calls : list (bytes * bool))
| CVerify (n : nat) (msg sig pk : bytes) (verdict : res unit)
| CLifetime (n : nat) (blob : bytes) (life : res N)
| CHash (n : nat) (data out : bytes)
(* sign_mut: message before / after, signature, callback record, reported hash_iterations *)
| CSignMut (n : nat) (blob msg_in msg_out pk : bytes) (accept : bool) (sig : res bytes) (calls : list (bytes * bool)) (iters : N)
| CKeygenAux (n : nat) (variants : list (N * N)) (seed aux_in : bytes) (sk pk : res bytes) (aux_out : bytes)
| CSignAux (n : nat) (blob msg aux_in : bytes) (accept : bool) (sig : res bytes) (calls : list (bytes * bool)) (aux_out : bytes)
(* SigningKey::from_bytes(blob).try_sign(msg): signature and the key bytes afterwards *)
| CTrySign (n : nat) (blob msg : bytes) (sig after : res bytes)
| COtsPub (n : nat) (I : bytes) (q : N) (seed : bytes) (ty : N) (out : res bytes)
| COtsSign (n : nat) (I : bytes) (q : N) (seed : bytes) (ty : N) (C msg : bytes) (out : res bytes).

Section WithK.
Variable K : consts.
(* the hash family the cases were recorded with: output length -> function
   ([sha256_n] for the library's SHA-256 hashers, [toy_n] for the harness's toy hasher) *)
Variable Hf : nat -> bytes -> bytes.

Definition model_ots_param (n : nat) (ty : N) : res (list N) :=
  match ots_of_type K n ty with
  | Some p => Ok [o_type p; o_w p; N.of_nat (o_p p); o_ls p; N.of_nat n]
  | None => Err
  end.

Definition model_coefs (s : bytes) (w : N) : res bytes :=
  Ok (map (fun i => n2b (coef s i w)) (nrange (Nat.div (length s * 8) (N.to_nat w)))).

Definition model_digits (n : nat) (ty : N) (q : bytes) : res bytes :=
  match ots_of_type K n ty with
  | Some p => Ok (map n2b (digits n p q))
  | None => Err
  end.

Definition Hn (n : nat) : bytes -> bytes := Hf n.

Fixpoint params_of_variants (n : nat) (vs : list (N * N)) : option (list (otsp * lmsp)) :=
  match vs with
  | [] => Some []
  | (ov, lv) :: r =>
    match ots_construct K n ov, lms_construct K lv, params_of_variants n r with
    | Some o, Some l, Some rest => Some ((o, l) :: rest)
    | _, _, _ => None
    end
  end.

Definition model_keygen (n : nat) (vs : list (N * N)) (seed : bytes) : res (bytes * bytes) :=
  match params_of_variants n vs with
  | Some ps => keygen K n (Hn n) ps seed
  | None => Panic   (* HssParameter::new panics on a reserved variant; never generated *)
  end.

Definition fst_res {A B} (r : res (A * B)) : res A :=
  match r with Ok (a, _) => Ok a | Err => Err | Panic => Panic end.
Definition snd_res {A B} (r : res (A * B)) : res B :=
  match r with Ok (_, b) => Ok b | Err => Err | Panic => Panic end.

Definition calls_eqb (a b : list (bytes * bool)) : bool :=
  list_eqb (fun x y => bytes_eqb (fst x) (fst y) && Bool.eqb (snd x) (snd y)) a b.

Definition model_ots_pub (n : nat) (I : bytes) (q : N) (seed : bytes) (ty : N) : res bytes :=
  match ots_of_type K n ty with
  | Some p => Ok (ots_pub K n (Hn n) I q seed p)
  | None => Err
  end.

Definition model_ots_sign (n : nat) (I : bytes) (q : N) (seed : bytes) (ty : N) (C msg : bytes) : res bytes :=
  match ots_of_type K n ty with
  | Some p => Ok (ots_sig_bytes p C (ots_sign_ys K n (Hn n) I q seed p C msg))
  | None => Err
  end.

Definition model_keygen_aux (n : nat) (vs : list (N * N)) (seed aux : bytes) : res (bytes * bytes * bytes) :=
  match params_of_variants n vs with
  | Some ps => keygen_aux K n (Hn n) ps seed aux
  | None => Panic
  end.

(* on an error the caller's slice may already have been shrunk; the harness reports it as it finds it *)
Definition keygen_aux_ok (n : nat) (vs : list (N * N)) (seed aux_in : bytes) (sk pk : res bytes) (aux_out : bytes) : bool :=
  match model_keygen_aux n vs seed aux_in with
  | Ok (s, p, a) => res_eqb bytes_eqb (Ok s) sk && res_eqb bytes_eqb (Ok p) pk && bytes_eqb a aux_out
  | Err => res_eqb bytes_eqb Err sk && res_eqb bytes_eqb Err pk
  | Panic => res_eqb bytes_eqb Panic sk
  end.

(* SigningKey::from_bytes refuses more than REF_IMPL_MAX_PRIVATE_KEY_SIZE bytes *)
Definition model_try_sign (n : nat) (blob msg : bytes) : res bytes * res bytes :=
  if Nat.ltb (c_used_leafs_size K + c_ref_levels K + c_max_seed_len K) (length blob) then (Err, Err)
  else let (r, k) := signing_key_try_sign K n (Hn n) blob msg in (r, Ok k).

(* what the model says for a case, rendered for replay files *)
Inductive shown :=
| SBytes (r : res String.string)
| SNums (r : res (list N))
| SCounter (d : res (list N)) (nx : res String.string) (l : res N)
| SSign (r : res String.string) (calls : list (String.string * bool))
| SVerdict (r : res unit)
| SNum (r : res N)
| SPair (a b : res String.string).

Definition hexr (r : res bytes) : res String.string :=
  match r with Ok b => Ok (hex b) | Err => Err | Panic => Panic end.

Definition model_of (c : case) : shown :=
  match c with
  | COtsParam n ty _ => SNums (model_ots_param n ty)
  | CCoefs s w _ => SBytes (hexr (model_coefs s w))
  | CDigits n ty q _ => SBytes (hexr (model_digits n ty q))
  | CCounter n blob _ _ _ =>
    SCounter (hook_leaf_digits K n blob) (hexr (hook_increment K n blob)) (hook_lifetime K n blob)
  | CKeygen n vs seed _ _ =>
    let r := model_keygen n vs seed in SPair (hexr (fst_res r)) (hexr (snd_res r))
  | CSign n blob msg acc _ _ =>
    let (r, cs) := sign_core K n (Hn n) blob msg (fun _ => acc) in
    SSign (hexr r) (map (fun c => (hex (fst c), snd c)) cs)
  | CVerify n msg sig pk _ => SVerdict (hss_verify K n (Hn n) msg sig pk)
  | CLifetime n blob _ => SNum (get_lifetime K n blob)
  | CHash n data _ => SBytes (Ok (hex (Hn n data)))
  | CSignMut n blob msg_in msg_out _ acc _ _ _ =>
    let '(r, cs, m) := sign_mut K n (Hn n) blob msg_in (skipn (length msg_out - n) msg_out) (fun _ => acc) in
    SSign (hexr r) (map (fun c => (hex (fst c), snd c)) cs ++ [(hex m, true)])
  | CKeygenAux n vs seed aux _ _ _ =>
    match model_keygen_aux n vs seed aux with
    | Ok (s, p, a) => SSign (Ok (hex s)) [(hex p, true); (hex a, true)]
    | Err => SSign Err [] | Panic => SSign Panic []
    end
  | CSignAux n blob msg aux acc _ _ _ =>
    let '(r, cs, a) := sign_core_aux K n (Hn n) blob msg aux (fun _ => acc) in
    SSign (hexr r) (map (fun c => (hex (fst c), snd c)) cs ++ [(hex a, true)])
  | CTrySign n blob msg _ _ =>
    let r := model_try_sign n blob msg in SPair (hexr (fst r)) (hexr (snd r))
  | COtsPub n tid q seed ty _ => SBytes (hexr (model_ots_pub n tid q seed ty))
  | COtsSign n tid q seed ty C msg _ => SBytes (hexr (model_ots_sign n tid q seed ty C msg))
  end.

Definition run_case (c : case) : bool :=
  match c with
  | COtsParam n ty e => res_eqb (list_eqb N.eqb) (model_ots_param n ty) e
  | CCoefs s w e => res_eqb bytes_eqb (model_coefs s w) e
  | CDigits n ty q e => res_eqb bytes_eqb (model_digits n ty q) e
  | CCounter n blob d nx l =>
    res_eqb (list_eqb N.eqb) (hook_leaf_digits K n blob) d
    && res_eqb bytes_eqb (hook_increment K n blob) nx
    && res_eqb N.eqb (hook_lifetime K n blob) l
  | CKeygen n vs seed sk pk =>
    let r := model_keygen n vs seed in
    res_eqb bytes_eqb (fst_res r) sk && res_eqb bytes_eqb (snd_res r) pk
  | CSign n blob msg acc sig calls =>
    let (r, cs) := sign_core K n (Hn n) blob msg (fun _ => acc) in
    res_eqb bytes_eqb r sig && calls_eqb cs calls
  | CVerify n msg sig pk v => res_eqb (fun _ _ => true) (hss_verify K n (Hn n) msg sig pk) v
  | CLifetime n blob l => res_eqb N.eqb (get_lifetime K n blob) l
  | CHash n data out => bytes_eqb (Hn n data) out
  | CSignMut n blob msg_in msg_out pk acc sig calls iters =>
    let '(r, cs, m) := sign_mut K n (Hn n) blob msg_in (skipn (length msg_out - n) msg_out) (fun _ => acc) in
    res_eqb bytes_eqb r sig && calls_eqb cs calls && bytes_eqb m msg_out
    && match sig with
       | Ok s => res_eqb N.eqb (sig_hash_iterations K n (Hn n) msg_out s pk) (Ok iters)
       | _ => true
       end
  | CKeygenAux n vs seed aux sk pk aux_out => keygen_aux_ok n vs seed aux sk pk aux_out
  | CSignAux n blob msg aux acc sig calls aux_out =>
    let '(r, cs, a) := sign_core_aux K n (Hn n) blob msg aux (fun _ => acc) in
    res_eqb bytes_eqb r sig && calls_eqb cs calls && bytes_eqb a aux_out
  | CTrySign n blob msg sig after =>
    let r := model_try_sign n blob msg in
    res_eqb bytes_eqb (fst r) sig && res_eqb bytes_eqb (snd r) after
  | COtsPub n tid q seed ty out => res_eqb bytes_eqb (model_ots_pub n tid q seed ty) out
  | COtsSign n tid q seed ty C msg out => res_eqb bytes_eqb (model_ots_sign n tid q seed ty C msg) out
  end.

(* ids of the cases on which model and implementation differ *)
Definition run_cases (cs : list (N * case)) : list N :=
  map fst (filter (fun ic => negb (run_case (snd ic))) cs).

Definition show_cases (ids : list N) (cs : list (N * case)) : list (N * shown) :=
  map (fun ic => (fst ic, model_of (snd ic)))
      (filter (fun ic => existsb (N.eqb (fst ic)) ids) cs).

(* ---------------------------------------------------------------- RFC 8554 as the judge (C02, C07)

   The independent transcription of RFC 8554 section 6.3 is evaluated on the same (message,
   signature, public key) triples; its verdict must equal the implementation's.  The LMS table is
   the RFC's Table 2 plus the 4-leaf test height (typecode 1) that the verification hook enables. *)
Definition ext_lms_tbl (code : N) : option N :=
  match code with 1 => Some 2 | _ => rfc_lms_tbl code end.

Definition rfc_verdict (n : nat) (msg sig pk : bytes) : bool :=
  hss_verify_rfc n (Hn n) (rfc_ots_tbl n) ext_lms_tbl (N.of_nat (c_max_levels K)) msg sig pk.

Definition rfc_case (c : case) : bool :=
  match c with
  | CVerify n msg sig pk v => Bool.eqb (rfc_verdict n msg sig pk) (match v with Ok _ => true | _ => false end)
  | _ => true
  end.

Definition run_rfc (cs : list (N * case)) : list N :=
  map fst (filter (fun ic => negb (rfc_case (snd ic))) cs).
End WithK.
