(* Evaluates the model on the cases recorded from the implementation and compares.
   The driver writes cases_<k>.v files that apply [run_cases] to a literal case list. *)
From HbsLms Require Import Base.Bytes Model.Consts Model.Winternitz Model.Counter Model.KeyBlob.
From HbsLms Require Import Gen.Generated Exec.Sha256.

Local Open Scope N_scope.

Definition res_eqb {A} (eqb : A -> A -> bool) (a b : res A) : bool :=
  match a, b with
  | Ok x, Ok y => eqb x y
  | Err, Err => true
  | Panic, Panic => true
  | _, _ => false
  end.

Fixpoint list_eqb {A} (eqb : A -> A -> bool) (a b : list A) : bool :=
  match a, b with
  | [], [] => true
  | x :: a', y :: b' => eqb x y && list_eqb eqb a' b'
  | _, _ => false
  end.

Definition opt_res {A} (o : option A) : res A := of_option o.

Inductive case :=
| COtsParam (n : nat) (ty : N) (expect : res (list N))
| CCoefs (s : bytes) (w : N) (expect : res bytes)
| CDigits (n : nat) (ty : N) (q : bytes) (expect : res bytes)
| CCounter (n : nat) (blob : bytes) (digits : res (list N)) (next : res bytes) (life : res N).

Definition K := K_src.

Definition model_ots_param (n : nat) (ty : N) : res (list N) :=
  match ots_of_type K n ty with
  | Some p => Ok [o_type p; o_w p; N.of_nat (o_p p); o_ls p; N.of_nat n]
  | None => Err
  end.

Definition model_coefs (s : bytes) (w : N) : res bytes :=
  Ok (map (fun i => n2b (coef s i w)) (nrange (Nat.div (length s * 8) (N.to_nat w)))).

Definition model_digits (n : nat) (ty : N) (q : bytes) : res bytes :=
  match ots_of_type K n ty with
  | Some p => Ok (map n2b (digits n p q))
  | None => Err
  end.

(* what the model says for a case, rendered for replay files *)
Inductive shown :=
| SBytes (r : res String.string)
| SNums (r : res (list N))
| SCounter (d : res (list N)) (nx : res String.string) (l : res N).

Definition hexr (r : res bytes) : res String.string :=
  match r with Ok b => Ok (hex b) | Err => Err | Panic => Panic end.

Definition model_of (c : case) : shown :=
  match c with
  | COtsParam n ty _ => SNums (model_ots_param n ty)
  | CCoefs s w _ => SBytes (hexr (model_coefs s w))
  | CDigits n ty q _ => SBytes (hexr (model_digits n ty q))
  | CCounter n blob _ _ _ =>
    SCounter (hook_leaf_digits K n blob) (hexr (hook_increment K n blob)) (hook_lifetime K n blob)
  end.

Definition run_case (c : case) : bool :=
  match c with
  | COtsParam n ty e => res_eqb (list_eqb N.eqb) (model_ots_param n ty) e
  | CCoefs s w e => res_eqb bytes_eqb (model_coefs s w) e
  | CDigits n ty q e => res_eqb bytes_eqb (model_digits n ty q) e
  | CCounter n blob d nx l =>
    res_eqb (list_eqb N.eqb) (hook_leaf_digits K n blob) d
    && res_eqb bytes_eqb (hook_increment K n blob) nx
    && res_eqb N.eqb (hook_lifetime K n blob) l
  end.

(* ids of the cases on which model and implementation differ *)
Definition run_cases (cs : list (N * case)) : list N :=
  map fst (filter (fun ic => negb (run_case (snd ic))) cs).

Definition show_cases (ids : list N) (cs : list (N * case)) : list (N * shown) :=
  map (fun ic => (fst ic, model_of (snd ic)))
      (filter (fun ic => existsb (N.eqb (fst ic)) ids) cs).
