(* A toy "hash" (FNV-1a style, 32-bit state) used ONLY to run the model and the implementation on
   shapes that are too costly with SHA-256 inside Coq (trees of height 10 and 15, long histories,
   deep aux caches).  The library is generic in its hasher ([HashChain]); the harness defines the
   same function in Rust (harness/src/toy.rs).  No theorem mentions it: the theorems hold for
   every function with n-byte output, this one included. *)
From Coq Require Import Uint63.
From HbsLms Require Import Base.Bytes Exec.Sha256.

Local Open Scope uint63_scope.

Definition toy_prime : int := 0x01000193.
Definition toy_basis : int := 0x811c9dc5.

Fixpoint toy_absorb (h : int) (l : bytes) : int :=
  match l with
  | [] => h
  | b :: r => toy_absorb (((h lxor byte_int b) * toy_prime) land m32) r
  end.

(* squeeze k words of 4 bytes *)
Fixpoint toy_squeeze (k : nat) (i h : int) : bytes :=
  match k with
  | O => []
  | S k' =>
    let h1 := ((h lxor (i + 0x9e)) * toy_prime) land m32 in
    let h2 := h1 lxor (h1 >> 15) in
    int_byte (h2 >> 24) :: int_byte (h2 >> 16) :: int_byte (h2 >> 8) :: int_byte h2 :: toy_squeeze k' (i + 1) h2
  end.

Definition toy32 (l : bytes) : bytes := toy_squeeze 8 0 (toy_absorb toy_basis l).
Definition toy_n (n : nat) (l : bytes) : bytes := firstn n (toy32 l).
