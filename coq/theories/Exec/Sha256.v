(* Executable SHA-256 (FIPS 180-4) on primitive 63-bit integers.
   Used only to *run* the model in the correspondence check and for the
   RFC 8554 known-answer tests; no theorem mentions it. *)
From Coq Require Import Uint63.
From HbsLms Require Import Base.Bytes.

Local Open Scope uint63_scope.

Definition m32 : int := 0xFFFFFFFF.
Definition add32 (a b : int) : int := (a + b) land m32.
Definition rotr (x : int) (k : int) : int := ((x >> k) lor (x << (32 - k))) land m32.
Definition shr (x : int) (k : int) : int := x >> k.
Definition not32 (x : int) : int := x lxor m32.

Definition Ch x y z := (x land y) lxor ((not32 x) land z).
Definition Maj x y z := (x land y) lxor (x land z) lxor (y land z).
Definition bsig0 x := rotr x 2 lxor rotr x 13 lxor rotr x 22.
Definition bsig1 x := rotr x 6 lxor rotr x 11 lxor rotr x 25.
Definition ssig0 x := rotr x 7 lxor rotr x 18 lxor shr x 3.
Definition ssig1 x := rotr x 17 lxor rotr x 19 lxor shr x 10.

Definition Ks : list int :=
  [0x428a2f98; 0x71374491; 0xb5c0fbcf; 0xe9b5dba5; 0x3956c25b; 0x59f111f1; 0x923f82a4; 0xab1c5ed5;
   0xd807aa98; 0x12835b01; 0x243185be; 0x550c7dc3; 0x72be5d74; 0x80deb1fe; 0x9bdc06a7; 0xc19bf174;
   0xe49b69c1; 0xefbe4786; 0x0fc19dc6; 0x240ca1cc; 0x2de92c6f; 0x4a7484aa; 0x5cb0a9dc; 0x76f988da;
   0x983e5152; 0xa831c66d; 0xb00327c8; 0xbf597fc7; 0xc6e00bf3; 0xd5a79147; 0x06ca6351; 0x14292967;
   0x27b70a85; 0x2e1b2138; 0x4d2c6dfc; 0x53380d13; 0x650a7354; 0x766a0abb; 0x81c2c92e; 0x92722c85;
   0xa2bfe8a1; 0xa81a664b; 0xc24b8b70; 0xc76c51a3; 0xd192e819; 0xd6990624; 0xf40e3585; 0x106aa070;
   0x19a4c116; 0x1e376c08; 0x2748774c; 0x34b0bcb5; 0x391c0cb3; 0x4ed8aa4a; 0x5b9cca4f; 0x682e6ff3;
   0x748f82ee; 0x78a5636f; 0x84c87814; 0x8cc70208; 0x90befffa; 0xa4506ceb; 0xbef9a3f7; 0xc67178f2].

Record st := mkst { sa : int; sb : int; sc : int; sd : int; se : int; sf : int; sg : int; sh : int }.

Definition H0 : st :=
  mkst 0x6a09e667 0xbb67ae85 0x3c6ef372 0xa54ff53a 0x510e527f 0x9b05688c 0x1f83d9ab 0x5be0cd19.

Definition byte_int (b : byte) : int := Uint63.of_Z (Z.of_N (Byte.to_N b)).

(* 16 big-endian words from 64 bytes *)
Fixpoint words (k : nat) (l : bytes) : list int :=
  match k with
  | O => []
  | S k' =>
    match l with
    | a :: b :: c :: d :: l' =>
      ((byte_int a << 24) lor (byte_int b << 16) lor (byte_int c << 8) lor byte_int d)
        :: words k' l'
    | _ => []
    end
  end.

(* message schedule kept as a sliding window of the last 16 words (oldest first) *)
Definition next_w (w : list int) : int :=
  match w with
  | w0 :: w1 :: _ :: _ :: _ :: _ :: _ :: _ :: _ :: w9 :: _ :: _ :: _ :: _ :: w14 :: _ :: [] =>
    add32 (add32 (ssig1 w14) w9) (add32 (ssig0 w1) w0)
  | _ => 0
  end.

Definition round (s : st) (k w : int) : st :=
  let t1 := add32 (add32 (add32 (sh s) (bsig1 (se s))) (add32 (Ch (se s) (sf s) (sg s)) k)) w in
  let t2 := add32 (bsig0 (sa s)) (Maj (sa s) (sb s) (sc s)) in
  mkst (add32 t1 t2) (sa s) (sb s) (sc s) (add32 (sd s) t1) (se s) (sf s) (sg s).

(* ks: remaining round constants; win: current 16-word window whose head is W_t *)
Fixpoint rounds (ks : list int) (win : list int) (s : st) : st :=
  match ks with
  | [] => s
  | k :: ks' =>
    match win with
    | w :: rest => rounds ks' (rest ++ [next_w win]) (round s k w)
    | [] => s
    end
  end.

Definition compress (h : st) (block : bytes) : st :=
  let s := rounds Ks (words 16%nat block) h in
  mkst (add32 (sa h) (sa s)) (add32 (sb h) (sb s)) (add32 (sc h) (sc s)) (add32 (sd h) (sd s))
       (add32 (se h) (se s)) (add32 (sf h) (sf s)) (add32 (sg h) (sg s)) (add32 (sh h) (sh s)).

(* process all complete 64-byte blocks; fuel = number of blocks *)
Fixpoint blocks (fuel : nat) (h : st) (l : bytes) : st :=
  match fuel with
  | O => h
  | S f => blocks f (compress h (firstn 64%nat l)) (skipn 64%nat l)
  end.

Definition pad (l : bytes) : bytes :=
  let len := length l in
  let r := Nat.modulo (len + 1)%nat 64%nat in
  let z := (if Nat.leb r 56 then 56 - r else 120 - r)%nat in
  l ++ [x80] ++ repeat x00 z ++ be 8%nat (N.of_nat len * 8)%N.

Definition int_bytes (x : int) : bytes := be 4%nat (Z.to_N (Uint63.to_Z x)).

Definition sha256 (l : bytes) : bytes :=
  let p := pad l in
  let s := blocks (Nat.div (length p) 64%nat) H0 p in
  int_bytes (sa s) ++ int_bytes (sb s) ++ int_bytes (sc s) ++ int_bytes (sd s) ++
  int_bytes (se s) ++ int_bytes (sf s) ++ int_bytes (sg s) ++ int_bytes (sh s).

Definition sha256_n (n : nat) (l : bytes) : bytes := firstn n (sha256 l).

(* FIPS 180-4 / NIST example vectors *)
Example sha256_empty :
  hex (sha256 []) = "e3b0c44298fc1c149afbf4c8996fb92427ae41e4649b934ca495991b7852b855"%string.
Proof. vm_compute. reflexivity. Qed.

Example sha256_abc :
  hex (sha256 (unhex "616263")) =
  "ba7816bf8f01cfea414140de5dae2223b00361a396177a9cb410ff61f20015ad"%string.
Proof. vm_compute. reflexivity. Qed.

Example sha256_two_blocks :
  hex (sha256 (unhex "6162636462636465636465666465666765666768666768696768696a68696a6b696a6b6c6a6b6c6d6b6c6d6e6c6d6e6f6d6e6f706e6f7071")) =
  "248d6a61d20638b8e5c026930c3e6039a33ce45964ff2167f6ecedd419db06c1"%string.
Proof. vm_compute. reflexivity. Qed.
