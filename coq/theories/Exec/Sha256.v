(* Executable SHA-256 (FIPS 180-4) on primitive 63-bit integers.
   Used only to *run* the model in the correspondence check and for the
   RFC 8554 known-answer tests; no theorem mentions it. *)
From Coq Require Import Uint63.
From HbsLms Require Import Base.Bytes.

Local Open Scope uint63_scope.

Definition m32 : int := 0xFFFFFFFF.
Definition add32 (a b : int) : int := (a + b) land m32.
Definition rotr (x : int) (k : int) : int := ((x >> k) lor (x << (32 - k))) land m32.
Definition shr (x : int) (k : int) : int := x >> k.
Definition not32 (x : int) : int := x lxor m32.

Definition Ch x y z := (x land y) lxor ((not32 x) land z).
Definition Maj x y z := (x land y) lxor (x land z) lxor (y land z).
Definition bsig0 x := rotr x 2 lxor rotr x 13 lxor rotr x 22.
Definition bsig1 x := rotr x 6 lxor rotr x 11 lxor rotr x 25.
Definition ssig0 x := rotr x 7 lxor rotr x 18 lxor shr x 3.
Definition ssig1 x := rotr x 17 lxor rotr x 19 lxor shr x 10.

Definition Ks : list int :=
  [0x428a2f98; 0x71374491; 0xb5c0fbcf; 0xe9b5dba5; 0x3956c25b; 0x59f111f1; 0x923f82a4; 0xab1c5ed5;
   0xd807aa98; 0x12835b01; 0x243185be; 0x550c7dc3; 0x72be5d74; 0x80deb1fe; 0x9bdc06a7; 0xc19bf174;
   0xe49b69c1; 0xefbe4786; 0x0fc19dc6; 0x240ca1cc; 0x2de92c6f; 0x4a7484aa; 0x5cb0a9dc; 0x76f988da;
   0x983e5152; 0xa831c66d; 0xb00327c8; 0xbf597fc7; 0xc6e00bf3; 0xd5a79147; 0x06ca6351; 0x14292967;
   0x27b70a85; 0x2e1b2138; 0x4d2c6dfc; 0x53380d13; 0x650a7354; 0x766a0abb; 0x81c2c92e; 0x92722c85;
   0xa2bfe8a1; 0xa81a664b; 0xc24b8b70; 0xc76c51a3; 0xd192e819; 0xd6990624; 0xf40e3585; 0x106aa070;
   0x19a4c116; 0x1e376c08; 0x2748774c; 0x34b0bcb5; 0x391c0cb3; 0x4ed8aa4a; 0x5b9cca4f; 0x682e6ff3;
   0x748f82ee; 0x78a5636f; 0x84c87814; 0x8cc70208; 0x90befffa; 0xa4506ceb; 0xbef9a3f7; 0xc67178f2].

Record st := mkst { sa : int; sb : int; sc : int; sd : int; se : int; sf : int; sg : int; sh : int }.

Definition H0 : st :=
  mkst 0x6a09e667 0xbb67ae85 0x3c6ef372 0xa54ff53a 0x510e527f 0x9b05688c 0x1f83d9ab 0x5be0cd19.

Definition byte_int (b : byte) : int :=
  match b with
  | x00 => 0
  | x01 => 1
  | x02 => 2
  | x03 => 3
  | x04 => 4
  | x05 => 5
  | x06 => 6
  | x07 => 7
  | x08 => 8
  | x09 => 9
  | x0a => 10
  | x0b => 11
  | x0c => 12
  | x0d => 13
  | x0e => 14
  | x0f => 15
  | x10 => 16
  | x11 => 17
  | x12 => 18
  | x13 => 19
  | x14 => 20
  | x15 => 21
  | x16 => 22
  | x17 => 23
  | x18 => 24
  | x19 => 25
  | x1a => 26
  | x1b => 27
  | x1c => 28
  | x1d => 29
  | x1e => 30
  | x1f => 31
  | x20 => 32
  | x21 => 33
  | x22 => 34
  | x23 => 35
  | x24 => 36
  | x25 => 37
  | x26 => 38
  | x27 => 39
  | x28 => 40
  | x29 => 41
  | x2a => 42
  | x2b => 43
  | x2c => 44
  | x2d => 45
  | x2e => 46
  | x2f => 47
  | x30 => 48
  | x31 => 49
  | x32 => 50
  | x33 => 51
  | x34 => 52
  | x35 => 53
  | x36 => 54
  | x37 => 55
  | x38 => 56
  | x39 => 57
  | x3a => 58
  | x3b => 59
  | x3c => 60
  | x3d => 61
  | x3e => 62
  | x3f => 63
  | x40 => 64
  | x41 => 65
  | x42 => 66
  | x43 => 67
  | x44 => 68
  | x45 => 69
  | x46 => 70
  | x47 => 71
  | x48 => 72
  | x49 => 73
  | x4a => 74
  | x4b => 75
  | x4c => 76
  | x4d => 77
  | x4e => 78
  | x4f => 79
  | x50 => 80
  | x51 => 81
  | x52 => 82
  | x53 => 83
  | x54 => 84
  | x55 => 85
  | x56 => 86
  | x57 => 87
  | x58 => 88
  | x59 => 89
  | x5a => 90
  | x5b => 91
  | x5c => 92
  | x5d => 93
  | x5e => 94
  | x5f => 95
  | x60 => 96
  | x61 => 97
  | x62 => 98
  | x63 => 99
  | x64 => 100
  | x65 => 101
  | x66 => 102
  | x67 => 103
  | x68 => 104
  | x69 => 105
  | x6a => 106
  | x6b => 107
  | x6c => 108
  | x6d => 109
  | x6e => 110
  | x6f => 111
  | x70 => 112
  | x71 => 113
  | x72 => 114
  | x73 => 115
  | x74 => 116
  | x75 => 117
  | x76 => 118
  | x77 => 119
  | x78 => 120
  | x79 => 121
  | x7a => 122
  | x7b => 123
  | x7c => 124
  | x7d => 125
  | x7e => 126
  | x7f => 127
  | x80 => 128
  | x81 => 129
  | x82 => 130
  | x83 => 131
  | x84 => 132
  | x85 => 133
  | x86 => 134
  | x87 => 135
  | x88 => 136
  | x89 => 137
  | x8a => 138
  | x8b => 139
  | x8c => 140
  | x8d => 141
  | x8e => 142
  | x8f => 143
  | x90 => 144
  | x91 => 145
  | x92 => 146
  | x93 => 147
  | x94 => 148
  | x95 => 149
  | x96 => 150
  | x97 => 151
  | x98 => 152
  | x99 => 153
  | x9a => 154
  | x9b => 155
  | x9c => 156
  | x9d => 157
  | x9e => 158
  | x9f => 159
  | xa0 => 160
  | xa1 => 161
  | xa2 => 162
  | xa3 => 163
  | xa4 => 164
  | xa5 => 165
  | xa6 => 166
  | xa7 => 167
  | xa8 => 168
  | xa9 => 169
  | xaa => 170
  | xab => 171
  | xac => 172
  | xad => 173
  | xae => 174
  | xaf => 175
  | xb0 => 176
  | xb1 => 177
  | xb2 => 178
  | xb3 => 179
  | xb4 => 180
  | xb5 => 181
  | xb6 => 182
  | xb7 => 183
  | xb8 => 184
  | xb9 => 185
  | xba => 186
  | xbb => 187
  | xbc => 188
  | xbd => 189
  | xbe => 190
  | xbf => 191
  | xc0 => 192
  | xc1 => 193
  | xc2 => 194
  | xc3 => 195
  | xc4 => 196
  | xc5 => 197
  | xc6 => 198
  | xc7 => 199
  | xc8 => 200
  | xc9 => 201
  | xca => 202
  | xcb => 203
  | xcc => 204
  | xcd => 205
  | xce => 206
  | xcf => 207
  | xd0 => 208
  | xd1 => 209
  | xd2 => 210
  | xd3 => 211
  | xd4 => 212
  | xd5 => 213
  | xd6 => 214
  | xd7 => 215
  | xd8 => 216
  | xd9 => 217
  | xda => 218
  | xdb => 219
  | xdc => 220
  | xdd => 221
  | xde => 222
  | xdf => 223
  | xe0 => 224
  | xe1 => 225
  | xe2 => 226
  | xe3 => 227
  | xe4 => 228
  | xe5 => 229
  | xe6 => 230
  | xe7 => 231
  | xe8 => 232
  | xe9 => 233
  | xea => 234
  | xeb => 235
  | xec => 236
  | xed => 237
  | xee => 238
  | xef => 239
  | xf0 => 240
  | xf1 => 241
  | xf2 => 242
  | xf3 => 243
  | xf4 => 244
  | xf5 => 245
  | xf6 => 246
  | xf7 => 247
  | xf8 => 248
  | xf9 => 249
  | xfa => 250
  | xfb => 251
  | xfc => 252
  | xfd => 253
  | xfe => 254
  | xff => 255
  end.

Definition bit (x : int) (k : int) : bool := negb (((x >> k) land 1) =? 0).

Definition int_byte (x : int) : byte :=
  Byte.of_bits (bit x 0, (bit x 1, (bit x 2, (bit x 3, (bit x 4, (bit x 5, (bit x 6, bit x 7))))))).

(* 64 rounds; the message schedule is a sliding window of 16 words passed as arguments *)
Fixpoint rounds (ks : list int) (a b c d e f g h
                 w0 w1 w2 w3 w4 w5 w6 w7 w8 w9 w10 w11 w12 w13 w14 w15 : int) : st :=
  match ks with
  | [] => mkst a b c d e f g h
  | k :: ks' =>
    let t1 := add32 (add32 (add32 h (bsig1 e)) (add32 (Ch e f g) k)) w0 in
    let t2 := add32 (bsig0 a) (Maj a b c) in
    let wn := add32 (add32 (ssig1 w14) w9) (add32 (ssig0 w1) w0) in
    rounds ks' (add32 t1 t2) a b c (add32 d t1) e f g
           w1 w2 w3 w4 w5 w6 w7 w8 w9 w10 w11 w12 w13 w14 w15 wn
  end.

Definition word (a b c d : byte) : int :=
  (byte_int a << 24) lor (byte_int b << 16) lor (byte_int c << 8) lor byte_int d.

(* one compression; returns the new state and the rest of the input *)
Definition compress (s : st) (l : bytes) : st * bytes :=
  match l with
  | a0 :: a1 :: a2 :: a3 :: b0 :: b1 :: b2 :: b3 :: c0 :: c1 :: c2 :: c3 :: d0 :: d1 :: d2 :: d3 ::
    e0 :: e1 :: e2 :: e3 :: f0 :: f1 :: f2 :: f3 :: g0 :: g1 :: g2 :: g3 :: h0 :: h1 :: h2 :: h3 ::
    i0 :: i1 :: i2 :: i3 :: j0 :: j1 :: j2 :: j3 :: k0 :: k1 :: k2 :: k3 :: l0 :: l1 :: l2 :: l3 ::
    m0 :: m1 :: m2 :: m3 :: n0 :: n1 :: n2 :: n3 :: o0 :: o1 :: o2 :: o3 :: p0 :: p1 :: p2 :: p3 :: rest =>
    let r := rounds Ks (sa s) (sb s) (sc s) (sd s) (se s) (sf s) (sg s) (sh s)
                    (word a0 a1 a2 a3) (word b0 b1 b2 b3) (word c0 c1 c2 c3) (word d0 d1 d2 d3)
                    (word e0 e1 e2 e3) (word f0 f1 f2 f3) (word g0 g1 g2 g3) (word h0 h1 h2 h3)
                    (word i0 i1 i2 i3) (word j0 j1 j2 j3) (word k0 k1 k2 k3) (word l0 l1 l2 l3)
                    (word m0 m1 m2 m3) (word n0 n1 n2 n3) (word o0 o1 o2 o3) (word p0 p1 p2 p3) in
    (mkst (add32 (sa s) (sa r)) (add32 (sb s) (sb r)) (add32 (sc s) (sc r)) (add32 (sd s) (sd r))
          (add32 (se s) (se r)) (add32 (sf s) (sf r)) (add32 (sg s) (sg r)) (add32 (sh s) (sh r)), rest)
  | _ => (s, [])
  end.

(* process all complete 64-byte blocks; fuel = number of blocks *)
Fixpoint blocks (fuel : nat) (h : st) (l : bytes) : st :=
  match fuel with
  | O => h
  | S f => let (h', l') := compress h l in blocks f h' l'
  end.

Definition pad (l : bytes) : bytes :=
  let len := length l in
  let r := Nat.modulo (len + 1)%nat 64%nat in
  let z := (if Nat.leb r 56 then 56 - r else 120 - r)%nat in
  l ++ [x80] ++ repeat x00 z ++ be 8%nat (N.of_nat len * 8)%N.

Definition int_bytes (x : int) (tail : bytes) : bytes :=
  int_byte (x >> 24) :: int_byte (x >> 16) :: int_byte (x >> 8) :: int_byte x :: tail.

Definition sha256 (l : bytes) : bytes :=
  let p := pad l in
  let s := blocks (Nat.div (length p) 64%nat) H0 p in
  int_bytes (sa s) (int_bytes (sb s) (int_bytes (sc s) (int_bytes (sd s)
  (int_bytes (se s) (int_bytes (sf s) (int_bytes (sg s) (int_bytes (sh s) []))))))).

Definition sha256_n (n : nat) (l : bytes) : bytes := firstn n (sha256 l).

(* FIPS 180-4 / NIST example vectors *)
Example sha256_empty :
  hex (sha256 []) = "e3b0c44298fc1c149afbf4c8996fb92427ae41e4649b934ca495991b7852b855"%string.
Proof. vm_compute. reflexivity. Qed.

Example sha256_abc :
  hex (sha256 (unhex "616263")) =
  "ba7816bf8f01cfea414140de5dae2223b00361a396177a9cb410ff61f20015ad"%string.
Proof. vm_compute. reflexivity. Qed.

Example sha256_two_blocks :
  hex (sha256 (unhex "6162636462636465636465666465666765666768666768696768696a68696a6b696a6b6c6a6b6c6d6b6c6d6e6c6d6e6f6d6e6f706e6f7071")) =
  "248d6a61d20638b8e5c026930c3e6039a33ce45964ff2167f6ecedd419db06c1"%string.
Proof. vm_compute. reflexivity. Qed.

(* one million 'a' would take too long here; a 1000-byte input exercises many blocks *)
Example sha256_1000_a :
  hex (sha256 (repeat x61 1000)) =
  "41edece42d63e8d9bf515a9ba6932e1c20cbc9f5a5d134645adb5db1b9737ea3"%string.
Proof. vm_compute. reflexivity. Qed.
