(* C02 -- verification accepts exactly the triples RFC 8554 accepts, and nothing else.
   Statements only; proofs in Proofs/VerifyStruct.v, Proofs/RfcCore.v, Spec/RfcKat.v.

   What is a theorem here (for EVERY hash function and EVERY byte string):
     - acceptance implies every check of RFC 8554 section 6.3 / Algorithms 6, 6a (level count,
       type-code equality between signature and verifying key at every level, leaf index < 2^h,
       recomputed root = key's root, exact consumption of the input);
     - the hash computations behind "recomputed root" are the RFC's (chain steps, leaf / interior
       node preimages, climbing order), under the RFC constants of the current source;
     - bytes appended to an accepted signature or public key are rejected;
     - the RFC's Appendix F vectors are accepted by the model and by the independent RFC
       transcription, and rejected after corruption.
   What is NOT a theorem: the byte-level equivalence of the model's cursor parser with the
   independent transcription's slicing (Spec/Rfc8554.v) over all inputs -- that is established by
   evaluating both inside Coq on every triple the implementation judged (driver: RFC judge), and
   "any alteration is rejected" beyond the structural checks, which needs second-preimage
   resistance of H.  KNOWN FINDING: rows n=16/w=1, n=16/w=2, n=24/w=1 use a non-RFC checksum shift. *)
From HbsLms Require Import Base.Bytes Model.Consts Model.Lmots Model.Lms Model.Codec Model.Hss.
From HbsLms Require Import Spec.Rfc8554Ots Spec.Rfc8554 Spec.RfcKat.
From HbsLms Require Import Proofs.VerifyStruct Proofs.RfcCore Gen.Generated.
From HbsLms Require Import Properties.C07.

Local Open Scope N_scope.

Theorem C02_accept_implies_rfc_checks :
  forall (n : nat) (H : bytes -> bytes) (msg sig pk : bytes),
    hss_verify K_src n H msg sig pk = Ok tt ->
    exists s L key,
      parse_hss_sig K_src n sig = Ok s /\ parse_hss_pk K_src n pk = Ok (L, key)
      /\ h_nspk s + 1 = L
      /\ length (h_spks s) = N.to_nat (h_nspk s)
      /\ exists key', verify_chain K_src n H key (h_spks s) = Some key'
                      /\ lms_verify K_src n H (h_sig s) key' msg = true.
Proof. intros n H. apply accept_implies_checks. Qed.

Theorem C02_lms_checks :
  forall (n : nat) (H : bytes -> bytes) (s : lms_sig) (key : lms_pk) (msg : bytes),
    lms_verify K_src n H s key msg = true ->
    s_ots s = p_ots key /\ s_lms s = p_lms key /\ s_q s < 2 ^ N.of_nat (l_h (s_lms s))
    /\ lms_candidate K_src n H (p_I key) (s_ots s) (s_lms s) (s_q s) (s_C s) (s_y s) (s_path s) msg = p_key key.
Proof. intros n H. apply lms_verify_checks. Qed.

Theorem C02_wrong_level_count_rejected :
  forall (n : nat) (H : bytes -> bytes) (msg sig pk : bytes) (s : hss_sig) (L : N) (key : lms_pk),
    parse_hss_sig K_src n sig = Ok s -> parse_hss_pk K_src n pk = Ok (L, key) ->
    h_nspk s + 1 <> L -> hss_verify K_src n H msg sig pk = Err.
Proof.
  intros n H msg sig pk s L key PS PP Hne. unfold hss_verify. rewrite PS, PP. cbn [bind].
  apply N.eqb_neq in Hne. now rewrite Hne.
Qed.

Theorem C02_type_code_mismatch_rejected :
  forall (n : nat) (H : bytes -> bytes) (s : lms_sig) (key : lms_pk) (msg : bytes),
    s_ots s <> p_ots key \/ s_lms s <> p_lms key -> lms_verify K_src n H s key msg = false.
Proof.
  intros n H s key msg Hne. destruct (lms_verify K_src n H s key msg) eqn:E; [|reflexivity].
  apply lms_verify_checks in E. destruct E as [A [B _]]. destruct Hne; congruence.
Qed.

Theorem C02_extended_inputs_rejected :
  forall (n : nat) (H : bytes -> bytes) (msg sig pk extra : bytes),
    hss_verify K_src n H msg sig pk = Ok tt -> extra <> [] ->
    hss_verify K_src n H msg (sig ++ extra) pk = Err /\ hss_verify K_src n H msg sig (pk ++ extra) = Err.
Proof.
  intros n H msg sig pk extra E He.
  destruct (accept_implies_checks K_src n H msg sig pk E) as [s [L [key [PS [PP _]]]]].
  split; unfold hss_verify.
  - now rewrite (extended_signature_rejected K_src n sig s extra PS He).
  - rewrite PS. cbn [bind]. now rewrite (extended_public_key_rejected K_src n pk (L, key) extra PP He).
Qed.

(* the hash computations are the RFC's *)
Theorem C02_hash_preimages_are_rfc :
  forall (n : nat) (H : bytes -> bytes) (I : bytes) (q i j : N) (x a b Kq : bytes) (r : N),
    (forall y, length (H y) = n) -> length I = 16%nat -> length x = n ->
    chain_buf K_src n I q i j x = I ++ u32str q ++ u16str i ++ u8str j ++ x
    /\ leaf_hash K_src H I r Kq = H (I ++ u32str r ++ u16str D_LEAF ++ Kq)
    /\ intr_hash K_src H I r a b = H (I ++ u32str r ++ u16str D_INTR ++ a ++ b)
    /\ c_d_pblc K_src = u16str D_PBLC /\ c_d_mesg K_src = u16str D_MESG.
Proof.
  intros n H I q i j x a b Kq r HL LI Lx.
  split; [exact (chain_buf_rfc K_src n H HL source_consts_rfc I q i j x LI Lx)|].
  split; [exact (leaf_hash_rfc K_src H source_consts_rfc I r Kq)|].
  split; [exact (intr_hash_rfc K_src H source_consts_rfc I r a b)|].
  split; [exact (proj1 (rfc_fields K_src source_consts_rfc))|].
  exact (proj1 (proj2 (rfc_fields K_src source_consts_rfc))).
Qed.

Theorem C02_rfc_vectors :
  rfc_verify rfc_testcase1_message rfc_testcase1_signature rfc_testcase1_public_key = true
  /\ rfc_verify rfc_testcase2_message rfc_testcase2_signature rfc_testcase2_public_key = true
  /\ hss_verify K_src 32 sha rfc_testcase1_message rfc_testcase1_signature rfc_testcase1_public_key = Ok tt
  /\ hss_verify K_src 32 sha rfc_testcase2_message rfc_testcase2_signature rfc_testcase2_public_key = Ok tt.
Proof. exact C07_rfc_vectors. Qed.

Print Assumptions C02_accept_implies_rfc_checks.
Print Assumptions C02_lms_checks.
Print Assumptions C02_wrong_level_count_rejected.
Print Assumptions C02_type_code_mismatch_rejected.
Print Assumptions C02_extended_inputs_rejected.
Print Assumptions C02_hash_preimages_are_rfc.
