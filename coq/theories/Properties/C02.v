(* C02 -- verification accepts exactly the triples RFC 8554 accepts, and nothing else.
   Statements only; proofs in Proofs/RfcVerifyEquiv.v, Proofs/VerifyStruct.v, Proofs/RfcCore.v,
   Spec/RfcKat.v.

   What is a theorem here (for EVERY hash function with n-byte output and EVERY byte string):
     - [C02_verifier_is_rfc8554_verifier]: the verifier of the code (cursor parsers, type checks,
       candidate computation, chain of signed public keys) returns "accepted" IF AND ONLY IF the
       independent transcription of RFC 8554 section 6.3 / Algorithms 6, 6a, 4b (Spec/Rfc8554.v:
       slicing by offsets, written from the RFC text) returns VALID, when both use the parameter
       rows (w, p, ls, h per type code) of the current source;
     - [C02_tables_are_rfc_tables]: those rows are the RFC's (Table 1 / Appendix B formulas,
       Table 2) except the three known-finding rows, so for n = 32 the right-hand side is
       literally RFC 8554 ([C02_verifier_is_rfc8554_n32]);
     - acceptance implies every check of 6.3 / 6 / 6a; wrong level count, type-code mismatch and
       appended bytes are rejected; the hash preimages are the RFC's;
     - the RFC's Appendix F vectors are accepted by the model and by the transcription.
   What is NOT a theorem: "any alteration of an accepted triple is rejected" beyond the structural
   checks -- that is second-preimage resistance of H.
   KNOWN FINDING: rows n=16/w=1, n=16/w=2, n=24/w=1 use a non-RFC checksum shift. *)
From HbsLms Require Import Base.Bytes Model.Consts Model.Lmots Model.Lms Model.Codec Model.Hss.
From HbsLms Require Import Spec.Rfc8554Ots Spec.Rfc8554 Spec.RfcKat.
From HbsLms Require Import Proofs.VerifyStruct Proofs.RfcCore Proofs.RfcVerifyEquiv Gen.Generated.
From HbsLms Require Import Properties.C07.

Local Open Scope N_scope.

Theorem C02_accept_implies_rfc_checks :
  forall (n : nat) (H : bytes -> bytes) (msg sig pk : bytes),
    hss_verify K_src n H msg sig pk = Ok tt ->
    exists s L key,
      parse_hss_sig K_src n sig = Ok s /\ parse_hss_pk K_src n pk = Ok (L, key)
      /\ h_nspk s + 1 = L
      /\ length (h_spks s) = N.to_nat (h_nspk s)
      /\ exists key', verify_chain K_src n H key (h_spks s) = Some key'
                      /\ lms_verify K_src n H (h_sig s) key' msg = true.
Proof. intros n H. apply accept_implies_checks. Qed.

Theorem C02_lms_checks :
  forall (n : nat) (H : bytes -> bytes) (s : lms_sig) (key : lms_pk) (msg : bytes),
    lms_verify K_src n H s key msg = true ->
    s_ots s = p_ots key /\ s_lms s = p_lms key /\ s_q s < 2 ^ N.of_nat (l_h (s_lms s))
    /\ lms_candidate K_src n H (p_I key) (s_ots s) (s_lms s) (s_q s) (s_C s) (s_y s) (s_path s) msg = p_key key.
Proof. intros n H. apply lms_verify_checks. Qed.

Theorem C02_wrong_level_count_rejected :
  forall (n : nat) (H : bytes -> bytes) (msg sig pk : bytes) (s : hss_sig) (L : N) (key : lms_pk),
    parse_hss_sig K_src n sig = Ok s -> parse_hss_pk K_src n pk = Ok (L, key) ->
    h_nspk s + 1 <> L -> hss_verify K_src n H msg sig pk = Err.
Proof.
  intros n H msg sig pk s L key PS PP Hne. unfold hss_verify. rewrite PS, PP. cbn [bind].
  apply N.eqb_neq in Hne. now rewrite Hne.
Qed.

Theorem C02_type_code_mismatch_rejected :
  forall (n : nat) (H : bytes -> bytes) (s : lms_sig) (key : lms_pk) (msg : bytes),
    s_ots s <> p_ots key \/ s_lms s <> p_lms key -> lms_verify K_src n H s key msg = false.
Proof.
  intros n H s key msg Hne. destruct (lms_verify K_src n H s key msg) eqn:E; [|reflexivity].
  apply lms_verify_checks in E. destruct E as [A [B _]]. destruct Hne; congruence.
Qed.

Theorem C02_extended_inputs_rejected :
  forall (n : nat) (H : bytes -> bytes) (msg sig pk extra : bytes),
    hss_verify K_src n H msg sig pk = Ok tt -> extra <> [] ->
    hss_verify K_src n H msg (sig ++ extra) pk = Err /\ hss_verify K_src n H msg sig (pk ++ extra) = Err.
Proof.
  intros n H msg sig pk extra E He.
  destruct (accept_implies_checks K_src n H msg sig pk E) as [s [L [key [PS [PP _]]]]].
  split; unfold hss_verify.
  - now rewrite (extended_signature_rejected K_src n sig s extra PS He).
  - rewrite PS. cbn [bind]. now rewrite (extended_public_key_rejected K_src n pk (L, key) extra PP He).
Qed.

(* the hash computations are the RFC's *)
Theorem C02_hash_preimages_are_rfc :
  forall (n : nat) (H : bytes -> bytes) (I : bytes) (q i j : N) (x a b Kq : bytes) (r : N),
    (forall y, length (H y) = n) -> length I = 16%nat -> length x = n ->
    chain_buf K_src n I q i j x = I ++ u32str q ++ u16str i ++ u8str j ++ x
    /\ leaf_hash K_src H I r Kq = H (I ++ u32str r ++ u16str D_LEAF ++ Kq)
    /\ intr_hash K_src H I r a b = H (I ++ u32str r ++ u16str D_INTR ++ a ++ b)
    /\ c_d_pblc K_src = u16str D_PBLC /\ c_d_mesg K_src = u16str D_MESG.
Proof.
  intros n H I q i j x a b Kq r HL LI Lx.
  split; [exact (chain_buf_rfc K_src n H HL source_consts_rfc I q i j x LI Lx)|].
  split; [exact (leaf_hash_rfc K_src H source_consts_rfc I r Kq)|].
  split; [exact (intr_hash_rfc K_src H source_consts_rfc I r a b)|].
  split; [exact (proj1 (rfc_fields K_src source_consts_rfc))|].
  exact (proj1 (proj2 (rfc_fields K_src source_consts_rfc))).
Qed.

Theorem C02_rfc_vectors :
  rfc_verify rfc_testcase1_message rfc_testcase1_signature rfc_testcase1_public_key = true
  /\ rfc_verify rfc_testcase2_message rfc_testcase2_signature rfc_testcase2_public_key = true
  /\ hss_verify K_src 32 sha rfc_testcase1_message rfc_testcase1_signature rfc_testcase1_public_key = Ok tt
  /\ hss_verify K_src 32 sha rfc_testcase2_message rfc_testcase2_signature rfc_testcase2_public_key = Ok tt.
Proof. exact C07_rfc_vectors. Qed.


(* ---- the byte-level equivalence with the RFC transcription ---- *)

Theorem C02_verifier_is_rfc8554_verifier :
  forall (n : nat) (H : bytes -> bytes) (msg sig pk : bytes),
    In n hash_sizes -> (forall x, length (H x) = n) ->
    (hss_verify K_src n H msg sig pk = Ok tt
     <-> hss_verify_rfc n H (ots_tbl_of K_src n) (lms_tbl_of K_src)
                        (N.of_nat (c_max_levels K_src)) msg sig pk = true).
Proof.
  intros n H msg sig pk Hn HL.
  exact (hss_verify_iff_rfc K_src n H HL source_consts_rfc (tables_ok_n n Hn) msg sig pk).
Qed.

(* the rows handed to the transcription are RFC 8554's, except the known-finding rows *)
Ltac deep p := try (destruct p as [p|p|]; try reflexivity; try lia).

Lemma rfc_ots_tbl_none n code : 5 <= code -> rfc_ots_tbl n code = None.
Proof. intros Hc. destruct code as [|p]; [lia|]. deep p; deep p; deep p. Qed.

Lemma rfc_lms_tbl_none code : 10 <= code -> rfc_lms_tbl code = None.
Proof. intros Hc. destruct code as [|p]; [lia|]. deep p; deep p; deep p; deep p. Qed.

Lemma ots_tbl_none n code : 5 <= code -> ots_tbl_of K_src n code = None.
Proof.
  intros Hc. unfold ots_tbl_of. destruct (ots_of_type K_src n code) as [prm|] eqn:E; [|reflexivity].
  unfold ots_of_type in E. destruct (assoc code (c_ots_get_from_type K_src)) as [v|] eqn:A; [|discriminate].
  apply assoc_key in A. cbn in A. lia.
Qed.

Lemma lms_tbl_none code : 10 <= code -> lms_tbl_of K_src code = None.
Proof.
  intros Hc. unfold lms_tbl_of. destruct (lms_of_type K_src code) as [lp|] eqn:E; [|reflexivity].
  unfold lms_of_type in E. destruct (assoc code (c_lms_get_from_type K_src)) as [v|] eqn:A; [|discriminate].
  apply assoc_key in A. cbn in A. lia.
Qed.

Theorem C02_tables_are_rfc_tables :
  (forall n code, In n hash_sizes ->
     ots_tbl_of K_src n code = rfc_ots_tbl n code
     \/ In (n, code) [(16%nat, 1); (16%nat, 2); (24%nat, 1)])
  /\ (forall code, lms_tbl_of K_src code = if code =? 1 then Some 2 else rfc_lms_tbl code).
Proof.
  split.
  - intros n code Hn. destruct (N.le_gt_cases 5 code) as [Hc|Hc].
    + left. now rewrite ots_tbl_none, rfc_ots_tbl_none.
    + assert (C : code = 0 \/ code = 1 \/ code = 2 \/ code = 3 \/ code = 4) by lia.
      destruct Hn as [<-|[<-|[<-|[]]]];
        destruct C as [->|[->|[->|[->| ->]]]];
        first [left; vm_compute; reflexivity | right; cbn; tauto].
  - intros code. destruct (N.le_gt_cases 10 code) as [Hc|Hc].
    + rewrite lms_tbl_none, rfc_lms_tbl_none by assumption.
      destruct (N.eqb_spec code 1); [lia|reflexivity].
    + assert (C : code = 0 \/ code = 1 \/ code = 2 \/ code = 3 \/ code = 4 \/ code = 5
                  \/ code = 6 \/ code = 7 \/ code = 8 \/ code = 9) by lia.
      destruct C as [->|[->|[->|[->|[->|[->|[->|[->|[->| ->]]]]]]]]]; vm_compute; reflexivity.
Qed.

(* hence, for the 32-byte hashes, literally RFC 8554 (the LMS table extended by the 4-leaf
   test type, code 1, that the verification build enables) *)
Theorem C02_verifier_is_rfc8554_n32 :
  forall (H : bytes -> bytes) (msg sig pk : bytes),
    (forall x, length (H x) = 32%nat) ->
    (hss_verify K_src 32 H msg sig pk = Ok tt
     <-> hss_verify_rfc 32 H (rfc_ots_tbl 32)
                        (fun code => if code =? 1 then Some 2 else rfc_lms_tbl code) 8 msg sig pk = true).
Proof.
  intros H msg sig pk HL.
  rewrite (C02_verifier_is_rfc8554_verifier 32 H msg sig pk (or_intror (or_intror (or_introl eq_refl))) HL).
  destruct C02_tables_are_rfc_tables as [TO TL].
  rewrite (hss_verify_rfc_ext 32 H (ots_tbl_of K_src 32) (rfc_ots_tbl 32) (lms_tbl_of K_src)
             (fun code => if code =? 1 then Some 2 else rfc_lms_tbl code)).
  - change (N.of_nat (c_max_levels K_src)) with 8. reflexivity.
  - intros c. destruct (TO 32%nat c (or_intror (or_intror (or_introl eq_refl)))) as [E|E]; [exact E|].
    cbn in E. destruct E as [E|[E|[E|[]]]]; discriminate E.
  - exact TL.
Qed.

Print Assumptions C02_verifier_is_rfc8554_verifier.
Print Assumptions C02_tables_are_rfc_tables.
Print Assumptions C02_verifier_is_rfc8554_n32.
Print Assumptions C02_accept_implies_rfc_checks.
Print Assumptions C02_lms_checks.
Print Assumptions C02_wrong_level_count_rejected.
Print Assumptions C02_type_code_mismatch_rejected.
Print Assumptions C02_extended_inputs_rejected.
Print Assumptions C02_hash_preimages_are_rfc.
