(* C06 -- verification is total: arbitrary untrusted bytes never crash the verifier.
   Only statements; proofs in Proofs/VerifyTotal.v.  The quantification is over ALL byte strings
   (empty, truncated at any offset, unknown type codes, absurd level counts, trailing data). *)
From HbsLms Require Import Base.Bytes Model.Consts Model.Codec Model.Hss.
From HbsLms Require Import Proofs.VerifyTotal Gen.Generated.

Local Open Scope N_scope.

(* hbs_lms::verify / VerifyingKey::verify: the outcome is accept or reject, never a panic *)
Theorem C06_verify_total :
  forall (n : nat) (H : bytes -> bytes) (msg sig pk : bytes),
    hss_verify K_src n H msg sig pk <> Panic.
Proof. intros. apply hss_verify_total. Qed.

Theorem C06_parsers_total :
  forall (n : nat) (data : bytes),
    parse_hss_sig K_src n data <> Panic /\ parse_hss_pk K_src n data <> Panic
    /\ parse_lms_sig K_src n data <> Panic /\ parse_lms_pk K_src n data <> Panic.
Proof.
  intros. repeat split; [apply parse_hss_sig_total|apply parse_hss_pk_total
                        |apply parse_lms_sig_total|apply parse_lms_pk_total].
Qed.

(* whatever the parser hands to the hash computations is exactly sized (so that the slicing and
   indexing inside them is in range), the leaf index is inside the tree, and input is consumed
   (the level loop is bounded by MAX_ALLOWED_HSS_LEVELS and each step consumes bytes) *)
Theorem C06_parsed_signature_is_well_shaped :
  forall (n : nat) (data : bytes) (s : lms_sig) (rest : bytes),
    parse_lms_sig K_src n data = Ok (s, rest) ->
    length (s_C s) = n
    /\ length (s_y s) = o_p (s_ots s) /\ Forall (fun y => length y = n) (s_y s)
    /\ length (s_path s) = l_h (s_lms s) /\ Forall (fun y => length y = n) (s_path s)
    /\ s_q s < 2 ^ N.of_nat (l_h (s_lms s))
    /\ (length rest < length data)%nat.
Proof. intros n data s rest E. exact (parse_lms_sig_shape K_src n (fun x => x) data s rest E). Qed.

(* the level count an attacker writes into a signature cannot drive more iterations than the
   build supports: larger values are rejected before the loop *)
Theorem C06_level_count_bounded :
  forall (n : nat) (data : bytes) (s : hss_sig),
    parse_hss_sig K_src n data = Ok s -> h_nspk s < N.of_nat (c_max_levels K_src).
Proof.
  intros n data s. unfold parse_hss_sig.
  destruct (rd 4 data) as [[nb r1]| |]; cbn [bind]; try discriminate.
  destruct (N.leb_spec (N.of_nat (c_max_levels K_src)) (be_dec nb)) as [|Hlt]; [discriminate|].
  destruct (parse_spks K_src n (N.to_nat (be_dec nb)) r1) as [[spks r2]| |]; cbn [bind]; try discriminate.
  destruct (parse_lms_sig K_src n r2) as [[sg r3]| |]; cbn [bind]; try discriminate.
  destruct r3; [|discriminate]. intros [= <-]. exact Hlt.
Qed.

Example ex_C06_rejects :
  hss_verify K_src 32 (fun _ => repeat x00 32) [] [] [] = Err
  /\ hss_verify K_src 32 (fun _ => repeat x00 32) [] (unhex "ffffffff") (unhex "00000001") = Err.
Proof. vm_compute. split; reflexivity. Qed.

Print Assumptions C06_verify_total.
Print Assumptions C06_parsers_total.
Print Assumptions C06_parsed_signature_is_well_shaped.
Print Assumptions C06_level_count_bounded.
