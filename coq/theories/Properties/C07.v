(* C07 -- signatures are byte-exact RFC 8554 HSS signatures for the current counter.
   Only statements; proofs in Proofs/RfcCore.v, Proofs/HashSigsProofs.v, Proofs/HssRfc.v.
   The right-hand sides are Spec/Rfc8554.v + Spec/HssSpec.v (written from the RFC text) over the
   per-level secrets of Spec/HashSigs.v; the spec is validated by the RFC's Appendix F vectors
   (Spec/RfcKat.v). *)
From HbsLms Require Import Base.Bytes Model.Consts Model.Winternitz Model.Lmots Model.Lms Model.Counter
     Model.KeyBlob Model.Hss Model.SignCore.
From HbsLms Require Import Spec.Rfc8554Ots Spec.Rfc8554 Spec.HashSigs Spec.HssSpec Spec.RfcKat.
From HbsLms Require Import Proofs.WinternitzDom Proofs.RfcCore Proofs.HashSigsProofs Proofs.HssRfc
     Proofs.KeyBlobProofs Proofs.SignProofs Proofs.RfcVerifyEquiv Gen.Generated.
From HbsLms Require Properties.C01.
From HbsLms Require Import Proofs.Lengths.

Local Open Scope N_scope.

Definition hash_sizes : list nat := [16%nat; 24%nat; 32%nat].

(* obligations on the constants of the current source, decided by computation *)
Lemma source_consts_rfc : consts_rfc K_src = true.
Proof. vm_compute. reflexivity. Qed.
Lemma source_consts_hashsigs : consts_hashsigs K_src = true.
Proof. vm_compute. reflexivity. Qed.

(* KNOWN FINDING (known_findings.json, C07 lmots-ls-...): rows whose checksum shift is not the
   Appendix-B value: (n, w, ls used) *)
Definition known_dev_b (n : nat) (prm : otsp) : bool :=
  existsb (fun t => match t with (n', w', ls') =>
             Nat.eqb n n' && (o_w prm =? w') && (o_ls prm =? ls') end)
          [(16%nat, 1, 7); (16%nat, 2, 6); (24%nat, 1, 7)].

Lemma source_rows_ok :
  forallb (fun n => forallb (fun p => dom_ok n (fst p) || known_dev_b n (fst p)) (tbl_params K_src n))
          hash_sizes = true.
Proof. vm_compute. reflexivity. Qed.

Lemma row_ok n p :
  In n hash_sizes -> In p (tbl_params K_src n) -> known_dev_b n (fst p) = false -> dom_ok n (fst p) = true.
Proof.
  intros Hn Hp Hk. pose proof source_rows_ok as S. rewrite forallb_forall in S. specialize (S n Hn).
  rewrite forallb_forall in S. specialize (S p Hp). rewrite Hk, orb_false_r in S. exact S.
Qed.

Lemma n_range n : In n hash_sizes -> (16 <= n <= 32)%nat.
Proof. intros [<-|[<-|[<-|[]]]]; lia. Qed.

(* LM-OTS: Algorithm 1 (public key), Algorithm 3 (signature), Appendix A (private key elements) *)
Theorem C07_lmots_public_key_is_alg1 :
  forall (n : nat) (H : bytes -> bytes) (I : bytes) (q : N) (seed : bytes) (prm : otsp),
    (forall x, length (H x) = n) -> length I = 16%nat ->
    ots_pub K_src n H I q seed prm = alg1_public_key H I q (o_w prm) (N.of_nat (o_p prm)) seed.
Proof. intros n H I q seed prm HL. exact (ots_pub_rfc K_src n H HL source_consts_rfc I q seed prm). Qed.

Theorem C07_lmots_signature_is_alg3 :
  forall (n : nat) (H : bytes -> bytes) (I : bytes) (q : N) (seed : bytes) (p : param) (C msg : bytes),
    In n hash_sizes -> (forall x, length (H x) = n) -> In p (tbl_params K_src n) ->
    known_dev_b n (fst p) = false -> length I = 16%nat ->
    ots_sig_bytes (fst p) C (ots_sign_ys K_src n H I q seed (fst p) C msg)
    = alg3_signature n H (o_type (fst p)) I q (o_w (fst p)) (N.of_nat (o_p (fst p))) (o_ls (fst p)) seed C msg.
Proof.
  intros n H I q seed p C msg Hn HL Hp Hk LI.
  exact (ots_sig_rfc K_src n H HL source_consts_rfc I q seed (fst p) C msg (row_ok n p Hn Hp Hk) LI).
Qed.

(* HSS: the signature for counter c is  u32str(L-1) || (LMS signature of the next level's public key
   || that public key) for every upper level || LMS signature of the message,  each LMS signature
   being 5.4.1 with Algorithm 3 and Appendix-B parameters, at the leaf selected by the counter,
   with the seed-derived randomizer *)
Theorem C07_signature_is_rfc8554 :
  forall (n : nat) (H : bytes -> bytes) (ps : list param) (seed : bytes) (c : N) (msg sig : bytes),
    In n hash_sizes -> (forall x, length (H x) = n) ->
    Forall (fun p => In p (tbl_params K_src n) /\ known_dev_b n (fst p) = false) ps ->
    (length seed <= 32)%nat ->
    hss_signature K_src n H ps seed c msg = Ok sig ->
    match combine ps (leaf_digits (heights_of ps) c) with
    | [] => False
    | (p0, q0) :: below =>
      let (s0, I0) := hs_root H seed in
      sig = hss_signature_rfc n H (hs_levels H s0 I0 p0 q0 below) msg
    end.
Proof.
  intros n H ps seed c msg sig Hn HL F Ls E.
  apply (hss_signature_is_rfc K_src n H HL (n_range n Hn) source_consts_rfc source_consts_hashsigs ps seed c msg sig);
    try assumption.
  apply Forall_forall. intros p Hp. rewrite Forall_forall in F. destruct (F p Hp) as [A B].
  now apply row_ok.
Qed.

(* what the signing entry point returns is that signature *)
Theorem C07_sign_core_releases_it :
  forall (n : nat) (H : bytes -> bytes) (blob msg : bytes) (cb : bytes -> bool) (sig : bytes) (calls : list (bytes * bool)),
    sign_core K_src n H blob msg cb = (Ok sig, calls) ->
    exists k ps, blob_parse K_src n blob = Ok k /\ params_of_bytes K_src n (k_params k) = Ok ps
                 /\ hss_signature K_src n H ps (k_seed k) (k_counter k) msg = Ok sig.
Proof.
  intros n H blob msg cb sig calls. unfold sign_core.
  destruct (blob_parse K_src n blob) as [k| |] eqn:E1; try discriminate.
  destruct (params_of_bytes K_src n (k_params k)) as [ps| |] eqn:E2; try discriminate.
  destruct (hss_signature K_src n H ps (k_seed k) (k_counter k) msg) as [s| |] eqn:E; try discriminate.
  destruct (cb _); [|discriminate]. intros [= <- _]. exists k, ps. repeat split; (reflexivity || assumption).
Qed.

(* obligation on the tables of the current source: type ids are the codes they are listed under,
   digit indices fit u16, heights fit the 32-bit leaf index; decided by computation *)
Lemma source_tables_ok : forallb (tables_ok K_src) hash_sizes = true.
Proof. vm_compute. reflexivity. Qed.

Lemma tables_ok_n n : In n hash_sizes -> tables_ok K_src n = true.
Proof. intros Hn. pose proof source_tables_ok as S. rewrite forallb_forall in S. now apply S. Qed.


(* "An independent implementation of RFC 8554 verification therefore accepts every released
   signature": the transcription of RFC 8554 section 6.3 (Spec/Rfc8554.v), run with the parameter
   rows of the current source, returns VALID on whatever key generation and the signing entry
   point hand out, at every counter value.  (C02 shows which of those rows are the RFC's.) *)
Theorem C07_rfc_verifier_accepts_released_signatures :
  forall (n : nat) (H : bytes -> bytes),
    In n hash_sizes -> (forall x, length (H x) = n) ->
    forall (ps : list param) (seed sk pk : bytes) (c : N) (msg : bytes)
           (cb : bytes -> bool) (sig : bytes) (calls : list (bytes * bool)),
      Forall (fun p => In p (tbl_params K_src n)) ps -> length seed = n ->
      keygen K_src n H ps seed = Ok (sk, pk) ->
      c < 256 ^ N.of_nat (c_used_leafs_size K_src) ->
      sign_core K_src n H (with_counter K_src sk c) msg cb = (Ok sig, calls) ->
      hss_verify_rfc n H (ots_tbl_of K_src n) (lms_tbl_of K_src)
                     (N.of_nat (c_max_levels K_src)) msg sig pk = true.
Proof.
  intros n H Hn HL ps seed sk pk c msg cb sig calls F Ls KG Hc SG.
  apply (hss_verify_iff_rfc K_src n H HL source_consts_rfc (tables_ok_n n Hn) msg sig pk).
  exact (C01.C01_released_signature_verifies n H Hn HL ps seed sk pk c msg cb sig calls F Ls KG Hc SG).
Qed.


(* "every length equals the RFC formula": an LM-OTS signature has 4 + n (p + 1) bytes, an LMS
   signature 12 + n (p + 1) + n h, an LMS public key 24 + n; the released HSS signature is
   4 + sum over the upper levels (LMS signature + LMS public key) + the bottom LMS signature, the
   HSS public key 4 + 24 + n -- for every hash with n-byte output, parameter list, seed, counter
   and message *)
Theorem C07_lengths_are_rfc :
  forall (n : nat) (H : bytes -> bytes) (ps : list param) (seed : bytes) (c : N) (msg sig pk : bytes),
    In n hash_sizes -> (forall x, length (H x) = n) ->
    hss_signature K_src n H ps seed c msg = Ok sig -> hss_public_key K_src n H ps seed = Ok pk ->
    length sig = (4 + sumnat (map (fun p => (12 + n * (o_p (fst p) + 1) + n * l_h (snd p)) + (24 + n))%nat (removelast ps))
                  + (12 + n * (o_p (fst (last ps (hd ({| o_type := 0; o_w := 0; o_p := 0; o_ls := 0 |}, {| l_type := 0; l_h := 0 |}) ps))) + 1)
                     + n * l_h (snd (last ps (hd ({| o_type := 0; o_w := 0; o_p := 0; o_ls := 0 |}, {| l_type := 0; l_h := 0 |}) ps)))))%nat
    /\ length pk = (4 + (24 + n))%nat.
Proof.
  intros n H ps seed c msg sig pk Hn HL ES EP.
  assert (IL : (c_ilen K_src <= n)%nat) by (pose proof (n_range n Hn); cbn; lia).
  assert (LS : N.of_nat (c_max_levels K_src) < 4294967296) by (cbn; lia).
  split.
  - exact (hss_signature_length K_src n H HL IL LS ps seed c msg sig ES).
  - exact (hss_public_key_length K_src n H HL IL LS ps seed pk EP).
Qed.

(* the RFC's own test vectors: accepted by the independent transcription and by the model *)
Theorem C07_rfc_vectors :
  rfc_verify rfc_testcase1_message rfc_testcase1_signature rfc_testcase1_public_key = true
  /\ rfc_verify rfc_testcase2_message rfc_testcase2_signature rfc_testcase2_public_key = true
  /\ hss_verify K_src 32 sha rfc_testcase1_message rfc_testcase1_signature rfc_testcase1_public_key = Ok tt
  /\ hss_verify K_src 32 sha rfc_testcase2_message rfc_testcase2_signature rfc_testcase2_public_key = Ok tt.
Proof. split; [exact kat1_spec|split; [exact kat2_spec|split; [exact kat1_model|exact kat2_model]]]. Qed.


(* the hash preimage layouts of the current source (translator: ordered .chain / .update arguments
   per function) are the layouts the model writes down (Model/HashInputs.v) *)
From HbsLms Require Model.HashInputs.
Theorem C07_hash_input_layouts : src_hash_inputs = HashInputs.model_hash_inputs.
Proof. apply HashInputs.layouts_eqb_eq. vm_compute. reflexivity. Qed.

Print Assumptions C07_hash_input_layouts.
Print Assumptions C07_lmots_public_key_is_alg1.
Print Assumptions C07_lmots_signature_is_alg3.
Print Assumptions C07_signature_is_rfc8554.
Print Assumptions C07_sign_core_releases_it.
Print Assumptions C07_lengths_are_rfc.
Print Assumptions C07_rfc_verifier_accepts_released_signatures.
