(* C09 -- key generation and signing are pure functions of their inputs.
   In Gallina every definition is a function, so "same inputs, same outputs" holds of the model by
   construction: [keygen K n H ps seed] and [sign_core K n H blob msg cb] have no other arguments.
   What has content is (1) that all entry points are the same function, (2) that a reloaded key
   continues exactly like the key that stayed in memory, and (3) that the SOURCE has nothing an
   interleaving, an earlier call or another thread could act on: the translator's audit of the
   current source finds no static, thread-local, interior mutability, RNG, clock, environment or
   file access outside cfg(feature = "fast_verify"), and the crate forbids unsafe code.
   (Thread schedules themselves are runtime behaviour; they are exercised by the harness.) *)
From HbsLms Require Import Base.Bytes Model.Consts Model.KeyBlob Model.Hss Model.SignCore Model.History.
From HbsLms Require Import Proofs.KeyBlobProofs Proofs.SignProofs Gen.Generated.

Local Open Scope N_scope.

(* (3) audit of the current source, regenerated on every run *)
Theorem C09_no_ambient_state : src_ambient = [] /\ src_forbid_unsafe = true.
Proof. split; reflexivity. Qed.

(* (3') the in-memory keys carry no state beyond their bytes: the fields of SigningKey and
   VerifyingKey in the struct table of the current source are the key bytes and a marker, so that
   [try_sign] can only be a function of those bytes (as [signing_key_try_sign] models it) *)
Definition key_object_fields (name : String.string) : option (list String.string) :=
  match find (fun st => String.eqb (fst (fst st)) name) src_structs with
  | Some st => Some (map (fun f => fst (fst f)) (snd st))
  | None => None
  end.

Theorem C09_key_objects_are_their_bytes :
  key_object_fields "SigningKey"%string = Some ["bytes"%string; "phantom_data"%string]
  /\ key_object_fields "VerifyingKey"%string = Some ["bytes"%string; "phantom_data"%string].
Proof. split; vm_compute; reflexivity. Qed.

(* (1) the in-memory signing key is the byte-level function with the storing callback *)
Theorem C09_entry_points_agree :
  forall (n : nat) (H : bytes -> bytes) (key msg : bytes),
    fst (signing_key_try_sign K_src n H key msg) = fst (sign_core K_src n H key msg (fun _ => true))
    /\ (forall sig, fst (sign_core K_src n H key msg (fun _ => true)) = Ok sig ->
        snd (sign_core K_src n H key msg (fun _ => true)) = [(snd (signing_key_try_sign K_src n H key msg), true)]).
Proof.
  intros n H key msg. unfold signing_key_try_sign.
  pose proof (sign_core_effects K_src n H key msg (fun _ => true)) as E.
  destruct (sign_core K_src n H key msg (fun _ => true)) as [r calls] eqn:S.
  specialize (E r calls eq_refl). destruct E as [_ [E2 _]].
  destruct r as [sig| |]; cbn [fst snd].
  - destruct (E2 sig eq_refl) as [next [-> _]]. split; [reflexivity|]. intros s _. reflexivity.
  - split; [reflexivity|discriminate].
  - split; [reflexivity|discriminate].
Qed.

(* the result of signing does not depend on the callback except through its verdict *)
Theorem C09_callback_only_verdict :
  forall (n : nat) (H : bytes -> bytes) (blob msg : bytes) (cb1 cb2 : bytes -> bool),
    (forall b, cb1 b = cb2 b) ->
    sign_core K_src n H blob msg cb1 = sign_core K_src n H blob msg cb2.
Proof.
  intros n H blob msg cb1 cb2 E. unfold sign_core.
  destruct (blob_parse K_src n blob) as [k| |]; try reflexivity.
  destruct (params_of_bytes K_src n (k_params k)) as [ps| |]; try reflexivity.
  destruct (hss_signature K_src n H ps (k_seed k) (k_counter k) msg); try reflexivity.
  now rewrite E.
Qed.

(* (2) reloading the persisted key at any point of a history changes nothing: storage holds the
   complete state *)
Theorem C09_reload_is_invisible :
  forall (n : nat) (H : bytes -> bytes) (ops1 ops2 : list op) (blob : bytes),
    run K_src n H (ops1 ++ OReload :: ops2) blob = run K_src n H (ops1 ++ ops2) blob.
Proof.
  intros n H ops1 ops2; induction ops1 as [|o r IH]; intros blob.
  - cbn [app run step]. destruct (run K_src n H ops2 blob). reflexivity.
  - cbn [app run]. destruct (step K_src n H blob o) as [b' rel]. now rewrite IH.
Qed.

(* serialising and re-parsing a private key is the identity (what "reload" relies on) *)
Theorem C09_blob_roundtrip :
  forall (n : nat) (k : rfc_key),
    length (k_params k) = c_ref_levels K_src -> length (k_seed k) = n ->
    k_counter k < 256 ^ N.of_nat (c_used_leafs_size K_src) ->
    blob_parse K_src n (blob_of K_src k) = Ok k.
Proof. intros n k. apply blob_parse_of. Qed.

Print Assumptions C09_no_ambient_state.
Print Assumptions C09_key_objects_are_their_bytes.
Print Assumptions C09_entry_points_agree.
Print Assumptions C09_callback_only_verdict.
Print Assumptions C09_reload_is_invisible.
Print Assumptions C09_blob_roundtrip.
