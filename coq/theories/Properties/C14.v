(* C14 -- build-time limits only restrict what is accepted, never how accepted keys behave.
   Only statements; proofs in Proofs/CfgProofs.v.  A build configuration is
   (MAX_ALLOWED_HSS_LEVELS, TREE_HEIGHTS, WINTERNITZ_PARAMETERS); [with_cfg K_src lv hs ws] is the
   model of the library built under it, [K_src] the model under the configuration of the
   current source tree (the default one). *)
From HbsLms Require Import Base.Bytes Model.Consts Model.KeyBlob Model.Codec Model.Hss Model.SignCore.
From HbsLms Require Import Proofs.KeyBlobProofs Proofs.SignProofs Proofs.CfgProofs Proofs.TotalProofs Gen.Generated.

Local Open Scope N_scope.

Definition hash_sizes : list nat := [16%nat; 24%nat; 32%nat].

Lemma source_pack_ok : forallb (pack_ok K_src) hash_sizes = true.
Proof. vm_compute. reflexivity. Qed.
Lemma pack_ok_n n : In n hash_sizes -> pack_ok K_src n = true.
Proof. intros Hn. pose proof source_pack_ok as S. rewrite forallb_forall in S. now apply S. Qed.

(* every parameter list within the limits of both builds: same private key and public key *)
Theorem C14_same_keys_within_limits :
  forall (n : nat) (H : bytes -> bytes) (lv : nat) (hs ws : list N) (ps : list param) (seed : bytes),
    In n hash_sizes -> Forall (fun p => In p (tbl_params K_src n)) ps -> ps <> [] ->
    all_within_limits (with_cfg K_src lv hs ws) 0 ps = true -> all_within_limits K_src 0 ps = true ->
    keygen (with_cfg K_src lv hs ws) n H ps seed = keygen K_src n H ps seed.
Proof.
  intros n H lv hs ws ps seed Hn. exact (keygen_cfg K_src n H lv hs ws (pack_ok_n n Hn) ps seed).
Qed.

(* ... same signatures, same successor keys, same callback record, same lifetime *)
Theorem C14_same_signatures_within_limits :
  forall (n : nat) (H : bytes -> bytes) (lv : nat) (hs ws : list N) (blob : bytes) (k : rfc_key)
         (ps : list param) (msg : bytes) (cb : bytes -> bool),
    blob_parse K_src n blob = Ok k ->
    params_of_bytes (with_cfg K_src lv hs ws) n (k_params k) = Ok ps -> params_of_bytes K_src n (k_params k) = Ok ps ->
    sign_core (with_cfg K_src lv hs ws) n H blob msg cb = sign_core K_src n H blob msg cb
    /\ get_lifetime (with_cfg K_src lv hs ws) n blob = get_lifetime K_src n blob.
Proof.
  intros n H lv hs ws blob k ps msg cb EB E' E. split.
  - exact (sign_core_cfg K_src n H lv hs ws blob k ps msg cb EB E' E).
  - exact (get_lifetime_cfg K_src n lv hs ws blob k ps EB E' E).
Qed.

(* ... same verification verdicts for signatures with fewer levels than either build supports *)
Theorem C14_same_verdicts_within_limits :
  forall (n : nat) (H : bytes -> bytes) (lv : nat) (hs ws : list N) (msg sig pk nb rest : bytes),
    rd 4 sig = Ok (nb, rest) -> be_dec nb < N.of_nat lv -> be_dec nb < N.of_nat (c_max_levels K_src) ->
    hss_verify (with_cfg K_src lv hs ws) n H msg sig pk = hss_verify K_src n H msg sig pk.
Proof. intros n H lv hs ws. apply hss_verify_cfg. Qed.

(* parameter lists beyond the limits are refused with an error: at key generation ... *)
Theorem C14_beyond_limits_refused_at_keygen :
  forall (n : nat) (H : bytes -> bytes) (lv : nat) (hs ws : list N) (ps : list param) (seed : bytes),
    all_within_limits (with_cfg K_src lv hs ws) 0 ps = false ->
    keygen (with_cfg K_src lv hs ws) n H ps seed = Err.
Proof. intros n H lv hs ws. apply keygen_beyond_limits. Qed.

(* ... and when a key written by a build with wider limits is loaded: no callback, no signature *)
Theorem C14_beyond_limits_refused_at_load :
  forall (n : nat) (H : bytes -> bytes) (lv : nat) (hs ws : list N) (blob : bytes) (k : rfc_key)
         (msg : bytes) (cb : bytes -> bool),
    blob_parse K_src n blob = Ok k -> params_of_bytes (with_cfg K_src lv hs ws) n (k_params k) = Err ->
    sign_core (with_cfg K_src lv hs ws) n H blob msg cb = (Err, [])
    /\ get_lifetime (with_cfg K_src lv hs ws) n blob = Err.
Proof. intros n H lv hs ws. apply key_load_beyond_limits. Qed.

(* ... and never a crash, under any configuration (C11's totality theorems are generic in K) *)
Theorem C14_no_crash_under_any_configuration :
  forall (n : nat) (H : bytes -> bytes) (lv : nat) (hs ws : list N) (ps : list param) (seed blob msg : bytes)
         (cb : bytes -> bool),
    keygen (with_cfg K_src lv hs ws) n H ps seed <> Panic
    /\ fst (sign_core (with_cfg K_src lv hs ws) n H blob msg cb) <> Panic.
Proof. intros. split; [apply keygen_total|apply sign_core_total]. Qed.

(* the private key always carries 8 parameter bytes, whatever the level limit of the build *)
Theorem C14_blob_size_is_configuration_independent :
  forall (lv : nat) (hs ws : list N) (k : rfc_key),
    blob_of (with_cfg K_src lv hs ws) k = blob_of K_src k
    /\ c_ref_levels (with_cfg K_src lv hs ws) = 8%nat.
Proof. intros. split; reflexivity. Qed.

(* non-vacuity: a 2-level configuration accepts W4/H5 x 2 and refuses three levels and W1 *)
Example ex_C14_limits :
  let K2 := with_cfg K_src 2 [5; 5] [4; 4] in
  let o4 := {| o_type := 3; o_w := 4; o_p := 35; o_ls := 4 |} in
  let o1 := {| o_type := 1; o_w := 1; o_p := 136; o_ls := 7 |} in
  let h5 := {| l_type := 5; l_h := 5 |} in
  all_within_limits K2 0 [(o4, h5); (o4, h5)] = true
  /\ all_within_limits K2 0 [(o4, h5); (o4, h5); (o4, h5)] = false
  /\ all_within_limits K2 0 [(o1, h5)] = false.
Proof. vm_compute. repeat split. Qed.

Print Assumptions C14_same_keys_within_limits.
Print Assumptions C14_same_signatures_within_limits.
Print Assumptions C14_same_verdicts_within_limits.
Print Assumptions C14_beyond_limits_refused_at_keygen.
Print Assumptions C14_beyond_limits_refused_at_load.
Print Assumptions C14_no_crash_under_any_configuration.
