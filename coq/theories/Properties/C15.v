(* C15 -- fast-verify signing yields ordinary valid signatures, touching only the trailer.
   Only statements; proofs in Proofs/FastVerifyProofs.v (+ C01, C04).
   The randomizer search is modelled by the n bytes [r] it leaves in the trailer; every theorem is
   for EVERY r, which covers every thread count, interleaving, RNG output and
   MAX_HASH_OPTIMIZATIONS setting.  Partial: scheduling itself is not modelled; the claim is that no
   schedule can matter beyond r. *)
From HbsLms Require Import Base.Bytes Model.Consts Model.Winternitz Model.Lmots Model.KeyBlob Model.Hss
     Model.SignCore Model.FastVerify.
From HbsLms Require Import Proofs.FastVerifyProofs Proofs.SignProofs Proofs.KeyBlobProofs Proofs.WinternitzDom
     Gen.Generated.
From HbsLms Require Import Properties.C01.

Local Open Scope N_scope.

(* signing a body followed by n zero bytes = ordinary signing of body || r; the buffer afterwards is
   body || r (unchanged if the key does not even load); callback protocol as for ordinary signing *)
Theorem C15_sign_mut_is_sign :
  forall (n : nat) (H : bytes -> bytes) (blob body r : bytes) (cb : bytes -> bool),
    body <> [] ->
    sign_mut K_src n H blob (body ++ repeat x00 n) r cb
    = (fst (sign_core K_src n H blob (body ++ r) cb), snd (sign_core K_src n H blob (body ++ r) cb),
       if key_loads K_src n blob then body ++ r else body ++ repeat x00 n).
Proof. intros n H. apply sign_mut_wellformed. Qed.

(* hence the returned signature verifies for the returned message (with C01) *)
Theorem C15_signature_verifies_for_returned_message :
  forall (n : nat) (H : bytes -> bytes),
    In n hash_sizes -> (forall x, length (H x) = n) ->
    forall (ps : list param) (seed sk pk : bytes) (c : N) (body r : bytes) (cb : bytes -> bool)
           (sig : bytes) (calls : list (bytes * bool)) (msg' : bytes),
      Forall (fun p => In p (tbl_params K_src n)) ps -> length seed = n ->
      keygen K_src n H ps seed = Ok (sk, pk) ->
      c < 256 ^ N.of_nat (c_used_leafs_size K_src) ->
      body <> [] ->
      sign_mut K_src n H (with_counter K_src sk c) (body ++ repeat x00 n) r cb = (Ok sig, calls, msg') ->
      hss_verify K_src n H msg' sig pk = Ok tt /\ firstn (length body) msg' = body.
Proof.
  intros n H Hn HL ps seed sk pk c body r cb sig calls msg' F Ls Ek Hc Hb E.
  rewrite sign_mut_wellformed in E by assumption.
  destruct (sign_core K_src n H (with_counter K_src sk c) (body ++ r) cb) as [res cl] eqn:ES.
  cbn [fst snd] in E. injection E as -> -> <-.
  assert (KL : key_loads K_src n (with_counter K_src sk c) = true).
  { unfold key_loads. unfold sign_core in ES.
    destruct (blob_parse K_src n (with_counter K_src sk c)) as [k| |]; try discriminate ES.
    destruct (params_of_bytes K_src n (k_params k)); try discriminate ES. reflexivity. }
  rewrite KL. split.
  - exact (C01_released_signature_verifies n H Hn HL ps seed sk pk c (body ++ r) cb sig calls F Ls Ek Hc ES).
  - rewrite firstn_app, Nat.sub_diag, firstn_all. cbn [firstn]. now rewrite app_nil_r.
Qed.

(* too short, or a trailer that is not zero: refused, no callback, buffer untouched *)
Theorem C15_refused_without_consuming_a_leaf :
  forall (n : nat) (H : bytes -> bytes) (blob msg r : bytes) (cb : bytes -> bool),
    (length msg <= n)%nat \/ ((n < length msg)%nat /\ all_zero (skipn (length msg - n) msg) = false) ->
    sign_mut K_src n H blob msg r cb = (Err, [], msg).
Proof.
  intros n H blob msg r cb [Hs|[Hl Hz]].
  - now apply sign_mut_refuses_short.
  - now apply sign_mut_refuses_nonzero_trailer.
Qed.

(* the cost function of the search is total and equals the number of hash iterations a verifier
   saves: the sum of the chain positions (rows that follow Appendix B) *)
Theorem C15_cost_function :
  forall (n : nat) (prm : otsp) (Q : bytes),
    dom_ok n prm = true -> length Q = n ->
    fv_eval n prm Q = Ok (ots_hash_iterations n prm Q).
Proof. intros n prm Q OK HL. exact (fv_eval_spec n prm OK Q HL). Qed.

Print Assumptions C15_sign_mut_is_sign.
Print Assumptions C15_signature_verifies_for_returned_message.
Print Assumptions C15_refused_without_consuming_a_leaf.
Print Assumptions C15_cost_function.
