(* C11 -- key generation and signing reject malformed inputs instead of crashing.
   Only statements; proofs in Proofs/TotalProofs.v and Proofs/SignProofs.v.
   [Panic] is the model's outcome for "the Rust code unwinds".  The auxiliary-buffer clause
   (empty, shorter than its header, corrupted level word, any contents) is
   [C11_aux_view_total], [C11_sign_with_aux_total], [C11_keygen_with_aux_total]
   (proofs in Proofs/AuxTotal.v). *)
From HbsLms Require Import Base.Bytes Model.Consts Model.KeyBlob Model.Hss Model.SignCore.
From HbsLms Require Import Model.Aux.
From HbsLms Require Import Proofs.TotalProofs Proofs.SignProofs Proofs.AuxTotal Gen.Generated.

Local Open Scope N_scope.

Lemma source_heights_ok : heights_ok K_src = true.
Proof. vm_compute. reflexivity. Qed.

(* key generation with ANY parameter list (empty, longer than eight levels, beyond the build
   limits) and any seed *)
Theorem C11_keygen_total :
  forall (n : nat) (H : bytes -> bytes) (ps : list param) (seed : bytes),
    keygen K_src n H ps seed <> Panic.
Proof. intros. apply keygen_total. Qed.

(* signing with ANY private-key bytes (wrong length, invalid parameter bytes, wiped) *)
Theorem C11_sign_total :
  forall (n : nat) (H : bytes -> bytes) (blob msg : bytes) (cb : bytes -> bool),
    fst (sign_core K_src n H blob msg cb) <> Panic.
Proof. intros. apply sign_core_total. Qed.

(* lifetime queries with ANY private-key bytes *)
Theorem C11_lifetime_total :
  forall (n : nat) (key : bytes), get_lifetime K_src n key <> Panic.
Proof. intros. apply get_lifetime_total. exact source_heights_ok. Qed.

(* on these error paths the callback is not invoked with an accepted key and nothing is released:
   a malformed key (unparsable blob or parameter bytes) never reaches the callback at all *)
Theorem C11_malformed_key_no_callback :
  forall (n : nat) (H : bytes -> bytes) (blob msg : bytes) (cb : bytes -> bool),
    (blob_parse K_src n blob = Err \/
     exists k, blob_parse K_src n blob = Ok k /\ params_of_bytes K_src n (k_params k) = Err) ->
    sign_core K_src n H blob msg cb = (Err, []).
Proof.
  intros n H blob msg cb [E|[k [E1 E2]]]; unfold sign_core.
  - now rewrite E.
  - now rewrite E1, E2.
Qed.


(* ---- any auxiliary buffer ---- *)

(* obligation on the aux constants of the current source (header offset, marker position, the
   in-use bit 31 lies above every tree level), decided by computation *)
Lemma source_aux_consts_ok : aux_consts_ok K_src = true.
Proof. vm_compute. reflexivity. Qed.

(* whatever the buffer contains -- empty, one byte, a level word announcing more layers than the
   buffer holds, garbage behind a zero first byte -- the view is either absent or a well-split
   cache; the layer split never runs past the end of the buffer *)
Theorem C11_aux_view_total :
  forall (n : nat) (H : bytes -> bytes) (aux seed : bytes) (h0 : nat),
    exists oe aux1, get_expanded K_src n H aux seed h0 = Ok (oe, aux1).
Proof. intros n H. exact (get_expanded_total K_src n H source_aux_consts_ok). Qed.

Theorem C11_sign_with_aux_total :
  forall (n : nat) (H : bytes -> bytes) (blob msg aux : bytes) (cb : bytes -> bool),
    fst (fst (sign_core_aux K_src n H blob msg aux cb)) <> Panic.
Proof. intros n H. exact (sign_core_aux_total K_src n H source_aux_consts_ok). Qed.

Theorem C11_keygen_with_aux_total :
  forall (n : nat) (H : bytes -> bytes) (ps : list param) (seed aux : bytes),
    keygen_aux K_src n H ps seed aux <> Panic.
Proof. intros n H. exact (keygen_aux_total K_src n H source_aux_consts_ok). Qed.

(* non-vacuity: a wiped key and a key with an invalid parameter nibble are such malformed keys *)
Example ex_C11_malformed :
  params_of_bytes K_src 32 (unhex "ffffffffffffffff") = Err
  /\ params_of_bytes K_src 32 (unhex "35ffffffffffffff") = Err
  /\ is_ok (params_of_bytes K_src 32 (unhex "13ffffffffffffff")) = true.
Proof. vm_compute. repeat split. Qed.

Print Assumptions C11_keygen_total.
Print Assumptions C11_sign_total.
Print Assumptions C11_lifetime_total.
Print Assumptions C11_malformed_key_no_callback.
Print Assumptions C11_aux_view_total.
Print Assumptions C11_sign_with_aux_total.
Print Assumptions C11_keygen_with_aux_total.
