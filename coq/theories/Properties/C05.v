(* C05 -- a key signs exactly 2^(sum of heights) times, then is wiped and refuses.
   Only statements; proofs in Proofs/HistoryProofs.v and Proofs/CounterProofs.v. *)
From HbsLms Require Import Base.Bytes Model.Consts Model.Counter Model.KeyBlob Model.Hss Model.SignCore
     Model.History.
From HbsLms Require Import Proofs.CounterProofs Proofs.KeyBlobProofs Proofs.SignProofs Proofs.TotalProofs
     Proofs.HistoryProofs Gen.Generated.
From HbsLms Require Import Properties.C03.

Local Open Scope N_scope.

(* remaining lifetime after j released signatures = number of leaves - j; in particular a fresh
   key (j = 0) reports the product of its per-level tree sizes, and every released signature
   lowers the reported lifetime by exactly one *)
Theorem C05_lifetime_counts_down :
  forall (n : nat) (H : bytes -> bytes) (ps : list param) (seed pb : bytes) (j : N),
    In n hash_sizes -> (forall x, length (H x) = n) -> generated n ps seed pb ->
    j < total ps ->
    get_lifetime K_src n (blob_at K_src n ps seed pb j) = Ok (total ps - j).
Proof.
  intros n H ps seed pb j Hn HL [G1 G2 G3 G4 G5] Hj.
  pose proof (model_ok_n n Hn) as OK. pose proof (fits ps G5) as FT.
  erewrite lifetime_at; try eassumption; [|exact source_heights_ok].
  f_equal. apply N.min_l. unfold total, u64_max in *.
  assert (2 ^ sumN (heights_of ps) <= 2 ^ 63) by (apply N.pow_le_mono_r; lia).
  change (2 ^ 64) with (2 * 2 ^ 63). lia.
Qed.

(* the signature that uses the last leaf hands the callback the wiped key: counter zero,
   parameter bytes 0xff, seed all zero, same length *)
Theorem C05_last_leaf_hands_over_wiped_key :
  forall (n : nat) (H : bytes -> bytes) (ps : list param) (seed pb msg : bytes) (cb : bytes -> bool),
    In n hash_sizes -> (forall x, length (H x) = n) -> generated n ps seed pb ->
    let last := total ps - 1 in
    let wiped_blob := be (c_used_leafs_size K_src) 0 ++ repeat xff (c_ref_levels K_src) ++ repeat x00 n in
    snd (sign_core K_src n H (blob_at K_src n ps seed pb last) msg cb) = [(wiped_blob, cb wiped_blob)]
    /\ length wiped_blob = length (blob_at K_src n ps seed pb last).
Proof.
  intros n H ps seed pb msg cb Hn HL [G1 G2 G3 G4 G5] last wiped_blob.
  pose proof (model_ok_n n Hn) as OK. pose proof (fits ps G5) as FT.
  assert (Hpos : 0 < total ps) by (apply N.neq_0_lt_0, N.pow_nonzero; lia).
  assert (Hl : last < total ps) by (unfold last; lia).
  erewrite sign_at by eassumption.
  replace (last + 1) with (total ps) by (unfold last; lia).
  assert (EW : blob_at K_src n ps seed pb (total ps) = wiped_blob).
  { unfold blob_at. destruct (N.ltb_spec (total ps) (total ps)); [lia|]. reflexivity. }
  rewrite EW. split; [destruct (cb wiped_blob); reflexivity|].
  unfold blob_at. destruct (N.ltb_spec last (total ps)); [|lia].
  unfold wiped_blob, blob_of, key_at. cbn [k_counter k_params k_seed].
  rewrite !app_length, !be_length, !repeat_length.
  destruct (R K_src n OK ps pb G1 G3 G4) as [_ Lpb]. lia.
Qed.

(* from then on signing fails without invoking the callback or releasing anything, and lifetime
   queries fail *)
Theorem C05_wiped_key_refuses :
  forall (n : nat) (H : bytes -> bytes) (msg : bytes) (cb : bytes -> bool),
    In n hash_sizes ->
    let wiped_blob := be (c_used_leafs_size K_src) 0 ++ repeat xff (c_ref_levels K_src) ++ repeat x00 n in
    sign_core K_src n H wiped_blob msg cb = (Err, [])
    /\ get_lifetime K_src n wiped_blob = Err.
Proof.
  intros n H msg cb Hn wiped_blob. pose proof (model_ok_n n Hn) as OK.
  assert (PW : blob_parse K_src n wiped_blob = Ok (wiped K_src n)).
  { change wiped_blob with (blob_of K_src (wiped K_src n)).
    apply blob_parse_of; unfold wiped; cbn [k_params k_seed k_counter]; try apply repeat_length.
    apply N.neq_0_lt_0, N.pow_nonzero. lia. }
  assert (PP : params_of_bytes K_src n (k_params (wiped K_src n)) = Err) by (vm_compute; reflexivity).
  split.
  - unfold sign_core. now rewrite PW, PP.
  - unfold get_lifetime. rewrite PW. cbn [bind]. now rewrite PP.
Qed.

(* exactly [total] signatures over any history: C03_history bounds the number of released
   signatures by the number of leaves, and a history of [total] accepted signing calls releases
   that many *)
Theorem C05_never_more_than_total :
  forall (n : nat) (H : bytes -> bytes) (ps : list param) (seed pb : bytes) (ops : list op),
    In n hash_sizes -> (forall x, length (H x) = n) -> generated n ps seed pb ->
    N.of_nat (length (snd (run K_src n H ops (blob_at K_src n ps seed pb 0)))) <= total ps.
Proof.
  intros n H ps seed pb ops Hn HL G.
  destruct (C03_history n H ps seed pb ops Hn HL G) as [msgs [E L]].
  rewrite E. cbn [snd]. rewrite map_length, combine_length, seq_length, Nat.min_id. exact L.
Qed.

Print Assumptions C05_lifetime_counts_down.
Print Assumptions C05_last_leaf_hands_over_wiped_key.
Print Assumptions C05_wiped_key_refuses.
Print Assumptions C05_never_more_than_total.
