From HbsLms Require Import Base.Bytes Model.Counter.
Theorem placeholder_C12 : sumN [] = 0%N.
Proof. reflexivity. Qed.
