(* C12 -- the Winternitz digit encoding is RFC-exact and domination-free.
   Only statements; proofs in Proofs/WinternitzProofs.v and Proofs/WinternitzDom.v.
   [K_src] is the table the translator reads from /repo's current source. *)
From HbsLms Require Import Base.Bytes Model.Consts Model.Winternitz Model.Counter Spec.Rfc8554Ots.
From HbsLms Require Import Proofs.WinternitzProofs Proofs.WinternitzDom Gen.Generated.

Local Open Scope N_scope.

Definition hash_sizes : list nat := [16%nat; 24%nat; 32%nat].

(* a parameter row obeys RFC 8554 Appendix B *)
Definition row_rfc (n : nat) (prm : otsp) : Prop :=
  wok (o_w prm)
  /\ N.of_nat (o_p prm) = rfc_p (N.of_nat n) (o_w prm)
  /\ o_ls prm = rfc_ls (N.of_nat n) (o_w prm).

Definition row_rfc_b (n : nat) (prm : otsp) : bool :=
  wok_b (o_w prm)
  && (N.of_nat (o_p prm) =? rfc_p (N.of_nat n) (o_w prm))
  && (o_ls prm =? rfc_ls (N.of_nat n) (o_w prm)).

(* KNOWN FINDING (known_findings.json, C12 lmots-ls-...): exactly these rows of the current
   source use a checksum shift that differs from Appendix B: (n, w, ls used) *)
Definition known_dev (n : nat) (prm : otsp) : Prop :=
  In (n, o_w prm, o_ls prm) [(16%nat, 1, 7); (16%nat, 2, 6); (24%nat, 1, 7)].

Definition known_dev_b (n : nat) (prm : otsp) : bool :=
  existsb (fun t => match t with (n', w', ls') =>
             Nat.eqb n n' && (o_w prm =? w') && (o_ls prm =? ls') end)
          [(16%nat, 1, 7); (16%nat, 2, 6); (24%nat, 1, 7)].

Definition table_check : bool :=
  forallb (fun n =>
    forallb (fun code =>
      match ots_of_type K_src n code with
      | None => true
      | Some prm => (row_rfc_b n prm && dom_ok n prm) || (known_dev_b n prm && dominated_b n prm)
      end) (map fst (c_ots_get_from_type K_src))) hash_sizes.

(* obligation on the current source, decided by computation over the finite table *)
Lemma table_check_ok : table_check = true.
Proof. vm_compute. reflexivity. Qed.

Lemma table_row n code prm :
  In n hash_sizes -> ots_of_type K_src n code = Some prm ->
  (row_rfc_b n prm && dom_ok n prm) || (known_dev_b n prm && dominated_b n prm) = true.
Proof.
  intros Hn E. pose proof table_check_ok as T. unfold table_check in T.
  rewrite forallb_forall in T. specialize (T n Hn). rewrite forallb_forall in T.
  assert (Hc : In code (map fst (c_ots_get_from_type K_src))).
  { unfold ots_of_type in E. destruct (assoc code (c_ots_get_from_type K_src)) as [v|] eqn:A; [|discriminate].
    apply assoc_In in A. apply in_map_iff. exists (code, v). split; [reflexivity|assumption]. }
  specialize (T code Hc). now rewrite E in T.
Qed.

Lemma known_dev_b_spec n prm : known_dev_b n prm = true -> known_dev n prm.
Proof.
  unfold known_dev_b, known_dev. rewrite existsb_exists. intros [[[n' w'] ls'] [Hin H]].
  rewrite !andb_true_iff, Nat.eqb_eq, !N.eqb_eq in H. destruct H as [[-> ->] ->]. exact Hin.
Qed.

Lemma row_rfc_b_spec n prm : row_rfc_b n prm = true -> row_rfc n prm.
Proof.
  unfold row_rfc_b, row_rfc. rewrite !andb_true_iff, !N.eqb_eq. intros [[H1 H2] H3].
  split; [now apply wok_b_spec|split; assumption].
Qed.

(* ------------------------------------------------------------------------------------------ *)

(* digit extraction is RFC 8554 section 3.1.3, for every string, index and w *)
Theorem C12_coef_rfc :
  forall (S : bytes) (i w : N), wok w -> i < 65536 -> coef S i w = rfc_coef S i w.
Proof. exact coef_rfc. Qed.

(* every parameter row of the source either is the Appendix-B row (p = u + v, ls = 16 - v*w)
   or is one of the three listed known deviations *)
Theorem C12_table_rfc_except_known :
  forall (n : nat) (code : N) (prm : otsp),
    In n hash_sizes -> ots_of_type K_src n code = Some prm ->
    row_rfc n prm \/ known_dev n prm.
Proof.
  intros n code prm Hn E. pose proof (table_row n code prm Hn E) as T.
  apply orb_true_iff in T. destruct T as [T|T]; apply andb_true_iff in T; destruct T as [T _].
  - left. now apply row_rfc_b_spec.
  - right. now apply known_dev_b_spec.
Qed.

(* for every other row: the chain positions are the RFC digits of Q || Cksm(Q) ... *)
Theorem C12_digits_rfc :
  forall (n : nat) (code : N) (prm : otsp) (Q : bytes),
    In n hash_sizes -> ots_of_type K_src n code = Some prm -> ~ known_dev n prm ->
    digits n prm Q
    = rfc_digits (N.of_nat n) (o_w prm) (rfc_ls (N.of_nat n) (o_w prm)) (rfc_p (N.of_nat n) (o_w prm)) Q.
Proof.
  intros n code prm Q Hn E Hk. pose proof (table_row n code prm Hn E) as T.
  apply orb_true_iff in T. destruct T as [T|T]; apply andb_true_iff in T; destruct T as [T1 T2].
  - destruct (row_rfc_b_spec _ _ T1) as [_ [Hp Hls]]. rewrite <- Hp, <- Hls. now apply digits_rfc.
  - exfalso. apply Hk. now apply known_dev_b_spec.
Qed.

(* ... the checksum digits, read in base 2^w, are the full checksum value ... *)
Theorem C12_checksum_digits_encode_full_value :
  forall (n : nat) (code : N) (prm : otsp) (Q : bytes),
    In n hash_sizes -> ots_of_type K_src n code = Some prm -> ~ known_dev n prm -> length Q = n ->
    exists msg cks, digits n prm Q = msg ++ cks
      /\ length msg = (n * dn (o_w prm))%nat
      /\ val (2 ^ o_w prm) cks = sumN (map (fun d => (2 ^ o_w prm - 1) - d) msg).
Proof.
  intros n code prm Q Hn E Hk Hl. pose proof (table_row n code prm Hn E) as T.
  apply orb_true_iff in T. destruct T as [T|T]; apply andb_true_iff in T; destruct T as [T1 T2].
  - exists (str_digits (o_w prm) Q), (firstn (o_p prm - n * dn (o_w prm)) (str_digits (o_w prm) (cks_bytes n prm Q))).
    split; [now apply digits_split|]. split; [now rewrite str_digits_length, Hl|].
    rewrite checksum_digits_encode_sum by assumption. now apply cksm_sum_spec.
  - exfalso. apply Hk. now apply known_dev_b_spec.
Qed.

(* ... and no digest's digit vector is component-wise >= that of a different digest:
   all 2^(8n) digests, by the checksum argument, not by search *)
Theorem C12_no_domination :
  forall (n : nat) (code : N) (prm : otsp) (Q1 Q2 : bytes),
    In n hash_sizes -> ots_of_type K_src n code = Some prm -> ~ known_dev n prm ->
    length Q1 = n -> length Q2 = n ->
    Forall2 N.le (digits n prm Q1) (digits n prm Q2) -> Q1 = Q2.
Proof.
  intros n code prm Q1 Q2 Hn E Hk H1 H2 F. pose proof (table_row n code prm Hn E) as T.
  apply orb_true_iff in T. destruct T as [T|T]; apply andb_true_iff in T; destruct T as [T1 T2].
  - exact (no_domination n prm T2 Q1 Q2 H1 H2 F).
  - exfalso. apply Hk. now apply known_dev_b_spec.
Qed.

(* KNOWN FINDING, refuted part of the full statement: a row of the source that is a known
   deviation does admit a domination pair (replayed on the implementation by the harness) *)
Theorem C12_refuted_known :
  forall (n : nat) (code : N) (prm : otsp),
    In n hash_sizes -> ots_of_type K_src n code = Some prm -> ~ row_rfc n prm ->
    exists Q1 Q2, Q1 <> Q2 /\ length Q1 = n /\ length Q2 = n /\
                  Forall2 N.le (digits n prm Q2) (digits n prm Q1).
Proof.
  intros n code prm Hn E Hr. pose proof (table_row n code prm Hn E) as T.
  apply orb_true_iff in T. destruct T as [T|T]; apply andb_true_iff in T; destruct T as [T1 T2].
  - exfalso. apply Hr. now apply row_rfc_b_spec.
  - now apply dominated_b_spec.
Qed.

(* non-vacuity: the table has rows of both kinds on the current source *)
Example ex_C12_rows :
  (exists prm, ots_of_type K_src 32 4 = Some prm /\ row_rfc_b 32 prm = true /\ dom_ok 32 prm = true)
  /\ length (filter (fun n => match ots_of_type K_src n 3 with Some prm => dom_ok n prm | None => false end)
                    hash_sizes) = 3%nat.
Proof. split; [eexists; split; [reflexivity|split; vm_compute; reflexivity]|vm_compute; reflexivity]. Qed.

Check C12_no_domination :
  forall (n : nat) (code : N) (prm : otsp) (Q1 Q2 : bytes),
    In n hash_sizes -> ots_of_type K_src n code = Some prm -> ~ known_dev n prm ->
    length Q1 = n -> length Q2 = n ->
    Forall2 N.le (digits n prm Q1) (digits n prm Q2) -> Q1 = Q2.

Print Assumptions C12_coef_rfc.
Print Assumptions C12_table_rfc_except_known.
Print Assumptions C12_digits_rfc.
Print Assumptions C12_checksum_digits_encode_full_value.
Print Assumptions C12_no_domination.
Print Assumptions C12_refuted_known.
