(* C13 -- leaf selection follows the reference's mixed-radix rule for every key shape.
   Only statements; the proofs are in Proofs/CounterProofs.v. *)
From HbsLms Require Import Base.Bytes Model.Consts Model.Counter Model.KeyBlob.
From HbsLms Require Import Proofs.CounterProofs Gen.Generated.

Local Open Scope N_scope.

(* Level i, counted from the bottom, uses leaf (c / 2^(heights below it)) mod 2^(h_i):
   every list of heights, every counter. *)
Theorem C13_digit_rule :
  forall (hs : list N) (c : N) (i : nat) (h : N),
    nth_error (rev hs) i = Some h ->
    nth_error (rev (leaf_digits hs c)) i
    = Some ((c / 2 ^ sumN (firstn i (rev hs))) mod 2 ^ h).
Proof. intros hs c i h E. rewrite rev_leaf_digits. exact (leaf_digits_rev_nth _ c i h E). Qed.

(* The leaf tuple is the mixed-radix representation of the counter with the tree sizes as
   radices, bottom level least significant. *)
Theorem C13_mixed_radix :
  forall (hs : list N) (c : N),
    mr_value (rev hs) (rev (leaf_digits hs c)) = c mod 2 ^ sumN hs
    /\ Forall2 (fun h q => q < 2 ^ h) (rev hs) (rev (leaf_digits hs c)).
Proof.
  intros hs c. rewrite rev_leaf_digits, <- (sumN_rev hs). split.
  - apply leaf_digits_rev_value.
  - apply leaf_digits_rev_bound.
Qed.

(* Hence two different counters below the capacity never select the same leaf tuple. *)
Theorem C13_no_two_counters_share_a_leaf_tuple :
  forall (hs : list N) (c1 c2 : N),
    c1 < 2 ^ sumN hs -> c2 < 2 ^ sumN hs ->
    leaf_digits hs c1 = leaf_digits hs c2 -> c1 = c2.
Proof.
  intros hs c1 c2 H1 H2 E. apply (f_equal (@rev N)) in E. rewrite !rev_leaf_digits in E.
  rewrite <- (sumN_rev hs) in H1, H2. exact (leaf_digits_rev_inj _ _ _ H1 H2 E).
Qed.

(* Successor: c+1 until the last leaf, exhaustion (wipe) after it; total height <= 63. *)
Theorem C13_successor :
  forall (hs : list N) (c : N),
    sumN hs <= 63 ->
    incr hs c = if c <? 2 ^ sumN hs - 1 then Some (c + 1) else None.
Proof. intros hs c H. apply incr_small. lia. Qed.

(* Remaining lifetime = number of leaves minus the counter (saturating at the u64 range),
   computed from the per-level state that key expansion leaves behind; never a panic. *)
Theorem C13_lifetime :
  forall (hs : list N) (c : N),
    hs <> [] -> Forall (fun h => h <= 63) hs ->
    lifetime hs c = Ok (N.min (2 ^ sumN hs - c mod 2 ^ sumN hs) u64_max).
Proof. exact lifetime_closed. Qed.

(* Taller lists (total height >= 64): the digit rule above is unconditional, and the key is
   never reported exhausted before the 8-byte counter itself is. *)
Theorem C13_tall_not_exhausted_early :
  forall (hs : list N) (c : N),
    64 <= sumN hs -> c < u64_max -> incr hs c = Some (c + 1).
Proof. exact incr_tall. Qed.

(* Every tree height the current source offers satisfies the side condition h <= 63. *)
Theorem C13_source_heights_ok :
  forallb (fun row => (snd (snd row)) <=? 63) (c_lms_construct K_src) = true.
Proof. vm_compute. reflexivity. Qed.

(* Non-vacuity: a concrete mixed-height key (H5 / H10 / H2) at a radix boundary. *)
Example ex_C13_concrete :
  leaf_digits [5; 10; 2] 4096 = [1; 0; 0]
  /\ lifetime [5; 10; 2] 4096 = Ok (131072 - 4096)
  /\ incr [5; 10; 2] 131071 = None /\ incr [5; 10; 2] 131070 = Some 131071.
Proof. vm_compute. repeat split. Qed.

Check C13_digit_rule :
  forall (hs : list N) (c : N) (i : nat) (h : N),
    nth_error (rev hs) i = Some h ->
    nth_error (rev (leaf_digits hs c)) i = Some ((c / 2 ^ sumN (firstn i (rev hs))) mod 2 ^ h).
Check C13_lifetime :
  forall (hs : list N) (c : N),
    hs <> [] -> Forall (fun h => h <= 63) hs ->
    lifetime hs c = Ok (N.min (2 ^ sumN hs - c mod 2 ^ sumN hs) u64_max).

Print Assumptions C13_digit_rule.
Print Assumptions C13_mixed_radix.
Print Assumptions C13_no_two_counters_share_a_leaf_tuple.
Print Assumptions C13_successor.
Print Assumptions C13_lifetime.
Print Assumptions C13_tall_not_exhausted_early.
