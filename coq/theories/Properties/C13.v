From HbsLms Require Import Base.Bytes Model.Counter.
Theorem placeholder_C13 : sumN [] = 0%N.
Proof. reflexivity. Qed.
