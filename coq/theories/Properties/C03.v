(* C03 -- no one-time key ever signs two different contents, over any signing history.
   Only statements; proofs in Proofs/HistoryProofs.v, Proofs/HssComplete.v, Proofs/CounterProofs.v.
   A history is any list of operations (byte-level sign with an accepting or rejecting callback,
   in-memory signing key, reload, lifetime query), always continued from the persisted key. *)
From HbsLms Require Import Base.Bytes Model.Consts Model.Counter Model.KeyBlob Model.Codec Model.Hss
     Model.SignCore Model.History.
From HbsLms Require Import Proofs.CounterProofs Proofs.KeyBlobProofs Proofs.SignProofs Proofs.TotalProofs
     Proofs.HssComplete Proofs.HistoryProofs Proofs.NoReuse Gen.Generated.

Local Open Scope N_scope.

Definition hash_sizes : list nat := [16%nat; 24%nat; 32%nat].

Lemma source_model_ok : forallb (model_ok K_src) hash_sizes = true.
Proof. vm_compute. reflexivity. Qed.
Lemma model_ok_n n : In n hash_sizes -> model_ok K_src n = true.
Proof. intros Hn. pose proof source_model_ok as S. rewrite forallb_forall in S. now apply S. Qed.
Lemma source_heights_ok : heights_ok K_src = true.
Proof. vm_compute. reflexivity. Qed.

(* a freshly generated key: constructible parameters within the build limits, n-byte seed,
   total height at most 63 *)
Record generated (n : nat) (ps : list param) (seed pb : bytes) : Prop := {
  g_params : Forall (fun p => In p (tbl_params K_src n)) ps;
  g_seed : length seed = n;
  g_bytes : params_to_bytes K_src ps = Ok pb;
  g_nonempty : ps <> [];
  g_height : sumN (heights_of ps) <= 63;
}.

Lemma fits ps : sumN (heights_of ps) <= 63 -> 2 ^ sumN (heights_of ps) <= 256 ^ N.of_nat (c_used_leafs_size K_src).
Proof.
  intros Hh. change (256 ^ N.of_nat (c_used_leafs_size K_src)) with (2 ^ 64).
  apply N.pow_le_mono_r; lia.
Qed.

(* Every history from a fresh key: the released signatures are, in order, the signatures for the
   counters 0, 1, 2, ...; the persisted key afterwards is the fresh key with the counter set to
   the number of released signatures (or the wiped key once all leaves are used); rejected and
   failed attempts, reloads and queries change nothing. *)
Theorem C03_history :
  forall (n : nat) (H : bytes -> bytes) (ps : list param) (seed pb : bytes) (ops : list op),
    In n hash_sizes -> (forall x, length (H x) = n) -> generated n ps seed pb ->
    exists msgs : list bytes,
      run K_src n H ops (blob_at K_src n ps seed pb 0)
      = (blob_at K_src n ps seed pb (N.of_nat (length msgs)),
         map (fun im => sig_at K_src n H ps seed (N.of_nat (fst im)) (snd im))
             (combine (seq 0 (length msgs)) msgs))
      /\ N.of_nat (length msgs) <= total ps.
Proof.
  intros n H ps seed pb ops Hn HL [G1 G2 G3 G4 G5].
  pose proof (model_ok_n n Hn) as OK. pose proof (fits ps G5) as FT.
  erewrite run_spec by eassumption.
  edestruct (spec_run_counters K_src n H) with (ops := ops) (j := 0) as [msgs [E1 [E2 E3]]]; try eassumption.
  exists msgs. rewrite E1, E2. cbn [N.add] in *. split; [reflexivity|].
  assert (0 < total ps) by (apply N.neq_0_lt_0, N.pow_nonzero; lia). lia.
Qed.

(* consecutive persisted keys differ only by the counter increasing by exactly one *)
Theorem C03_consecutive_keys :
  forall (n : nat) (ps : list param) (seed pb : bytes) (j : N),
    j + 1 < total ps ->
    blob_at K_src n ps seed pb j = be (c_used_leafs_size K_src) j ++ pb ++ seed
    /\ blob_at K_src n ps seed pb (j + 1) = be (c_used_leafs_size K_src) (j + 1) ++ pb ++ seed.
Proof.
  intros n ps seed pb j Hj. unfold blob_at.
  destruct (N.ltb_spec j (total ps)); [|lia]. destruct (N.ltb_spec (j + 1) (total ps)); [|lia].
  split; reflexivity.
Qed.

(* the leaf indices inside the signature for counter j are the mixed-radix digits of j
   (per-level tree sizes as radices, bottom level least significant: C13_mixed_radix) *)
Theorem C03_leaf_indices :
  forall (n : nat) (H : bytes -> bytes) (ps : list param) (seed pb msg : bytes) (j : N),
    In n hash_sizes -> (forall x, length (H x) = n) -> generated n ps seed pb ->
    exists s,
      parse_hss_sig K_src n (sig_at K_src n H ps seed j msg) = Ok s
      /\ map (fun sp => s_q (fst sp)) (h_spks s) ++ [s_q (h_sig s)] = leaf_digits (heights_of ps) j.
Proof.
  intros n H ps seed pb msg j Hn HL [G1 G2 G3 G4 G5].
  pose proof (model_ok_n n Hn) as OK. pose proof (fits ps G5) as FT.
  assert (HLn : (length ps <= c_max_levels K_src)%nat) by (eapply Hlen; eassumption).
  assert (HFw : Forall (wf_param K_src n) ps) by (eapply Fw; eassumption).
  destruct (hss_complete K_src n H HL (ok_ilen K_src n OK) (ok_levels K_src n OK) ps seed msg j G4 HLn HFw)
    as [sig [pk [s [E1 [_ [_ [E4 E5]]]]]]].
  exists s. unfold sig_at. rewrite E1. split; assumption.
Qed.

(* two different counters below the capacity never select the same bottom-level one-time key:
   their leaf tuples differ *)
Theorem C03_distinct_counters_distinct_leaf_tuples :
  forall (hs : list N) (c1 c2 : N),
    c1 < 2 ^ sumN hs -> c2 < 2 ^ sumN hs -> c1 <> c2 -> leaf_digits hs c1 <> leaf_digits hs c2.
Proof.
  intros hs c1 c2 H1 H2 Hne E. apply Hne. apply (f_equal (@rev N)) in E. rewrite !rev_leaf_digits in E.
  rewrite <- (sumN_rev hs) in H1, H2. exact (leaf_digits_rev_inj _ _ _ H1 H2 E).
Qed.

(* an upper-level one-time key is addressed by the leaf indices q_0 .. q_l of the levels down to
   it; whenever two signatures use the same address, that key signed the same content: the
   signed public keys (LMS signature and child public key) of the levels 0 .. l are identical *)
Theorem C03_same_one_time_key_same_content :
  forall (K : consts) (n : nat) (H : bytes -> bytes) (m : nat)
         (below1 below2 : list (param * N)) (seed I : bytes) (p : param) (q : N),
    map fst below1 = map fst below2 ->
    firstn m (map snd below1) = firstn m (map snd below2) ->
    firstn (S m) (fst (expand K n H seed I p q below1))
    = firstn (S m) (fst (expand K n H seed I p q below2)).
Proof. intros K n H m. apply expand_prefix. Qed.

(* End to end, over every history from a fresh key: the i-th and the j-th released signature
   (i <> j) carry different leaf-index tuples, so the bottom one-time key (addressed by the
   whole tuple) is never used twice; each signature is the level count, its signed public keys
   and the bottom LMS signature; and whenever the two tuples agree on the levels 0 .. m, the
   signed public keys of the levels 0 .. m are byte-identical: the one-time key of level m at
   that address signed one content only (the same child public key, with the same randomizer). *)
Theorem C03_no_one_time_key_reuse :
  forall (n : nat) (H : bytes -> bytes) (ps : list param) (seed pb : bytes) (ops : list op),
    In n hash_sizes -> (forall x, length (H x) = n) -> generated n ps seed pb ->
    exists msgs : list bytes,
      snd (run K_src n H ops (blob_at K_src n ps seed pb 0))
      = map (fun im => sig_at K_src n H ps seed (N.of_nat (fst im)) (snd im))
            (combine (seq 0 (length msgs)) msgs)
      /\ (forall (c : N) (msg : bytes), exists tail,
             sig_at K_src n H ps seed c msg
             = be 4 (N.of_nat (length ps - 1)) ++ concat (signed_pks K_src n H ps seed c) ++ tail)
      /\ forall i j : nat, (i < length msgs)%nat -> (j < length msgs)%nat -> i <> j ->
           leaf_digits (heights_of ps) (N.of_nat i) <> leaf_digits (heights_of ps) (N.of_nat j)
           /\ forall m : nat,
               firstn (S m) (leaf_digits (heights_of ps) (N.of_nat i))
               = firstn (S m) (leaf_digits (heights_of ps) (N.of_nat j)) ->
               firstn (S m) (signed_pks K_src n H ps seed (N.of_nat i))
               = firstn (S m) (signed_pks K_src n H ps seed (N.of_nat j)).
Proof.
  intros n H ps seed pb ops Hn HL G.
  destruct (C03_history n H ps seed pb ops Hn HL G) as [msgs [E Hle]].
  destruct G as [G1 G2 G3 G4 G5].
  pose proof (model_ok_n n Hn) as OK. pose proof (fits ps G5) as FT.
  assert (HLn : (length ps <= c_max_levels K_src)%nat) by (eapply Hlen; eassumption).
  assert (HFw : Forall (wf_param K_src n) ps) by (eapply Fw; eassumption).
  exists msgs. split; [now rewrite E|]. split.
  - intros c msg.
    destruct (hss_complete K_src n H HL (ok_ilen K_src n OK) (ok_levels K_src n OK) ps seed msg c G4 HLn HFw)
      as [sig [pk [s [E1 _]]]].
    unfold sig_at. rewrite E1. eapply signature_layout. exact E1.
  - intros i j Hi Hj Hij. split.
    + assert (Ht : N.of_nat (length msgs) <= 2 ^ sumN (heights_of ps)) by exact Hle.
      apply C03_distinct_counters_distinct_leaf_tuples; lia.
    + intros m. apply signed_pks_prefix.
Qed.

Print Assumptions C03_history.
Print Assumptions C03_consecutive_keys.
Print Assumptions C03_leaf_indices.
Print Assumptions C03_distinct_counters_distinct_leaf_tuples.
Print Assumptions C03_same_one_time_key_same_content.
Print Assumptions C03_no_one_time_key_reuse.
