(* C04 -- a signature is released only after the advanced key was handed over and accepted.
   Only statements; proofs in Proofs/SignProofs.v.  [sign_core] returns the result together with
   the list of callback invocations (argument, verdict); the callback is an arbitrary function. *)
From HbsLms Require Import Base.Bytes Model.Consts Model.KeyBlob Model.Hss Model.SignCore Model.FastVerify.
From HbsLms Require Import Proofs.SignProofs Gen.Generated.

Local Open Scope N_scope.

(* for every hash, key blob (any bytes), message and callback behaviour *)
Theorem C04_order_of_effects :
  forall (n : nat) (H : bytes -> bytes) (blob msg : bytes) (cb : bytes -> bool)
         (r : res bytes) (calls : list (bytes * bool)),
    sign_core K_src n H blob msg cb = (r, calls) ->
    (* at most one invocation *)
    (length calls <= 1)%nat
    (* a signature is returned only after exactly one accepted invocation *)
    /\ (forall sig, r = Ok sig -> exists next, calls = [(next, true)] /\ cb next = true)
    (* an error means: never invoked, or invoked once and rejected -- and nothing is returned *)
    /\ (r = Err -> calls = [] \/ exists next, calls = [(next, false)] /\ cb next = false)
    (* whenever it is invoked, a signature had been computed from a well-formed key, and the
       argument is the complete successor key (same length: counter + 1, or the wiped key) *)
    /\ (forall next v, In (next, v) calls ->
          exists k ps sig,
            blob_parse K_src n blob = Ok k /\ params_of_bytes K_src n (k_params k) = Ok ps
            /\ hss_signature K_src n H ps (k_seed k) (k_counter k) msg = Ok sig
            /\ next = blob_of K_src (key_increment K_src n k ps) /\ v = cb next
            /\ length next = length blob).
Proof. intros n H. exact (sign_core_effects K_src n H). Qed.

(* the in-memory signing key goes through the same path: its internal callback always accepts *)
Theorem C04_signing_key :
  forall (n : nat) (H : bytes -> bytes) (key msg : bytes),
    signing_key_try_sign K_src n H key msg
    = match sign_core K_src n H key msg (fun _ => true) with
      | (Ok sig, [(next, _)]) => (Ok sig, next)
      | (r, _) => (r, key)
      end.
Proof. reflexivity. Qed.

(* the fast-verify entry point (sign_mut, trailer r found by the search): the same protocol, and a
   message that is refused (too short, or a trailer that is not all zero) never reaches the callback *)
Theorem C04_sign_mut_order_of_effects :
  forall (n : nat) (H : bytes -> bytes) (blob msg r : bytes) (cb : bytes -> bool)
         (res : res bytes) (calls : list (bytes * bool)) (msg' : bytes),
    sign_mut K_src n H blob msg r cb = (res, calls, msg') ->
    (length calls <= 1)%nat
    /\ (forall sig, res = Ok sig -> exists next, calls = [(next, true)] /\ cb next = true)
    /\ (res = Err -> calls = [] \/ exists next, calls = [(next, false)] /\ cb next = false)
    /\ ((length msg <= n)%nat \/ all_zero (skipn (length msg - n) msg) = false ->
        res = Err /\ calls = [] /\ msg' = msg).
Proof.
  intros n H blob msg r cb res calls msg'. unfold sign_mut.
  destruct (Nat.leb_spec (length msg) n) as [Hs|Hl].
  - intros E. injection E as <- <- <-. cbn [length].
    repeat split; try (intros; discriminate); auto.
  - destruct (all_zero (skipn (length msg - n) msg)) eqn:Z; cbn [negb].
    + destruct (sign_core K_src n H blob (firstn (length msg - n) msg ++ r) cb) as [rs cl] eqn:ES.
      intros E. injection E as <- <- _.
      destruct (C04_order_of_effects n H blob _ cb rs cl ES) as [A [B [C _]]].
      split; [exact A|]. split; [exact B|]. split; [exact C|].
      intros [Hs|Hz]; [exfalso; apply (Nat.lt_irrefl n); eapply Nat.lt_le_trans; eassumption | discriminate Hz].
    + intros E. injection E as <- <- <-. cbn [length].
      repeat split; try (intros; discriminate); auto.
Qed.

Print Assumptions C04_order_of_effects.
Print Assumptions C04_signing_key.
Print Assumptions C04_sign_mut_order_of_effects.
