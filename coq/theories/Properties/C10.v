(* C10 -- auxiliary data is a transparent, authenticated cache and nothing more.
   Only statements; proofs in Proofs/AuxProofs.v.

   Theorems (every hash function, every tree height, every buffer):
     - going through a cache in which every non-empty slot holds the true tree node returns the
       true node and leaves the cache in that state (induction over the tree);
     - a buffer that is not yet in use (first byte 0) is cleared before it is used, and a cleared
       cache is such a cache -- so arbitrary contents behind a zero first byte are never read;
     - with a view that is absent (empty buffer, header too short, level word announcing more than
       the buffer holds, MAC mismatch) or good, key generation returns exactly the key pair it
       returns without auxiliary data.
   For a buffer whose MAC verifies, "good" is the statement "MAC accepted => the cached nodes are
   this tree's nodes": MAC unforgeability, an explicit hypothesis.  KNOWN FINDING: the MAC key is
   derived from the seed alone, so a library-written buffer for the same seed and another top-tree
   shape verifies although it is not good (known_findings.json, C10 aux-mac-other-shape).
   The byte layout written by key generation (level word, cached levels, MAC) and the behaviour of
   signing with a buffer are tied to the code by the correspondence (buffer contents and length
   after every call are compared). *)
From HbsLms Require Import Base.Bytes Model.Consts Model.Lmots Model.Lms Model.Derive Model.KeyBlob
     Model.Hss Model.Aux.
From HbsLms Require Import Proofs.AuxProofs Gen.Generated.

Local Open Scope N_scope.

Theorem C10_cache_is_transparent :
  forall (n : nat) (H : bytes -> bytes) (h : nat) (I seed : bytes) (prm : otsp) (d : nat) (r : N) (e : expanded),
    (forall x, length (H x) = n) ->
    1 <= r -> (node_level r + d = h)%nat -> wf_exp n e -> cache_ok K_src n H h I seed prm e ->
    fst (tree_aux K_src n H h I seed prm d r e) = tree K_src n H h I seed prm d r
    /\ wf_exp n (snd (tree_aux K_src n H h I seed prm d r e))
    /\ cache_ok K_src n H h I seed prm (snd (tree_aux K_src n H h I seed prm d r e)).
Proof. intros n H h I seed prm d r e HL. exact (tree_aux_correct K_src n H HL h I seed prm d r e). Qed.

Theorem C10_cleared_cache_is_good :
  forall (n : nat) (H : bytes -> bytes) (h : nat) (I seed : bytes) (prm : otsp) (lvl : N) (hm : bytes),
    let e := {| ax_level := lvl;
                ax_layers := map (fun s : nat * N => (fst s, repeat x00 (N.to_nat (snd s)))) (layer_sizes K_src n lvl);
                ax_hmac := hm |} in
    wf_exp n e /\ cache_ok K_src n H h I seed prm e.
Proof. intros n H h I seed prm lvl hm. exact (zero_cache_good K_src n H h I seed prm lvl hm). Qed.

(* a buffer that is not in use is replaced by zeros before anything is read from it: the view
   does not depend on the bytes behind the first one *)
Theorem C10_unused_buffer_contents_are_never_read :
  forall (n : nat) (H : bytes -> bytes) (seed : bytes) (h0 : nat) (b0 : byte) (rest1 rest2 : bytes),
    b2n b0 = c_no_aux_data K_src -> length rest1 = length rest2 ->
    get_expanded K_src n H (b0 :: rest1) seed h0 = get_expanded K_src n H (b0 :: rest2) seed h0.
Proof.
  intros n H seed h0 b0 rest1 rest2 E L. unfold get_expanded. rewrite E, N.eqb_refl. cbn [negb length].
  now rewrite L.
Qed.

Theorem C10_empty_buffer_is_ignored :
  forall (n : nat) (H : bytes -> bytes) (seed : bytes) (h0 : nat),
    get_expanded K_src n H [] seed h0 = Ok (None, []).
Proof. reflexivity. Qed.

(* key generation with a buffer = key generation without, whenever the view is absent or good *)
Theorem C10_keygen_same_key_pair :
  forall (n : nat) (H : bytes -> bytes) (ps : list param) (seed aux : bytes),
    (forall x, length (H x) = n) ->
    (forall k p0 rest oe aux1,
        key_generate K_src ps seed = Ok k -> params_of_bytes K_src n (k_params k) = Ok (p0 :: rest) ->
        get_expanded K_src n H aux seed (l_h (snd p0)) = Ok (oe, aux1) ->
        good_view K_src n H (l_h (snd p0)) (snd (root_seed_I K_src H seed)) (fst (root_seed_I K_src H seed)) (fst p0) oe) ->
    match keygen_aux K_src n H ps seed aux with
    | Ok (sk, pk, _) => keygen K_src n H ps seed = Ok (sk, pk)
    | Err => keygen K_src n H ps seed = Err
             \/ exists k p0 rest, key_generate K_src ps seed = Ok k /\ params_of_bytes K_src n (k_params k) = Ok (p0 :: rest)
                                  /\ get_expanded K_src n H aux seed (l_h (snd p0)) = Err
    | Panic => exists k p0 rest, key_generate K_src ps seed = Ok k /\ params_of_bytes K_src n (k_params k) = Ok (p0 :: rest)
                                 /\ get_expanded K_src n H aux seed (l_h (snd p0)) = Panic
    end.
Proof. intros n H ps seed aux HL. exact (keygen_aux_same K_src n H HL ps seed aux). Qed.

(* the buffer is never enlarged: the fresh path shrinks it to the used length *)
Theorem C10_buffer_only_shrinks :
  forall (n max_length h0 : nat), (1 <= max_length)%nat -> (aux_data_len K_src n max_length h0 <= max_length)%nat.
Proof.
  intros n max_length h0 Hm. unfold aux_data_len, optimal_aux.
  destruct (Nat.ltb max_length (c_aux_data_hashes K_src + n)); [cbn; exact Hm|].
  destruct (pick_levels n _ _) as [chosen rem]. destruct (level_word chosen =? 0); lia.
Qed.


(* the hash preimage layouts of the current source (translator: ordered .chain / .update arguments
   per function) are the layouts the model writes down (Model/HashInputs.v) *)
From HbsLms Require Model.HashInputs.
Theorem C10_hash_input_layouts : src_hash_inputs = HashInputs.model_hash_inputs.
Proof. apply HashInputs.layouts_eqb_eq. vm_compute. reflexivity. Qed.

Print Assumptions C10_hash_input_layouts.
Print Assumptions C10_cache_is_transparent.
Print Assumptions C10_cleared_cache_is_good.
Print Assumptions C10_unused_buffer_contents_are_never_read.
Print Assumptions C10_keygen_same_key_pair.
Print Assumptions C10_buffer_only_shrinks.

(* signing with a buffer = signing without: same result, same callback record, whenever the view is
   absent or good *)
From HbsLms Require Import Model.SignCore Proofs.AuxSignProofs Proofs.HssComplete.

Theorem C10_sign_same_signature :
  forall (n : nat) (H : bytes -> bytes) (blob msg aux : bytes) (cb : bytes -> bool),
    (forall x, length (H x) = n) ->
    (forall k p0 r oe aux1,
        blob_parse K_src n blob = Ok k -> params_of_bytes K_src n (k_params k) = Ok (p0 :: r) ->
        get_expanded K_src n H aux (k_seed k) (l_h (snd p0)) = Ok (oe, aux1) ->
        Forall (wf_param K_src n) (p0 :: r)
        /\ good_view K_src n H (l_h (snd p0)) (snd (root_seed_I K_src H (k_seed k)))
                     (fst (root_seed_I K_src H (k_seed k))) (fst p0) oe) ->
    (forall k p0 r, blob_parse K_src n blob = Ok k -> params_of_bytes K_src n (k_params k) = Ok (p0 :: r) ->
                    exists oe aux1, get_expanded K_src n H aux (k_seed k) (l_h (snd p0)) = Ok (oe, aux1)) ->
    let '(r, calls, _) := sign_core_aux K_src n H blob msg aux cb in
    (r, calls) = sign_core K_src n H blob msg cb.
Proof. intros n H blob msg aux cb HL. exact (sign_core_aux_same K_src n H HL blob msg aux cb). Qed.

Print Assumptions C10_sign_same_signature.

(* the same with the side premises discharged: decoded parameter bytes are well-formed rows
   and the view of ANY buffer exists (Proofs/AuxTotal.v); what remains is "the view is absent or
   good", i.e. for a MAC-accepted buffer the unforgeability hypothesis *)
From HbsLms Require Import Proofs.SignProofs Proofs.AuxTotal.

Definition hash_sizes : list nat := [16%nat; 24%nat; 32%nat].
Lemma source_model_ok : forallb (model_ok K_src) hash_sizes = true.
Proof. vm_compute. reflexivity. Qed.
Lemma source_aux_consts_ok : aux_consts_ok K_src = true.
Proof. vm_compute. reflexivity. Qed.

Theorem C10_sign_same_signature_any_buffer :
  forall (n : nat) (H : bytes -> bytes) (blob msg aux : bytes) (cb : bytes -> bool),
    In n hash_sizes -> (forall x, length (H x) = n) ->
    (forall k p0 r oe aux1,
        blob_parse K_src n blob = Ok k -> params_of_bytes K_src n (k_params k) = Ok (p0 :: r) ->
        get_expanded K_src n H aux (k_seed k) (l_h (snd p0)) = Ok (oe, aux1) ->
        good_view K_src n H (l_h (snd p0)) (snd (root_seed_I K_src H (k_seed k)))
                  (fst (root_seed_I K_src H (k_seed k))) (fst p0) oe) ->
    let '(r, calls, _) := sign_core_aux K_src n H blob msg aux cb in
    (r, calls) = sign_core K_src n H blob msg cb.
Proof.
  intros n H blob msg aux cb Hn HL.
  pose proof source_model_ok as S. rewrite forallb_forall in S.
  exact (sign_core_aux_same_strong K_src n H HL (S n Hn) source_aux_consts_ok blob msg aux cb).
Qed.

Print Assumptions C10_sign_same_signature_any_buffer.
