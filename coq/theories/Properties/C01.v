(* C01 -- every signature the library releases verifies under the matching public key.
   Only statements; proofs in Proofs/{CompleteProofs,CodecProofs,HssComplete,KeyBlobProofs,SignProofs}.v.
   The theorems hold for EVERY hash function H with n-byte output (hence for SHA-256/256, /192,
   /128 and SHAKE256/256, /192, /128), every parameter list the API can construct within the
   build limits (1..8 levels, any mix of Winternitz parameters and tree heights), every seed,
   every message and every counter value. *)
From HbsLms Require Import Base.Bytes Model.Consts Model.KeyBlob Model.Hss Model.SignCore.
From HbsLms Require Import Proofs.KeyBlobProofs Proofs.SignProofs Proofs.CompleteProofs Gen.Generated.
From HbsLms Require Import Model.Lmots Model.Lms.

Local Open Scope N_scope.

Definition hash_sizes : list nat := [16%nat; 24%nat; 32%nat].

(* obligation on the constants and tables of the current source, decided by computation *)
Lemma source_model_ok : forallb (model_ok K_src) hash_sizes = true.
Proof. vm_compute. reflexivity. Qed.

Lemma model_ok_n n : In n hash_sizes -> model_ok K_src n = true.
Proof. intros Hn. pose proof source_model_ok as S. rewrite forallb_forall in S. now apply S. Qed.

(* LM-OTS: Algorithm 4b applied to an Algorithm 3 signature gives the public key; any constants *)
Theorem C01_lmots_complete :
  forall (K : consts) (n : nat) (H : bytes -> bytes) (I : bytes) (q : N) (seed : bytes)
         (prm : otsp) (C msg : bytes),
    ots_candidate K n H I q prm C (ots_sign_ys K n H I q seed prm C msg) msg
    = ots_pub K n H I q seed prm.
Proof. exact lmots_complete. Qed.

(* LMS: the recomputed leaf and the authentication path lead to the root, any height, any leaf *)
Theorem C01_lms_complete :
  forall (K : consts) (n : nat) (H : bytes -> bytes) (I seed : bytes) (prm : otsp) (lp : lmsp)
         (q : N) (C msg : bytes),
    q < 2 ^ N.of_nat (l_h lp) ->
    lms_candidate K n H I prm lp q C (ots_sign_ys K n H I q seed prm C msg)
                  (auth_path K n H I seed prm lp q) msg
    = lms_root K n H I seed prm lp.
Proof. exact lms_complete. Qed.

(* HSS, through the public entry points: key generation, then signing at ANY counter value
   (also right after a lower tree was exhausted), then verification *)
Theorem C01_released_signature_verifies :
  forall (n : nat) (H : bytes -> bytes),
    In n hash_sizes -> (forall x, length (H x) = n) ->
    forall (ps : list param) (seed sk pk : bytes) (c : N) (msg : bytes)
           (cb : bytes -> bool) (sig : bytes) (calls : list (bytes * bool)),
      Forall (fun p => In p (tbl_params K_src n)) ps -> length seed = n ->
      keygen K_src n H ps seed = Ok (sk, pk) ->
      c < 256 ^ N.of_nat (c_used_leafs_size K_src) ->
      sign_core K_src n H (with_counter K_src sk c) msg cb = (Ok sig, calls) ->
      hss_verify K_src n H msg sig pk = Ok tt.
Proof.
  intros n H Hn HL ps seed sk pk c msg cb sig calls.
  exact (sign_then_verify K_src n (model_ok_n n Hn) H HL ps seed sk pk c msg cb sig calls).
Qed.

(* and signing does succeed at every counter value when the callback accepts *)
Theorem C01_signing_succeeds :
  forall (n : nat) (H : bytes -> bytes),
    In n hash_sizes -> (forall x, length (H x) = n) ->
    forall (ps : list param) (seed sk pk : bytes) (c : N) (msg : bytes) (cb : bytes -> bool),
      Forall (fun p => In p (tbl_params K_src n)) ps -> length seed = n ->
      keygen K_src n H ps seed = Ok (sk, pk) ->
      c < 256 ^ N.of_nat (c_used_leafs_size K_src) ->
      (forall b, cb b = true) ->
      exists sig next, sign_core K_src n H (with_counter K_src sk c) msg cb = (Ok sig, [(next, true)]).
Proof.
  intros n H Hn HL ps seed sk pk c msg cb.
  exact (sign_succeeds K_src n (model_ok_n n Hn) H HL ps seed sk pk c msg cb).
Qed.

(* non-vacuity: the constructible parameter pairs of the current source, per hash size *)
Example ex_C01_tbl_params :
  map (fun n => length (tbl_params K_src n)) hash_sizes = [24%nat; 24%nat; 24%nat].
Proof. vm_compute. reflexivity. Qed.

Check C01_released_signature_verifies :
  forall (n : nat) (H : bytes -> bytes),
    In n hash_sizes -> (forall x, length (H x) = n) ->
    forall (ps : list param) (seed sk pk : bytes) (c : N) (msg : bytes)
           (cb : bytes -> bool) (sig : bytes) (calls : list (bytes * bool)),
      Forall (fun p => In p (tbl_params K_src n)) ps -> length seed = n ->
      keygen K_src n H ps seed = Ok (sk, pk) ->
      c < 256 ^ N.of_nat (c_used_leafs_size K_src) ->
      sign_core K_src n H (with_counter K_src sk c) msg cb = (Ok sig, calls) ->
      hss_verify K_src n H msg sig pk = Ok tt.

Print Assumptions C01_lmots_complete.
Print Assumptions C01_lms_complete.
Print Assumptions C01_released_signature_verifies.
Print Assumptions C01_signing_succeeds.
