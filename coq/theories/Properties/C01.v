From HbsLms Require Import Base.Bytes.
Theorem placeholder_C01 : @length byte [] = 0%nat.
Proof. reflexivity. Qed.
