(* C08 -- keys are derived and encoded exactly as the hash-sigs reference does.
   Only statements; proofs in Proofs/KeyBlobProofs.v, Proofs/SignProofs.v, Proofs/HashSigsProofs.v,
   Proofs/RfcCore.v, Proofs/HssRfc.v.  The reference derivation is Spec/HashSigs.v (transcribed from
   the reference's construction; not validatable offline -- see DESIGN.md, trusted base). *)
From HbsLms Require Import Base.Bytes Model.Consts Model.Lmots Model.Lms Model.Derive Model.KeyBlob Model.Hss.
From HbsLms Require Import Spec.Rfc8554Ots Spec.Rfc8554 Spec.HashSigs Spec.HssSpec.
From HbsLms Require Import Proofs.RfcCore Proofs.HashSigsProofs Proofs.HssRfc Proofs.KeyBlobProofs
     Proofs.SignProofs Gen.Generated.
From HbsLms Require Import Properties.C07.

Local Open Scope N_scope.

Lemma source_model_ok : forallb (model_ok K_src) hash_sizes = true.
Proof. vm_compute. reflexivity. Qed.
Lemma model_ok_n n : In n hash_sizes -> model_ok K_src n = true.
Proof. intros Hn. pose proof source_model_ok as S. rewrite forallb_forall in S. now apply S. Qed.

(* the private key blob: counter(8, big endian, zero) || parameter bytes (LMS type in the high
   nibble, LM-OTS type in the low nibble) || 0xff padding to 8 bytes || seed;
   the public key: u32str(L) || u32str(LMS type) || u32str(LM-OTS type) || I || T[1] with (seed0, I)
   from the reference's top-seed hashing, T[1] the RFC 8554 section 5.3 root over the Appendix A
   one-time keys of seed0 *)
Theorem C08_key_layout :
  forall (n : nat) (H : bytes -> bytes) (ps : list param) (seed sk pk : bytes),
    In n hash_sizes -> (forall x, length (H x) = n) ->
    Forall (fun p => In p (tbl_params K_src n)) ps -> length seed = n ->
    keygen K_src n H ps seed = Ok (sk, pk) ->
    sk = be 8 0 ++ map pack_param ps ++ repeat xff (8 - length ps) ++ seed
    /\ match ps with
       | [] => False
       | p0 :: _ =>
         let (s0, I0) := hs_root H seed in
         pk = u32str (N.of_nat (length ps))
                ++ lms_public_key (l_type (snd p0)) (o_type (fst p0)) I0
                     (T H I0 (fun q => alg1_public_key H I0 q (o_w (fst p0)) (N.of_nat (o_p (fst p0))) s0)
                        (N.of_nat (l_h (snd p0))) (l_h (snd p0)) 1)
       end.
Proof.
  intros n H ps seed sk pk Hn HL F Ls E.
  destruct (keygen_inv K_src n (model_ok_n n Hn) H ps seed sk pk F Ls E) as [pb [EP [R [L [-> [EK Hne]]]]]].
  split.
  - unfold params_to_bytes in EP. destruct (Nat.ltb _ _); [discriminate EP|].
    destruct (negb _); [discriminate EP|]. apply Ok_inj in EP. subst pb.
    rewrite <- app_assoc. reflexivity.
  - assert (Ls' : (length seed <= 32)%nat) by (pose proof (n_range n Hn); lia).
    pose proof (hss_public_key_is_rfc K_src n H HL (n_range n Hn) source_consts_rfc source_consts_hashsigs
                  ps seed pk Ls' EK) as P.
    destruct ps as [|p0 r]; [exact P|]. destruct (hs_root H seed) as [s0 I0]. rewrite P.
    unfold level_pub, level_K, mk_level. cbn [lv_lms_type lv_ots_type lv_I lv_h lv_w lv_p lv_seed].
    rewrite Nat2N.id. reflexivity.
Qed.

Theorem C08_parameter_byte :
  forall p : param, pack_param p = n2b ((l_type (snd p) mod 256) * 16 + o_type (fst p) mod 256).
Proof. reflexivity. Qed.

(* parameter bytes decode back to the parameter list (1..8 levels) *)
Theorem C08_parameter_roundtrip :
  forall (n : nat) (ps : list param) (pb : bytes),
    In n hash_sizes -> Forall (fun p => In p (tbl_params K_src n)) ps -> ps <> [] ->
    params_to_bytes K_src ps = Ok pb ->
    params_of_bytes K_src n pb = Ok ps /\ length pb = 8%nat.
Proof.
  intros n ps pb Hn F Hne E.
  exact (params_roundtrip K_src n (ok_pack K_src n (model_ok_n n Hn)) ps pb F Hne E).
Qed.

(* top-level seed / identifier, child seed / identifier, signature randomizer, chain-start values:
   the reference's blocks *)
Theorem C08_derivation :
  forall (n : nat) (H : bytes -> bytes) (seed I : bytes) (q : N) (prm : otsp),
    In n hash_sizes -> (forall x, length (H x) = n) -> length I = 16%nat -> (length seed <= 32)%nat ->
    root_seed_I K_src H seed = hs_root H seed
    /\ child_seed_I K_src H seed I q = hs_child H seed I q
    /\ randomizer K_src H seed I q = hs_randomizer H seed I q
    /\ ots_priv H I q seed prm = map (fun i => x_qi H I q (N.of_nat i) seed) (seq 0 (o_p prm)).
Proof.
  intros n H seed I q prm Hn HL LI Ls.
  assert (H32 : forall x, (length (H x) <= 32)%nat) by (intros x; rewrite HL; pose proof (n_range n Hn); lia).
  repeat split.
  - exact (root_seed_I_hs K_src H source_consts_hashsigs H32 seed Ls).
  - exact (child_seed_I_hs K_src H source_consts_hashsigs H32 seed I q LI Ls).
  - exact (randomizer_hs K_src H source_consts_hashsigs H32 seed I q LI Ls).
  - apply ots_priv_rfc.
Qed.


(* the hash preimage layouts of the current source (translator: ordered .chain / .update arguments
   per function) are the layouts the model writes down (Model/HashInputs.v) *)
From HbsLms Require Model.HashInputs.
Theorem C08_hash_input_layouts : src_hash_inputs = HashInputs.model_hash_inputs.
Proof. apply HashInputs.layouts_eqb_eq. vm_compute. reflexivity. Qed.

Print Assumptions C08_hash_input_layouts.
Print Assumptions C08_key_layout.
Print Assumptions C08_parameter_roundtrip.
Print Assumptions C08_derivation.
