(* src/hasher/mod.rs (hash chains), src/lm_ots/{keygen,signing,verify}.rs *)
From HbsLms Require Import Base.Bytes Model.Consts Model.Winternitz.

Local Open Scope N_scope.

(* overwrite [data] into [buf] at offset [off] (copy_from_slice into a sub-slice) *)
Definition blit (buf : bytes) (off : nat) (data : bytes) : bytes :=
  firstn off buf ++ data ++ skipn (off + length data) buf.

Section Lmots.
  Variable K : consts.
  Variable n : nat.                 (* H::OUTPUT_SIZE *)
  Variable H : bytes -> bytes.      (* update* ; finalize  ==  H (concatenation of the updates) *)

  (* HashChain::prepare_hash_chain_data + do_hash_chain: the iteration buffer *)
  Definition chain_buf (I : bytes) (q : N) (i : N) (j : N) (prev : bytes) : bytes :=
    let b0 := repeat x00 (c_iter_prev K + n) in
    let b1 := blit b0 (c_iter_i K) I in
    let b2 := blit b1 (c_iter_q K) (be 4 q) in
    let b3 := blit b2 (c_iter_k K) (be 2 i) in
    let b4 := blit b3 (c_iter_prev K) prev in
    blit b4 (c_iter_j K) [n2b j].

  (* do_actual_hash_chain: for j in from..to { tmp = H(buf with j, tmp) }; [steps] = to - from *)
  Fixpoint chain (I : bytes) (q i : N) (from : N) (steps : nat) (x : bytes) : bytes :=
    match steps with
    | O => x
    | S s => chain I q i (from + 1) s (H (chain_buf I q i from x))
    end.

  (* lm_ots::keygen::generate_private_key: x_i = H(I || q || u16(i) || 0xff || seed) *)
  Definition ots_priv (I : bytes) (q : N) (seed : bytes) (prm : otsp) : list bytes :=
    map (fun i => H (I ++ be 4 q ++ be 2 i ++ [xff] ++ seed)) (nrange (o_p prm)).

  Definition chain_len (prm : otsp) : N := 2 ^ (o_w prm) - 1.

  (* lm_ots::keygen::generate_public_key *)
  Definition ots_pub_of (I : bytes) (q : N) (prm : otsp) (xs : list bytes) : bytes :=
    let ys := map (fun ix => chain I q (fst ix) 0 (N.to_nat (chain_len prm)) (snd ix))
                  (combine (nrange (o_p prm)) xs) in
    H (I ++ be 4 q ++ c_d_pblc K ++ concat ys).

  Definition ots_pub (I : bytes) (q : N) (seed : bytes) (prm : otsp) : bytes :=
    ots_pub_of I q prm (ots_priv I q seed prm).

  (* the message digest Q = H(I || q || D_MESG || C || message) *)
  Definition ots_msg_hash (I : bytes) (q : N) (C msg : bytes) : bytes :=
    H (I ++ be 4 q ++ c_d_mesg K ++ C ++ msg).

  (* LmotsSignature::sign: the chain values y_i = chain^{a_i}(x_i) *)
  Definition ots_sign_ys (I : bytes) (q : N) (seed : bytes) (prm : otsp) (C msg : bytes) : list bytes :=
    let a := digits n prm (ots_msg_hash I q C msg) in
    map (fun t => chain I q (fst (fst t)) 0 (N.to_nat (snd (fst t))) (snd t))
        (combine (combine (nrange (o_p prm)) a) (ots_priv I q seed prm)).

  (* LmotsSignature::to_binary_representation: u32(type) || C || y_0 .. y_{p-1} *)
  Definition ots_sig_bytes (prm : otsp) (C : bytes) (ys : list bytes) : bytes :=
    be 4 (o_type prm) ++ C ++ concat ys.

  (* lm_ots::verify::generate_public_key_candidate (Algorithm 4b) *)
  Definition ots_candidate (I : bytes) (q : N) (prm : otsp) (C : bytes) (ys : list bytes) (msg : bytes) : bytes :=
    let a := digits n prm (ots_msg_hash I q C msg) in
    let zs := map (fun t => chain I q (fst (fst t)) (snd (fst t))
                               (N.to_nat (chain_len prm - snd (fst t))) (snd t))
                  (combine (combine (nrange (o_p prm)) a) ys) in
    H (I ++ be 4 q ++ c_d_pblc K ++ concat zs).

  (* hash_iterations of a signature (verbose feature / fast_verify cost): sum of the digits *)
  Definition ots_hash_iterations (prm : otsp) (Q : bytes) : N :=
    fold_left N.add (digits n prm Q) 0.
End Lmots.
