(* The fast_verify feature: src/hss/mod.rs (hss_sign_mut), src/lm_ots/signing.rs
   (calculate_message_hash_fast_verify, optimize_message_hash), src/lm_ots/parameters.rs
   (fast_verify_eval_init / fast_verify_eval).
   The racing randomizer search (threads, OsRng, MAX_HASH_OPTIMIZATIONS) is modelled by its only
   observable: the n bytes [r] it leaves in the trailer of the message.  Every statement about
   sign_mut is universally quantified over r, which absorbs thread count, interleaving and the RNG. *)
From HbsLms Require Import Base.Bytes Model.Consts Model.Winternitz Model.Lmots Model.Lms Model.Codec
     Model.KeyBlob Model.Hss Model.SignCore.

Local Open Scope N_scope.

Section FastVerify.
  Variable K : consts.
  Variable n : nat.
  Variable H : bytes -> bytes.

  Definition key_loads (blob : bytes) : bool :=
    match blob_parse K n blob with
    | Ok k => is_ok (params_of_bytes K n (k_params k))
    | _ => false
    end.

  (* hss_sign_mut: result, callback record, the caller's message buffer afterwards *)
  Definition sign_mut (blob msg r : bytes) (cb : bytes -> bool) : res bytes * list (bytes * bool) * bytes :=
    if Nat.leb (length msg) n then (Err, [], msg)
    else
      let body := firstn (length msg - n) msg in
      let trailer := skipn (length msg - n) msg in
      if negb (all_zero trailer) then (Err, [], msg)
      else
        let msg' := body ++ r in
        let (res, calls) := sign_core K n H blob msg' cb in
        (res, calls, if key_loads blob then msg' else msg).

  (* LmotsParameter::fast_verify_eval: the cost a candidate digest would have *)
  Definition fv_eval (prm : otsp) (Q : bytes) : res N :=
    let w := o_w prm in
    let maxd := N.to_nat ((N.of_nat n * 8) / w) in
    let total := fold_left (fun acc i => acc + coef Q i w) (nrange maxd) 0 in
    let sum := N.of_nat maxd * (coef_mask w) in
    let checksum := ((sum - total) * 2 ^ (o_ls prm)) mod 65536 in
    let cs := [n2b (N.land (N.shiftr checksum 8) 255); n2b (N.land checksum 255)] in
    fold_left (fun acc i =>
                 do a <- acc;
                 let index := coef_index i w in
                 if Nat.ltb index n then Panic          (* index - OUTPUT_SIZE underflows *)
                 else match nth_error cs (index - n) with
                      | None => Panic
                      | Some b => Ok (a + N.land (N.shiftr (b2n b) (coef_shift i w)) (coef_mask w))
                      end)
              (map (fun k => N.of_nat maxd + k) (nrange (o_p prm - maxd))) (Ok total).

  (* Signature::hash_iterations (feature "verbose"): the sum of all chain positions of all LM-OTS
     signatures inside an HSS signature, recomputed from the signature bytes *)
  Definition lms_sig_iterations (I : bytes) (s : lms_sig) (msg : bytes) : N :=
    ots_hash_iterations n (s_ots s) (ots_msg_hash K H I (s_q s) (s_C s) msg).

  Fixpoint chain_iterations (key : lms_pk) (spks : list (lms_sig * lms_pk)) : N * lms_pk :=
    match spks with
    | [] => (0, key)
    | (s, pk) :: rest =>
      let (t, last) := chain_iterations pk rest in
      (lms_sig_iterations (p_I key) s (p_raw pk) + t, last)
    end.

  Definition sig_hash_iterations (msg sig pk : bytes) : res N :=
    do s <- parse_hss_sig K n sig;
    do (L, key) <- parse_hss_pk K n pk;
    let (t, last) := chain_iterations key (h_spks s) in
    Ok (t + lms_sig_iterations (p_I last) (h_sig s) msg).
End FastVerify.
