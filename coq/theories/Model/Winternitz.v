(* src/util/coef.rs and the checksum part of src/lm_ots/parameters.rs *)
From HbsLms Require Import Base.Bytes Model.Consts.

Local Open Scope N_scope.

(* [0; 1; ...; k-1] as N *)
Definition nrange (k : nat) : list N := map N.of_nat (seq 0 k).

(* util::coef::coef(byte_string, i: u16, w: u8).
   index = ((i * w as u16) / 8); shift = w * (!i & (8/w - 1)); mask = (1 << w) - 1.
   [!i] on u16 is 65535 - i.  The slice access [byte_string[index]] panics when the
   index is out of range; [coef] is the value for in-range indices
   ([coef_index] makes the index explicit so that range lemmas can talk about it). *)
Definition coef_index (i w : N) : nat := N.to_nat ((i * w) / 8).
Definition coef_shift (i w : N) : N := w * N.land (65535 - i) (8 / w - 1).
Definition coef_mask (w : N) : N := N.shiftl 1 w - 1.

Definition coef (S : bytes) (i w : N) : N :=
  N.land (N.shiftr (b2n (nth (coef_index i w) S x00)) (coef_shift i w)) (coef_mask w).

(* LmotsParameter::checksum: u16 sum, then [sum << ls] on u16 (bits shifted out are lost) *)
Definition cksm_sum (n : nat) (w : N) (Q : bytes) : N :=
  fold_left (fun acc i => acc + (coef_mask w - coef Q i w))
            (nrange (N.to_nat ((N.of_nat n * 8) / w))) 0.

Definition checksum (n : nat) (prm : otsp) (Q : bytes) : N :=
  (cksm_sum n (o_w prm) Q * 2 ^ (o_ls prm)) mod 65536.

(* LmotsParameter::append_checksum_to *)
Definition append_checksum (n : nat) (prm : otsp) (Q : bytes) : bytes :=
  let c := checksum n prm Q in
  Q ++ [n2b (N.land (N.shiftr c 8) 255); n2b (N.land c 255)].

(* the chain positions used by signer and verifier: coef(Q || Cksm(Q), i, w), i < p *)
Definition digits (n : nat) (prm : otsp) (Q : bytes) : list N :=
  map (fun i => coef (append_checksum n prm Q) i (o_w prm)) (nrange (o_p prm)).
