(* HSS: key expansion (HssPrivateKey::from), signing (HssSignature::sign +
   to_binary_representation), key generation (HssPublicKey::from) and verification
   (src/hss/verify.rs, src/lms/verify.rs), all without auxiliary data. *)
From HbsLms Require Import Base.Bytes Model.Consts Model.Winternitz Model.Lmots Model.Lms
     Model.Derive Model.Counter Model.KeyBlob Model.Codec.

Local Open Scope N_scope.

Section Hss.
  Variable K : consts.
  Variable n : nat.
  Variable H : bytes -> bytes.


  Definition tree_pk (ps : param) (seed I : bytes) : bytes :=
    lms_pk_bytes (fst ps) (snd ps) I (lms_root K n H I seed (fst ps) (snd ps)).

  (* HssPrivateKey::from: walk down the levels.  [(seed, I)] is the current tree, [p] its
     parameters, [q] its leaf; the rest of the list are the levels below.  Produces the signed
     public keys (LMS signature by this level over the next level's public key, then that key)
     and the bottom tree. *)
  Fixpoint expand (seed I : bytes) (p : param) (q : N) (below : list (param * N))
    : list bytes * (bytes * bytes * param * N) :=
    match below with
    | [] => ([], (seed, I, p, q))
    | (p', q') :: rest =>
      let (cseed, cI) := child_seed_I K H seed I q in
      let C := randomizer K H cseed cI q in
      let cpk := tree_pk p' cseed cI in
      let sig := lms_sign_bytes K n H I seed (fst p) (snd p) q C cpk in
      let (spks, bottom) := expand cseed cI p' q' rest in
      ((sig ++ cpk) :: spks, bottom)
    end.

  (* HssSignature::sign + to_binary_representation for counter c *)
  Definition hss_signature (ps : list param) (seed : bytes) (c : N) (msg : bytes) : res bytes :=
    match combine ps (leaf_digits (heights_of ps) c) with
    | [] => Err
    | (p0, q0) :: below =>
      let (s0, I0) := root_seed_I K H seed in
      let '(spks, (bseed, bI, bp, bq)) := expand s0 I0 p0 q0 below in
      let C := randomizer K H bseed bI bq in
      Ok (be 4 (N.of_nat (length below)) ++ concat spks
             ++ lms_sign_bytes K n H bI bseed (fst bp) (snd bp) bq C msg)
    end.

  (* HssPublicKey::from + to_binary_representation *)
  Definition hss_public_key (ps : list param) (seed : bytes) : res bytes :=
    match ps with
    | [] => Err
    | p0 :: _ =>
      let (s0, I0) := root_seed_I K H seed in
      Ok (be 4 (N.of_nat (length ps)) ++ tree_pk p0 s0 I0)
    end.

  (* hss_keygen without aux data: (private key blob, public key) *)
  Definition keygen (ps : list param) (seed : bytes) : res (bytes * bytes) :=
    do k <- key_generate K ps seed;
    do ps' <- params_of_bytes K n (k_params k);
    do pk <- hss_public_key ps' seed;
    if Nat.ltb (c_used_leafs_size K + c_ref_levels K + c_max_seed_len K) (length (blob_of K k)) then Err
    else if Nat.ltb (4 + 4 + 4 + c_ilen K + c_max_hash_size K) (length pk) then Err
    else Ok (blob_of K k, pk).

  (* ---------------------------------------------------------------- verification *)

  (* lms::verify::verify *)
  Definition lms_verify (s : lms_sig) (key : lms_pk) (msg : bytes) : bool :=
    otsp_eqb (s_ots s) (p_ots key) && lmsp_eqb (s_lms s) (p_lms key)
    && (s_q s <? 2 ^ N.of_nat (l_h (s_lms s)))
    && bytes_eqb (lms_candidate K n H (p_I key) (s_ots s) (s_lms s) (s_q s) (s_C s) (s_y s) (s_path s) msg)
                 (p_key key).

  Fixpoint verify_chain (key : lms_pk) (spks : list (lms_sig * lms_pk)) : option lms_pk :=
    match spks with
    | [] => Some key
    | (s, pk) :: rest =>
      if lms_verify s key (p_raw pk) then verify_chain pk rest else None
    end.

  (* hss_verify: Ok tt = signature accepted, Err = rejected *)
  Definition hss_verify (msg sig pk : bytes) : res unit :=
    do s <- parse_hss_sig K n sig;
    do (L, key) <- parse_hss_pk K n pk;
    if negb (h_nspk s + 1 =? L) then Err
    else
      match verify_chain key (h_spks s) with
      | None => Err
      | Some key' => if lms_verify (h_sig s) key' msg then Ok tt else Err
      end.
End Hss.
