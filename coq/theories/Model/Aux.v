(* Auxiliary data: src/hss/aux.rs, the aux-aware get_tree_element of src/lms/helper.rs, and the
   aux handling of HssPrivateKey::get_expanded_aux_data / HssPublicKey::from / hss_sign_core.
   The caller's buffer is a byte list; every function returns the buffer as the caller sees it
   afterwards (the Rust code shrinks the caller's slice and writes through sub-slices of it). *)
From HbsLms Require Import Base.Bytes Model.Consts Model.Winternitz Model.Lmots Model.Lms Model.Derive
     Model.Counter Model.KeyBlob Model.Hss.

Local Open Scope N_scope.

(* MutableExpandedAuxData: the level word, the cached layers (tree level -> node bytes, ascending),
   the MAC area (whatever follows the layers in the buffer) *)
Record expanded := {
  ax_level : N;
  ax_layers : list (nat * bytes);
  ax_hmac : bytes;
}.

Section Aux.
  Variable K : consts.
  Variable n : nat.
  Variable H : bytes -> bytes.

  Definition max_tree_height : nat := N.to_nat (fold_right N.max 0 (c_tree_heights K)).

  (* (1..=h0).rev().step_by(MIN_SUBTREE) *)
  Fixpoint levels_from (h0 : nat) (fuel : nat) : list nat :=
    match fuel with
    | O => []
    | S f => if Nat.ltb h0 1 then [] else h0 :: levels_from (h0 - c_min_subtree K) f
    end.

  (* sizes are kept in N: a level word may announce n << 25 bytes *)
  Fixpoint pick_levels (ls : list nat) (avail : N) : list nat * N :=
    match ls with
    | [] => ([], avail)
    | l :: r =>
      let sz := N.of_nat n * 2 ^ N.of_nat l in
      if sz <=? avail
      then let (chosen, rem) := pick_levels r (avail - sz) in (l :: chosen, rem)
      else pick_levels r avail
    end.

  Definition level_word (ls : list nat) : N :=
    match ls with
    | [] => 0
    | _ => fold_left (fun acc l => N.lor acc (N.shiftl 1 (N.of_nat l))) ls 0x80000000
    end.

  (* hss_optimal_aux_level: (aux level word, actual length) *)
  Definition optimal_aux (max_length h0 : nat) : N * nat :=
    if Nat.ltb max_length (c_aux_data_hashes K + n) then (0, 1%nat)
    else
      let (chosen, rem) := pick_levels (levels_from h0 (S h0))
                                       (N.of_nat (max_length - (c_aux_data_hashes K + n))) in
      (level_word chosen, (max_length - N.to_nat rem)%nat).

  (* hss_get_aux_data_len *)
  Definition aux_data_len (max_length h0 : nat) : nat :=
    let (lvl, len) := optimal_aux max_length h0 in if lvl =? 0 then 1%nat else len.

  (* compute_seed_derive, compute_hmac *)
  Definition aux_key (seed : bytes) : bytes :=
    let p0 := repeat x00 (c_daux_prefix_len K) in
    let p1 := blit p0 (c_daux_d K) [n2b (N.shiftr (c_d_daux K) 8)] in
    let p2 := blit p1 (c_daux_d K + 1) [n2b (N.land (c_d_daux K) 255)] in
    H (p2 ++ seed).

  Definition xor_pad (pad : N) (key : bytes) : bytes :=
    map (fun b => n2b (N.lxor (b2n b) pad)) key ++ repeat (n2b pad) (c_max_hash_block_size K - n).

  Definition hmac (key data : bytes) : bytes :=
    H (xor_pad (c_opad K) key ++ H (xor_pad (c_ipad K) key ++ data)).

  (* the layer sizes announced by a level word: bit i set (i <= MAX_TREE_HEIGHT) -> n << i bytes *)
  Definition layer_sizes (lvl : N) : list (nat * N) :=
    flat_map (fun i => if N.testbit lvl (N.of_nat i) then [(i, N.of_nat n * 2 ^ N.of_nat i)] else [])
             (seq 0 (S max_tree_height)).

  Fixpoint split_layers (sizes : list (nat * N)) (data : bytes) : res (list (nat * bytes) * bytes) :=
    match sizes with
    | [] => Ok ([], data)
    | (i, sz) :: r =>
      if N.of_nat (length data) <? sz then Panic   (* split_at_mut beyond the end; excluded by the length checks *)
      else
        match read (N.to_nat sz) data with
        | None => Panic
        | Some (layer, rest) =>
          do (ls, rest') <- split_layers r rest;
          Ok ((i, layer) :: ls, rest')
        end
    end.

  (* hss_expand_aux_data: None = the buffer is not used as a cache *)
  Definition expand_aux (aux : bytes) (seed : option bytes) : res (option expanded) :=
    match aux with
    | [] => Ok None
    | b0 :: _ =>
      if b2n b0 =? c_no_aux_data K then Ok None
      else
        match read 4 aux with
        | None => Ok None
        | Some (lb, body) =>
          let lvl := be_dec lb in
          let sizes := layer_sizes lvl in
          let total := 4 + fold_right N.add 0 (map snd sizes) in
          let mac_ok :=
              match seed with
              | None => true
              | Some sd =>
                if N.of_nat (length aux) <? total then false
                else bytes_eqb (hmac (aux_key sd) (firstn (N.to_nat total) aux)) (skipn (N.to_nat total) aux)
              end in
          if negb mac_ok then Ok None
          else
            do (layers, rest) <- split_layers sizes body;
            Ok (Some {| ax_level := lvl; ax_layers := layers; ax_hmac := rest |})
        end
    end.

  (* the caller's buffer as it looks with the expanded view written back *)
  Definition unexpand (e : expanded) : bytes :=
    be 4 (ax_level e) ++ concat (map snd (ax_layers e)) ++ ax_hmac e.

  (* hss_store_aux_marker *)
  Definition store_marker (aux : bytes) (lvl : N) : bytes :=
    if lvl =? 0 then blit aux (c_aux_data_marker K) [n2b (c_no_aux_data K)]
    else blit aux 0 (be 4 lvl).

  (* hss_finalize_aux_data: MAC over the level word and the layers of levels 0 .. MAX_TREE_HEIGHT - 1 *)
  Definition finalize_aux (e : expanded) (seed : bytes) : expanded :=
    let covered := filter (fun l => Nat.ltb (fst l) max_tree_height) (ax_layers e) in
    {| ax_level := ax_level e; ax_layers := ax_layers e;
       ax_hmac := hmac (aux_key seed) (be 4 (ax_level e) ++ concat (map snd covered)) |}.

  (* tree level of a node index: floor(log2 index) *)
  Definition node_level (r : N) : nat := N.to_nat (N.log2 r).

  (* hss_extract_aux_data *)
  Definition extract_aux (e : expanded) (r : N) : option bytes :=
    match find (fun l => Nat.eqb (fst l) (node_level r)) (ax_layers e) with
    | None => None
    | Some (_, data) =>
      let off := (N.to_nat (r - 2 ^ N.log2 r) * n)%nat in
      let slot := firstn n (skipn off data) in
      if all_zero slot then None else Some slot
    end.

  (* hss_save_aux_data *)
  Definition save_aux (e : expanded) (r : N) (v : bytes) : expanded :=
    {| ax_level := ax_level e;
       ax_layers := map (fun l => if Nat.eqb (fst l) (node_level r)
                                  then (fst l, blit (snd l) (N.to_nat (r - 2 ^ N.log2 r) * n) v)
                                  else l) (ax_layers e);
       ax_hmac := ax_hmac e |}.

  (* lms::helper::get_tree_element with Some(aux): a cached, non-zero node is returned as is;
     otherwise the node is computed from its children (recursively through the cache) and stored *)
  Fixpoint tree_aux (h : nat) (I seed : bytes) (prm : otsp) (d : nat) (r : N) (e : expanded)
    : bytes * expanded :=
    match extract_aux e r with
    | Some v => (v, e)
    | None =>
      match d with
      | O =>
        let v := leaf_hash K H I r (ots_pub K n H I (r - 2 ^ N.of_nat h) seed prm) in
        (v, save_aux e r v)
      | S d' =>
        let (l, e1) := tree_aux h I seed prm d' (2 * r) e in
        let (rt, e2) := tree_aux h I seed prm d' (2 * r + 1) e1 in
        let v := intr_hash K H I r l rt in
        (v, save_aux e2 r v)
      end
    end.

  (* HssPrivateKey::get_expanded_aux_data: the expanded view (if any) and the caller's buffer after
     the shrinking / marker writing of the fresh path *)
  Definition get_expanded (aux : bytes) (seed : bytes) (h0 : nat) : res (option expanded * bytes) :=
    match aux with
    | [] => Ok (None, aux)
    | b0 :: _ =>
      if negb (b2n b0 =? c_no_aux_data K) then
        (* in use: validated against the seed, never resized *)
        do oe <- expand_aux aux (Some seed); Ok (oe, aux)
      else
        let len := aux_data_len (length aux) h0 in
        let shrunk := repeat x00 len in          (* the fresh path starts from a cleared cache *)
        let (lvl, _) := optimal_aux len h0 in
        let marked := store_marker shrunk lvl in
        do oe <- expand_aux marked None; Ok (oe, marked)
    end.

  (* key generation with an aux buffer: (private key, public key, buffer afterwards) *)
  Definition keygen_aux (ps : list param) (seed aux : bytes) : res (bytes * bytes * bytes) :=
    do k <- key_generate K ps seed;
    do ps' <- params_of_bytes K n (k_params k);
    match ps' with
    | [] => Err
    | p0 :: _ =>
      do (oe, aux1) <- get_expanded aux seed (l_h (snd p0));
      let (s0, I0) := root_seed_I K H seed in
      let fresh := match aux with b0 :: _ => b2n b0 =? c_no_aux_data K | [] => false end in
      let '(root, aux2) :=
          match oe with
          | None => (lms_root K n H I0 s0 (fst p0) (snd p0), aux1)
          | Some e =>
            let (rt, e') := tree_aux (l_h (snd p0)) I0 s0 (fst p0) (l_h (snd p0)) 1 e in
            (rt, unexpand (if fresh then finalize_aux e' seed else e'))
          end in
      let pk := be 4 (N.of_nat (length ps')) ++ lms_pk_bytes (fst p0) (snd p0) I0 root in
      if Nat.ltb (c_used_leafs_size K + c_ref_levels K + c_max_seed_len K) (length (blob_of K k)) then Err
      else if Nat.ltb (4 + 4 + 4 + c_ilen K + c_max_hash_size K) (length pk) then Err
      else Ok (blob_of K k, pk, aux2)
    end.

  (* authentication path through the cache *)
  Fixpoint auth_path_aux (h : nat) (I seed : bytes) (prm : otsp) (q : N) (levels : list nat) (e : expanded)
    : list bytes * expanded :=
    match levels with
    | [] => ([], e)
    | i :: r =>
      let (v, e1) := tree_aux h I seed prm i (N.lxor ((2 ^ N.of_nat h + q) / 2 ^ N.of_nat i) 1) e in
      let (vs, e2) := auth_path_aux h I seed prm q r e1 in
      (v :: vs, e2)
    end.

  (* the LMS signature of the TOP tree with the cache; every other tree is computed without it *)
  Definition lms_sign_bytes_aux (I seed : bytes) (p : param) (q : N) (C msg : bytes) (e : expanded)
    : bytes * expanded :=
    let (path, e') := auth_path_aux (l_h (snd p)) I seed (fst p) q (seq 0 (l_h (snd p))) e in
    (be 4 q ++ ots_sig_bytes (fst p) C (ots_sign_ys K n H I q seed (fst p) C msg)
        ++ be 4 (l_type (snd p)) ++ concat path, e').

  (* hss_signature with the expanded aux view of the top tree *)
  Definition hss_signature_aux (ps : list param) (seed : bytes) (c : N) (msg : bytes) (e : expanded)
    : res (bytes * expanded) :=
    match combine ps (leaf_digits (heights_of ps) c) with
    | [] => Err
    | (p0, q0) :: below =>
      let (s0, I0) := root_seed_I K H seed in
      match below with
      | [] =>
        let C := randomizer K H s0 I0 q0 in
        let (sig, e') := lms_sign_bytes_aux I0 s0 p0 q0 C msg e in
        Ok (be 4 0 ++ sig, e')
      | (p1, q1) :: rest =>
        let (cseed, cI) := child_seed_I K H s0 I0 q0 in
        let C := randomizer K H cseed cI q0 in
        let cpk := tree_pk K n H p1 cseed cI in
        let (sig0, e') := lms_sign_bytes_aux I0 s0 p0 q0 C cpk e in
        let '(spks, (bseed, bI, bp, bq)) := expand K n H cseed cI p1 q1 rest in
        let Cb := randomizer K H bseed bI bq in
        Ok (be 4 (N.of_nat (length below)) ++ (sig0 ++ cpk) ++ concat spks
               ++ lms_sign_bytes K n H bI bseed (fst bp) (snd bp) bq Cb msg, e')
      end
    end.

  (* hss_sign_core with an aux buffer: result, callback record, buffer afterwards *)
  Definition sign_core_aux (blob msg aux : bytes) (cb : bytes -> bool)
    : res bytes * list (bytes * bool) * bytes :=
    match blob_parse K n blob with
    | Err => (Err, [], aux)
    | Panic => (Panic, [], aux)
    | Ok k =>
      match params_of_bytes K n (k_params k) with
      | Err => (Err, [], aux)
      | Panic => (Panic, [], aux)
      | Ok ps =>
        match ps with
        | [] => (Err, [], aux)
        | p0 :: _ =>
          match get_expanded aux (k_seed k) (l_h (snd p0)) with
          | Err => (Err, [], aux)
          | Panic => (Panic, [], aux)
          | Ok (oe, aux1) =>
            let r :=
                match oe with
                | None =>
                  match hss_signature K n H ps (k_seed k) (k_counter k) msg with
                  | Ok s => Ok (s, aux1) | Err => Err | Panic => Panic
                  end
                | Some e =>
                  match hss_signature_aux ps (k_seed k) (k_counter k) msg e with
                  | Ok (s, e') => Ok (s, unexpand e') | Err => Err | Panic => Panic
                  end
                end in
            match r with
            | Err => (Err, [], aux1)
            | Panic => (Panic, [], aux1)
            | Ok (sig, aux2) =>
              let next := blob_of K (key_increment K n k ps) in
              if cb next then (Ok sig, [(next, true)], aux2) else (Err, [(next, false)], aux2)
            end
          end
        end
      end
    end.
End Aux.
