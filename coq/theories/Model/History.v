(* Signing histories: any sequence of byte-level signing calls (accepted or rejected by the
   caller's callback), in-memory signing-key calls, reloads and lifetime queries, always
   continuing from the most recently persisted private key. *)
From HbsLms Require Import Base.Bytes Model.Consts Model.KeyBlob Model.Hss Model.SignCore.

Section History.
  Variable K : consts.
  Variable n : nat.
  Variable H : bytes -> bytes.

  Inductive op :=
  | OSign (msg : bytes) (accept : bool)   (* hbs_lms::sign; the callback persists the key iff it accepts *)
  | OSignMem (msg : bytes)                (* SigningKey::from_bytes(persisted).try_sign; its bytes are persisted back *)
  | OReload                               (* the key is read back from storage *)
  | OLifetime.                            (* SigningKey::get_lifetime *)

  (* one step: new persisted key and the signature released by this step, if any *)
  Definition step (blob : bytes) (o : op) : bytes * option bytes :=
    match o with
    | OSign msg acc =>
      match sign_core K n H blob msg (fun _ => acc) with
      | (Ok sig, [(next, true)]) => (next, Some sig)
      | _ => (blob, None)
      end
    | OSignMem msg =>
      match signing_key_try_sign K n H blob msg with
      | (Ok sig, next) => (next, Some sig)
      | (_, k) => (k, None)
      end
    | OReload => (blob, None)
    | OLifetime => (blob, None)
    end.

  Fixpoint run (ops : list op) (blob : bytes) : bytes * list bytes :=
    match ops with
    | [] => (blob, [])
    | o :: r =>
      let (b', rel) := step blob o in
      let (bf, rels) := run r b' in
      (bf, match rel with Some s => s :: rels | None => rels end)
    end.
End History.
