(* src/hss/mod.rs: hss_sign_core (without auxiliary data), SigningKey::{get_lifetime,
   try_sign}.  The caller's key-update callback is modelled by its observable behaviour:
   a function from the successor key bytes to accept (true) / reject (false); the model
   returns the list of callback invocations with their arguments and verdicts. *)
From HbsLms Require Import Base.Bytes Model.Consts Model.Counter Model.KeyBlob Model.Hss.

Local Open Scope N_scope.

Section SignCore.
  Variable K : consts.
  Variable n : nat.
  Variable H : bytes -> bytes.

  Definition calls := list (bytes * bool).

  (* hss_sign_core *)
  Definition sign_core (blob msg : bytes) (cb : bytes -> bool) : res bytes * calls :=
    match blob_parse K n blob with
    | Err => (Err, [])
    | Panic => (Panic, [])
    | Ok k =>
      match params_of_bytes K n (k_params k) with
      | Err => (Err, [])
      | Panic => (Panic, [])
      | Ok ps =>
        match hss_signature K n H ps (k_seed k) (k_counter k) msg with
        | Err => (Err, [])
        | Panic => (Panic, [])
        | Ok sig =>
          let next := blob_of K (key_increment K n k ps) in
          if cb next then (Ok sig, [(next, true)]) else (Err, [(next, false)])
        end
      end
    end.

  (* SigningKey::try_sign: the internal callback stores the successor and accepts *)
  Definition signing_key_try_sign (key msg : bytes) : res bytes * bytes :=
    match sign_core key msg (fun _ => true) with
    | (Ok sig, [(next, _)]) => (Ok sig, next)
    | (r, _) => (r, key)
    end.

  (* SigningKey::get_lifetime *)
  Definition get_lifetime (key : bytes) : res N :=
    do k <- blob_parse K n key;
    do ps <- params_of_bytes K n (k_params k);
    lifetime (heights_of ps) (k_counter k).
End SignCore.
