(* C16: which structs of the source carry secrets, and whether each of them is wiped on drop.
   Works on the struct table the translator extracts from the current source
   (Gen/Generated.v: src_structs, src_impls). *)
From Coq Require Import Strings.String Strings.Ascii.
From HbsLms Require Import Base.Bytes.

Local Open Scope string_scope.

Definition sfield := (string * string * bool)%type.             (* name, type, #[zeroize(skip)] *)
Definition sstruct := (string * list string * list sfield)%type. (* name, derives, fields *)

(* the fields that hold secret bytes directly: the seed bytes, the LM-OTS private chain values *)
Definition secret_roots : list (string * string) :=
  [("Seed", "data"); ("LmotsPrivateKey", "key")].

Definition is_ident_char (c : ascii) : bool :=
  let n := N_of_ascii c in
  ((48 <=? n) && (n <=? 57) || (65 <=? n) && (n <=? 90) || (97 <=? n) && (n <=? 122) || (n =? 95))%N.

Fixpoint starts_with (p s : string) : bool :=
  match p, s with
  | EmptyString, _ => true
  | String a p', String b s' => Ascii.eqb a b && starts_with p' s'
  | _, _ => false
  end.

Fixpoint drop_str (k : nat) (s : string) : string :=
  match k, s with
  | O, _ => s
  | S k', String _ s' => drop_str k' s'
  | _, EmptyString => EmptyString
  end.

(* [name] occurs in [ty] as a whole identifier *)
Fixpoint mentions_from (prev_ident : bool) (name ty : string) : bool :=
  match ty with
  | EmptyString => false
  | String c rest =>
    (negb prev_ident && starts_with name ty
     && match drop_str (String.length name) ty with
        | EmptyString => true
        | String d _ => negb (is_ident_char d)
        end)
    || mentions_from (is_ident_char c) name rest
  end.
Definition mentions (name ty : string) : bool := mentions_from false name ty.

Definition by_reference (ty : string) : bool := starts_with "&" ty.
Definition is_phantom (ty : string) : bool := starts_with "PhantomData" ty.

Definition sname (s : sstruct) : string := fst (fst s).
Definition sderives (s : sstruct) : list string := snd (fst s).
Definition sfields (s : sstruct) : list sfield := snd s.
Definition has (x : string) (l : list string) : bool := existsb (String.eqb x) l.

Definition is_root (s : sstruct) (f : sfield) : bool :=
  existsb (fun r => String.eqb (fst r) (sname s) && String.eqb (snd r) (fst (fst f))) secret_roots.

(* field f of s owns (by value) a value of one of the structs in [sb] *)
Definition owns_secret (sb : list string) (f : sfield) : bool :=
  let ty := snd (fst f) in
  negb (by_reference ty) && negb (is_phantom ty) && existsb (fun t => mentions t ty) sb.

Definition secret_field (sb : list string) (s : sstruct) (f : sfield) : bool :=
  is_root s f || owns_secret sb f.

(* one round of closure: structs with a root field or owning a known secret-bearing struct *)
Definition grow (all : list sstruct) (sb : list string) : list string :=
  map sname (filter (fun s => existsb (secret_field sb s) (sfields s)) all).

Fixpoint closure (fuel : nat) (all : list sstruct) (sb : list string) : list string :=
  match fuel with
  | O => sb
  | S f => closure f all (grow all sb)
  end.

Definition secret_bearing (all : list sstruct) : list string := closure (List.length all) all [].

(* a root field must be of a type with a zeroizing implementation *)
Definition zeroizable_root_type (impls : list (string * string)) (ty : string) : bool :=
  (mentions "ArrayVecZeroize" ty && existsb (fun i => String.eqb (fst i) "DefaultIsZeroes" && String.eqb (snd i) "ArrayVecZeroize") impls)
  || starts_with "[u8;" ty.

Definition struct_ok (all : list sstruct) (impls : list (string * string)) (sb : list string) (s : sstruct) : bool :=
  let secrets := filter (secret_field sb s) (sfields s) in
  if has "Zeroize" (sderives s) then
    (* derive(Zeroize, ZeroizeOnDrop): every secret field takes part in the wipe *)
    has "ZeroizeOnDrop" (sderives s)
    && forallb (fun f => negb (snd f)) secrets
    && forallb (fun f => negb (is_root s f) || zeroizable_root_type impls (snd (fst f))) secrets
  else
    (* no wipe of its own: it may only OWN values of wiping types (dropped field by field), never
       hold secret bytes directly, and must not interfere with a hand-written Drop *)
    forallb (fun f => negb (is_root s f)) secrets
    && negb (existsb (fun i => String.eqb (snd i) (sname s) && (String.eqb (fst i) "Drop" || String.eqb (fst i) "Zeroize")) impls).

Definition all_ok (all : list sstruct) (impls : list (string * string)) : bool :=
  let sb := secret_bearing all in
  forallb (fun s => negb (has (sname s) sb) || struct_ok all impls sb s) all.
