(* The 8-byte signature counter: src/hss/reference_impl_private_key.rs
   (CompressedUsedLeafsIndexes::to / increment) and
   src/hss/definitions.rs (HssPrivateKey::get_lifetime). *)
From HbsLms Require Import Base.Bytes.

Local Open Scope N_scope.

Definition u64_max : N := 2 ^ 64 - 1.

(* CompressedUsedLeafsIndexes::to -- walks the levels from the bottom upwards:
   q_i = c & (2^h_i - 1); c >>= h_i.   [hs_rev] lists the heights bottom level first. *)
Fixpoint leaf_digits_rev (hs_rev : list N) (c : N) : list N :=
  match hs_rev with
  | [] => []
  | h :: r => N.land c (2 ^ h - 1) :: leaf_digits_rev r (N.shiftr c h)
  end.

(* per-level leaf indices, top level first, for heights [hs] (top level first) *)
Definition leaf_digits (hs : list N) (c : N) : list N :=
  rev (leaf_digits_rev (rev hs) c).

Definition sumN (l : list N) : N := fold_right N.add 0 l.

(* CompressedUsedLeafsIndexes::increment: the largest counter value that still has a
   successor.  [2u64.pow(total) - 1], with the power saturating at the u64 range. *)
Definition last_counter (hs : list N) : N :=
  let total := sumN hs in
  if total <? 64 then 2 ^ total - 1 else u64_max.

(* [None] = Err(()) = the key is exhausted and gets wiped *)
Definition incr (hs : list N) (c : N) : option N :=
  if last_counter hs <=? c then None else Some (c + 1).

Definition sat_mul (a b : N) : N := N.min (a * b) u64_max.
Definition sat_add (a b : N) : N := N.min (a + b) u64_max.

(* HssPrivateKey::get_lifetime.  Levels are visited bottom first; [below] collects the
   tree sizes of the levels already visited.  [total - used] is a u64 subtraction. *)
Fixpoint lifetime_loop (lv_rev : list (N * N)) (below : list N) (acc : N) : res N :=
  match lv_rev with
  | [] => Ok acc
  | (h, used) :: r =>
    let total := 2 ^ h in
    if total <? used then Panic
    else
      let free := fold_left sat_mul below (total - used) in
      lifetime_loop r (below ++ [total]) (sat_add acc free)
  end.

Definition lifetime_of (hs used : list N) : res N :=
  lifetime_loop (rev (combine hs used)) [] 0.

(* the per-level [used_leafs_index] values that HssPrivateKey::from leaves behind:
   every level except the bottom one has handed out its current leaf *)
Fixpoint used_after_expand (qs : list N) : list N :=
  match qs with
  | [] => []
  | [q] => [q]
  | q :: r => (q + 1) :: used_after_expand r
  end.

Definition lifetime (hs : list N) (c : N) : res N :=
  lifetime_of hs (used_after_expand (leaf_digits hs c)).
