(* Seed / tree identifier derivation: src/hss/reference_impl_private_key.rs
   (generate_root_seed_and_lms_tree_identifier, generate_child_seed_and_lms_tree_identifier,
   generate_signature_randomizer) and src/hss/seed_derive.rs *)
From HbsLms Require Import Base.Bytes Model.Consts Model.Lmots.

Local Open Scope N_scope.

Section Derive.
  Variable K : consts.
  Variable n : nat.
  Variable H : bytes -> bytes.

  (* generate_root_seed_and_lms_tree_identifier *)
  Definition topseed_pre (which : N) (fill : bytes) : bytes :=
    let b0 := repeat x00 (c_topseed_len K) in
    let b1 := blit b0 (c_topseed_d K) [n2b (N.shiftr (c_d_topseed K) 8)] in
    let b2 := blit b1 (c_topseed_d K + 1) [n2b (N.land (c_d_topseed K) 255)] in
    let b3 := blit b2 (c_topseed_seed K) fill in
    blit b3 (c_topseed_which K) [n2b which].

  Definition root_seed_I (seed : bytes) : bytes * bytes :=
    let post := H (topseed_pre 0 seed) in
    let s0 := H (topseed_pre 1 post) in
    let I0 := firstn (c_ilen K) (H (topseed_pre 2 post)) in
    (s0, I0).

  (* SeedDerive::seed_derive: a fixed buffer of prng_len(MAX_HASH_SIZE) bytes, hashed whole *)
  Definition seed_derive (seed I : bytes) (q j : N) : bytes :=
    let b0 := repeat x00 (c_prng_len_base K + c_max_hash_size K) in
    let b1 := blit b0 (c_prng_i K) I in
    let b2 := blit b1 (c_prng_q K) (be 4 q) in
    let b3 := blit b2 (c_prng_j K) (be 2 j) in
    let b4 := blit b3 (c_prng_ff K) [xff] in
    let b5 := blit b4 (c_prng_seed K) seed in
    H b5.

  (* generate_child_seed_and_lms_tree_identifier: j is incremented between the two reads *)
  Definition child_seed_I (pseed pI : bytes) (pq : N) : bytes * bytes :=
    (seed_derive pseed pI pq (c_seed_child_seed K),
     firstn (c_ilen K) (seed_derive pseed pI pq (c_seed_child_seed K + 1))).

  (* generate_signature_randomizer *)
  Definition randomizer (seed I : bytes) (q : N) : bytes :=
    seed_derive seed I q (c_seed_randomizer_seed K).
End Derive.
