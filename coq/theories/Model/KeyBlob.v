(* src/hss/reference_impl_private_key.rs: the hash-sigs compatible private key blob
   counter(8, big endian) || 8 parameter bytes || seed(n). *)
From HbsLms Require Import Base.Bytes Model.Consts Model.Counter.

Local Open Scope N_scope.

Notation param := (otsp * lmsp)%type (only parsing).

Section KeyBlob.
  Variable K : consts.
  Variable n : nat.


  (* build-time limits: level i may use tree heights up to TREE_HEIGHTS[i] and Winternitz
     parameters from WINTERNITZ_PARAMETERS[i] upwards; there are MAX_ALLOWED_HSS_LEVELS levels *)
  Definition within_limits (i : nat) (p : param) : bool :=
    match nth_error (c_tree_heights K) i, nth_error (c_wparams K) i with
    | Some hmax, Some wmin => (N.of_nat (l_h (snd p)) <=? hmax) && (wmin <=? o_w (fst p))
    | _, _ => false
    end.

  Fixpoint all_within_limits (i : nat) (ps : list param) : bool :=
    match ps with
    | [] => true
    | p :: r => within_limits i p && all_within_limits (S i) r
    end.

  (* CompressedParameterSet::from: (lms_type << 4) + lmots_type on u8 *)
  Definition pack_param (p : param) : byte :=
    n2b ((l_type (snd p) mod 256) * 16 + o_type (fst p) mod 256).

  Definition params_to_bytes (ps : list param) : res bytes :=
    if Nat.ltb (c_ref_levels K) (length ps) then Err
    else if negb (all_within_limits 0 ps) then Err
    else Ok (map pack_param ps ++
             repeat (n2b (c_param_set_end K)) (c_ref_levels K - length ps)).

  (* CompressedParameterSet::to *)
  Fixpoint params_decode (i : nat) (bs : bytes) : res (list param) :=
    match bs with
    | [] => Ok []
    | b :: r =>
      if b2n b =? c_param_set_end K then Ok []
      else
        match ots_of_u32 K n (N.land (b2n b) 15), lms_of_u32 K (N.shiftr (b2n b) 4) with
        | Some o, Some l =>
          if within_limits i (o, l)
          then do rest <- params_decode (S i) r; Ok ((o, l) :: rest)
          else Err
        | _, _ => Err
        end
    end.

  Definition params_of_bytes (bs : bytes) : res (list param) :=
    do ps <- params_decode 0 bs;
    match ps with [] => Err | _ => Ok ps end.

  Record rfc_key := { k_counter : N; k_params : bytes; k_seed : bytes }.

  (* ReferenceImplPrivateKey::to_binary_representation *)
  Definition blob_of (k : rfc_key) : bytes :=
    be (c_used_leafs_size K) (k_counter k) ++ k_params k ++ k_seed k.

  (* ReferenceImplPrivateKey::from_binary_representation *)
  Definition blob_parse (b : bytes) : res rfc_key :=
    if negb (Nat.eqb (length b) (c_used_leafs_size K + c_ref_levels K + n)) then Err
    else
      match read (c_used_leafs_size K) b with
      | None => Panic
      | Some (cb, r1) =>
        match read (c_ref_levels K) r1 with
        | None => Panic
        | Some (pb, r2) =>
          match read n r2 with
          | None => Panic
          | Some (sd, _) => Ok {| k_counter := be_dec cb; k_params := pb; k_seed := sd |}
          end
        end
      end.

  (* ReferenceImplPrivateKey::wipe *)
  Definition wiped : rfc_key :=
    {| k_counter := 0;
       k_params := repeat (n2b (c_param_set_end K)) (c_ref_levels K);
       k_seed := repeat x00 n |}.

  Definition heights_of (ps : list param) : list N := map (fun p => N.of_nat (l_h (snd p))) ps.

  (* ReferenceImplPrivateKey::increment *)
  Definition key_increment (k : rfc_key) (ps : list param) : rfc_key :=
    match incr (heights_of ps) (k_counter k) with
    | Some c' => {| k_counter := c'; k_params := k_params k; k_seed := k_seed k |}
    | None => wiped
    end.

  (* ReferenceImplPrivateKey::generate *)
  Definition key_generate (ps : list param) (seed : bytes) : res rfc_key :=
    do pb <- params_to_bytes ps;
    Ok {| k_counter := 0; k_params := pb; k_seed := seed |}.

  (* ---- the three tree-free accessors of the hook module (src/verif_hooks.rs) ---- *)
  Definition hook_leaf_digits (b : bytes) : res (list N) :=
    do k <- blob_parse b;
    do ps <- params_of_bytes (k_params k);
    Ok (leaf_digits (heights_of ps) (k_counter k)).

  Definition hook_increment (b : bytes) : res bytes :=
    do k <- blob_parse b;
    do ps <- params_of_bytes (k_params k);
    Ok (blob_of (key_increment k ps)).

  Definition hook_lifetime (b : bytes) : res N :=
    do k <- blob_parse b;
    do ps <- params_of_bytes (k_params k);
    lifetime (heights_of ps) (k_counter k).
End KeyBlob.
