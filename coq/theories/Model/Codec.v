(* The in-memory parsers: src/lm_ots/signing.rs (InMemoryLmotsSignature::new),
   src/lms/signing.rs (InMemoryLmsSignature::new), src/lms/definitions.rs (InMemoryLmsPublicKey::new),
   src/hss/signing.rs (InMemoryHssSignature::new, InMemoryHssSignedPublicKey::new),
   src/hss/definitions.rs (InMemoryHssPublicKey::new).
   Every read is a checked cursor read: running out of input, an unknown type code, too many levels
   or left-over bytes make the parser return None (= [Err]). *)
From HbsLms Require Import Base.Bytes Model.Consts.

Local Open Scope N_scope.

Record lms_sig := {
  s_q : N;
  s_ots : otsp;
  s_C : bytes;
  s_y : list bytes;
  s_lms : lmsp;
  s_path : list bytes;
}.

Record lms_pk := {
  p_lms : lmsp;
  p_ots : otsp;
  p_I : bytes;
  p_key : bytes;
  p_raw : bytes;       (* complete_data: the serialised key, as signed by the parent *)
}.

Record hss_sig := {
  h_nspk : N;
  h_spks : list (lms_sig * lms_pk);
  h_sig : lms_sig;
}.

Section Codec.
  Variable K : consts.
  Variable n : nat.

  Definition rd (k : nat) (l : bytes) : res (bytes * bytes) := of_option (read k l).

  (* InMemoryLmsSignature::new (with InMemoryLmotsSignature::new inlined) *)
  Definition parse_lms_sig (data : bytes) : res (lms_sig * bytes) :=
    do (qb, r1) <- rd 4 data;
    do (tb, _) <- rd 4 r1;
    do prm <- of_option (ots_of_type K n (be_dec tb));
    do (otsb, r2) <- rd (4 + n * (1 + o_p prm)) r1;
    (* InMemoryLmotsSignature::new on exactly that slice *)
    do (tb', o1) <- rd 4 otsb;
    do prm' <- of_option (ots_of_type K n (be_dec tb'));
    do (C, o2) <- rd n o1;
    do (yb, _) <- rd (n * o_p prm') o2;
    do (lb, r3) <- rd 4 r2;
    do lp <- of_option (lms_of_type K (be_dec lb));
    do (pb, r4) <- rd (n * l_h lp) r3;
    if 2 ^ N.of_nat (l_h lp) <=? be_dec qb then Err
    else Ok ({| s_q := be_dec qb; s_ots := prm'; s_C := C; s_y := chunks n (o_p prm') yb;
                s_lms := lp; s_path := chunks n (l_h lp) pb |}, r4).

  (* InMemoryLmsPublicKey::new *)
  Definition parse_lms_pk (data : bytes) : res (lms_pk * bytes) :=
    do (lb, r1) <- rd 4 data;
    do lp <- of_option (lms_of_type K (be_dec lb));
    do (tb, r2) <- rd 4 r1;
    do prm <- of_option (ots_of_type K n (be_dec tb));
    do (tid, r3) <- rd (c_ilen K) r2;
    do (key, r4) <- rd n r3;
    Ok ({| p_lms := lp; p_ots := prm; p_I := tid; p_key := key;
           p_raw := firstn (4 + 4 + c_ilen K + n) data |}, r4).

  (* InMemoryHssSignedPublicKey::new, [k] times *)
  Fixpoint parse_spks (k : nat) (data : bytes) : res (list (lms_sig * lms_pk) * bytes) :=
    match k with
    | O => Ok ([], data)
    | S k' =>
      do (s, r1) <- parse_lms_sig data;
      do (p, r2) <- parse_lms_pk r1;
      do (rest, r3) <- parse_spks k' r2;
      Ok ((s, p) :: rest, r3)
    end.

  (* InMemoryHssSignature::new *)
  Definition parse_hss_sig (data : bytes) : res hss_sig :=
    do (nb, r1) <- rd 4 data;
    let nspk := be_dec nb in
    if N.of_nat (c_max_levels K) <=? nspk then Err
    else
      do (spks, r2) <- parse_spks (N.to_nat nspk) r1;
      do (s, r3) <- parse_lms_sig r2;
      match r3 with
      | [] => Ok {| h_nspk := nspk; h_spks := spks; h_sig := s |}
      | _ => Err
      end.

  (* InMemoryHssPublicKey::new *)
  Definition parse_hss_pk (data : bytes) : res (N * lms_pk) :=
    do (lb, r1) <- rd 4 data;
    do (p, r2) <- parse_lms_pk r1;
    match r2 with
    | [] => Ok (be_dec lb, p)
    | _ => Err
    end.
End Codec.
