(* The constants and tables of the implementation, as a parameter of the model.
   [Gen/Generated.v] (written by the translator from /repo's current source on
   every run) defines the instance [K_src]. *)
From HbsLms Require Import Base.Bytes.

(* enum variants are identified by their discriminant *)
Record consts := {
  (* src/constants.rs *)
  c_ilen : nat;
  c_max_seed_len : nat;
  c_max_hash_size : nat;
  c_max_hash_block_size : nat;
  c_d_pblc : bytes;
  c_d_mesg : bytes;
  c_d_leaf : bytes;
  c_d_intr : bytes;
  c_topseed_seed : nat;
  c_topseed_len : nat;
  c_topseed_d : nat;
  c_topseed_which : nat;
  c_d_topseed : N;
  c_prng_i : nat;
  c_prng_q : nat;
  c_prng_j : nat;
  c_prng_ff : nat;
  c_prng_seed : nat;
  c_prng_len_base : nat;            (* prng_len(seed_len) = base + seed_len *)
  c_seed_child_seed : N;
  c_seed_randomizer_seed : N;
  c_used_leafs_size : nat;          (* HSS_COMPRESSED_USED_LEAFS_SIZE *)
  c_ref_levels : nat;               (* REF_IMPL_MAX_ALLOWED_HSS_LEVELS *)
  c_chain_counts : list N;          (* HASH_CHAIN_COUNTS *)
  c_chain_w_index : list (N * N);   (* winternitz_parameter -> w_i *)
  c_chain_n_index : list (N * N);   (* output_size -> o_i *)
  c_chain_stride : N;               (* HASH_CHAIN_COUNTS[w_i * stride + o_i] *)
  c_min_subtree : nat;
  c_daux_d : nat;
  c_daux_prefix_len : nat;
  c_d_daux : N;
  c_iter_i : nat;
  c_iter_q : nat;
  c_iter_k : nat;
  c_iter_j : nat;
  c_iter_prev : nat;
  (* src/lm_ots/parameters.rs *)
  c_ots_from_u32 : list (N * N);        (* impl From<u32>: code -> variant *)
  c_ots_get_from_type : list (N * N);   (* get_from_type: code -> variant *)
  c_ots_construct : list (N * (N * N * N)); (* variant -> (type_id, winternitz, checksum_left_shift) *)
  (* src/lms/parameters.rs *)
  c_lms_from_u32 : list (N * N);
  c_lms_get_from_type : list (N * N);
  c_lms_construct : list (N * (N * N)); (* variant -> (type_id, tree_height) *)
  (* src/hss/reference_impl_private_key.rs *)
  c_param_set_end : N;
  (* src/hss/aux.rs *)
  c_aux_data_marker : nat;
  c_no_aux_data : N;
  c_aux_data_hashes : nat;
  c_ipad : N;
  c_opad : N;
  (* build.rs + environment of the build under test *)
  c_max_levels : nat;               (* MAX_ALLOWED_HSS_LEVELS *)
  c_tree_heights : list N;          (* TREE_HEIGHTS *)
  c_wparams : list N;               (* WINTERNITZ_PARAMETERS *)
}.

Fixpoint assoc {A} (k : N) (l : list (N * A)) : option A :=
  match l with
  | [] => None
  | (k', v) :: l' => if N.eqb k k' then Some v else assoc k l'
  end.

Lemma assoc_In {A} k (l : list (N * A)) v : assoc k l = Some v -> In (k, v) l.
Proof.
  induction l as [|[k' v'] l IH]; cbn; [discriminate|].
  destruct (N.eqb_spec k k') as [->|_].
  - intros [= ->]. now left.
  - intros E. right. now apply IH.
Qed.

(* LM-OTS parameter set as the code's [LmotsParameter<H>] *)
Record otsp := { o_type : N; o_w : N; o_p : nat; o_ls : N }.
(* LMS parameter set as the code's [LmsParameter<H>] *)
Record lmsp := { l_type : N; l_h : nat }.

Definition otsp_eqb (a b : otsp) : bool :=
  N.eqb (o_type a) (o_type b) && N.eqb (o_w a) (o_w b) && Nat.eqb (o_p a) (o_p b)
  && N.eqb (o_ls a) (o_ls b).
Definition lmsp_eqb (a b : lmsp) : bool :=
  N.eqb (l_type a) (l_type b) && Nat.eqb (l_h a) (l_h b).

Lemma otsp_eqb_eq a b : otsp_eqb a b = true <-> a = b.
Proof.
  destruct a, b; unfold otsp_eqb; cbn. rewrite !andb_true_iff, !N.eqb_eq, Nat.eqb_eq.
  split; [intros [[[-> ->] ->] ->]; reflexivity | intros [= -> -> -> ->]; auto].
Qed.
Lemma lmsp_eqb_eq a b : lmsp_eqb a b = true <-> a = b.
Proof.
  destruct a, b; unfold lmsp_eqb; cbn. rewrite !andb_true_iff, !N.eqb_eq, Nat.eqb_eq.
  split; [intros [-> ->]; reflexivity | intros [= -> ->]; auto].
Qed.

Section Tables.
  Variable K : consts.
  Variable n : nat.   (* H::OUTPUT_SIZE *)

  (* constants.rs: get_num_winternitz_chains; [None] = the const fn's panic arm *)
  Definition num_chains (w : N) : option N :=
    match assoc w (c_chain_w_index K), assoc (N.of_nat n) (c_chain_n_index K) with
    | Some wi, Some oi => nth_error (c_chain_counts K) (N.to_nat (wi * c_chain_stride K + oi))
    | _, _ => None
    end.

  (* LmotsAlgorithm::construct_parameter on a variant *)
  Definition ots_construct (variant : N) : option otsp :=
    match assoc variant (c_ots_construct K) with
    | Some (ty, w, ls) =>
      match num_chains w with
      | Some p => Some {| o_type := ty; o_w := w; o_p := N.to_nat (p mod 65536); o_ls := ls |}
      | None => None
      end
    | None => None
    end.

  (* LmotsAlgorithm::get_from_type *)
  Definition ots_of_type (code : N) : option otsp :=
    match assoc code (c_ots_get_from_type K) with
    | Some v => ots_construct v
    | None => None
    end.

  (* LmotsAlgorithm::from(u32).construct_parameter() *)
  Definition ots_of_u32 (code : N) : option otsp :=
    match assoc code (c_ots_from_u32 K) with
    | Some v => ots_construct v
    | None => None
    end.

  Definition lms_construct (variant : N) : option lmsp :=
    match assoc variant (c_lms_construct K) with
    | Some (ty, h) => Some {| l_type := ty; l_h := N.to_nat h |}
    | None => None
    end.

  Definition lms_of_type (code : N) : option lmsp :=
    match assoc code (c_lms_get_from_type K) with
    | Some v => lms_construct v
    | None => None
    end.

  Definition lms_of_u32 (code : N) : option lmsp :=
    match assoc code (c_lms_from_u32 K) with
    | Some v => lms_construct v
    | None => None
    end.
End Tables.

(* the same constants and tables under another build configuration
   (HBS_LMS_MAX_ALLOWED_HSS_LEVELS / HBS_LMS_TREE_HEIGHTS / HBS_LMS_WINTERNITZ_PARAMETERS) *)
Definition with_cfg (K : consts) (levels : nat) (heights ws : list N) : consts :=
  {| c_ilen := c_ilen K; c_max_seed_len := c_max_seed_len K; c_max_hash_size := c_max_hash_size K;
     c_max_hash_block_size := c_max_hash_block_size K;
     c_d_pblc := c_d_pblc K; c_d_mesg := c_d_mesg K; c_d_leaf := c_d_leaf K; c_d_intr := c_d_intr K;
     c_topseed_seed := c_topseed_seed K; c_topseed_len := c_topseed_len K; c_topseed_d := c_topseed_d K;
     c_topseed_which := c_topseed_which K; c_d_topseed := c_d_topseed K;
     c_prng_i := c_prng_i K; c_prng_q := c_prng_q K; c_prng_j := c_prng_j K; c_prng_ff := c_prng_ff K;
     c_prng_seed := c_prng_seed K; c_prng_len_base := c_prng_len_base K;
     c_seed_child_seed := c_seed_child_seed K; c_seed_randomizer_seed := c_seed_randomizer_seed K;
     c_used_leafs_size := c_used_leafs_size K; c_ref_levels := c_ref_levels K;
     c_chain_counts := c_chain_counts K; c_chain_w_index := c_chain_w_index K;
     c_chain_n_index := c_chain_n_index K; c_chain_stride := c_chain_stride K;
     c_min_subtree := c_min_subtree K; c_daux_d := c_daux_d K; c_daux_prefix_len := c_daux_prefix_len K;
     c_d_daux := c_d_daux K;
     c_iter_i := c_iter_i K; c_iter_q := c_iter_q K; c_iter_k := c_iter_k K; c_iter_j := c_iter_j K;
     c_iter_prev := c_iter_prev K;
     c_ots_from_u32 := c_ots_from_u32 K; c_ots_get_from_type := c_ots_get_from_type K;
     c_ots_construct := c_ots_construct K;
     c_lms_from_u32 := c_lms_from_u32 K; c_lms_get_from_type := c_lms_get_from_type K;
     c_lms_construct := c_lms_construct K;
     c_param_set_end := c_param_set_end K;
     c_aux_data_marker := c_aux_data_marker K; c_no_aux_data := c_no_aux_data K;
     c_aux_data_hashes := c_aux_data_hashes K; c_ipad := c_ipad K; c_opad := c_opad K;
     c_max_levels := levels; c_tree_heights := heights; c_wparams := ws |}.
