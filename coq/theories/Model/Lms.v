(* src/lms/helper.rs (get_tree_element without aux data), src/lms/signing.rs, src/lms/verify.rs,
   src/lms/definitions.rs *)
From HbsLms Require Import Base.Bytes Model.Consts Model.Winternitz Model.Lmots.

Local Open Scope N_scope.

Section Lms.
  Variable K : consts.
  Variable n : nat.
  Variable H : bytes -> bytes.

  Definition leaf_hash (I : bytes) (r : N) (Kq : bytes) : bytes :=
    H (I ++ be 4 r ++ c_d_leaf K ++ Kq).
  Definition intr_hash (I : bytes) (r : N) (l rt : bytes) : bytes :=
    H (I ++ be 4 r ++ c_d_intr K ++ l ++ rt).

  (* get_tree_element(index = r) for a node that has [d] levels below it; a tree of height h
     has root [tree h .. h 1] and leaves r = 2^h + q at d = 0 *)
  Fixpoint tree (h : nat) (I seed : bytes) (prm : otsp) (d : nat) (r : N) : bytes :=
    match d with
    | O => leaf_hash I r (ots_pub K n H I (r - 2 ^ N.of_nat h) seed prm)
    | S d' => intr_hash I r (tree h I seed prm d' (2 * r)) (tree h I seed prm d' (2 * r + 1))
    end.

  Definition lms_root (I seed : bytes) (prm : otsp) (lp : lmsp) : bytes :=
    tree (l_h lp) I seed prm (l_h lp) 1.

  (* LmsPublicKey::to_binary_representation *)
  Definition lms_pk_bytes (prm : otsp) (lp : lmsp) (I root : bytes) : bytes :=
    be 4 (l_type lp) ++ be 4 (o_type prm) ++ I ++ root.

  (* build_authentication_path: sibling of the ancestor at each level, leaf level first *)
  Definition auth_path (I seed : bytes) (prm : otsp) (lp : lmsp) (q : N) : list bytes :=
    map (fun i => tree (l_h lp) I seed prm i
                       (N.lxor ((2 ^ N.of_nat (l_h lp) + q) / 2 ^ N.of_nat i) 1))
        (seq 0 (l_h lp)).

  (* LmsSignature::sign + to_binary_representation:
     u32(q) || LM-OTS signature || u32(lms type) || path *)
  Definition lms_sign_bytes (I seed : bytes) (prm : otsp) (lp : lmsp) (q : N) (C msg : bytes) : bytes :=
    be 4 q ++ ots_sig_bytes prm C (ots_sign_ys K n H I q seed prm C msg)
       ++ be 4 (l_type lp) ++ concat (auth_path I seed prm lp q).

  (* lms::verify::generate_public_key_candidate: climb from the leaf to the root *)
  Fixpoint climb (I : bytes) (node : N) (tmp : bytes) (path : list bytes) : bytes :=
    match path with
    | [] => tmp
    | s :: rest =>
      let parent := node / 2 in
      let tmp' := if N.odd node then intr_hash I parent s tmp else intr_hash I parent tmp s in
      climb I parent tmp' rest
    end.

  Definition lms_candidate (I : bytes) (prm : otsp) (lp : lmsp) (q : N) (C : bytes) (ys : list bytes)
             (path : list bytes) (msg : bytes) : bytes :=
    let Kc := ots_candidate K n H I q prm C ys msg in
    let node := 2 ^ N.of_nat (l_h lp) + q in
    climb I node (leaf_hash I node Kc) path.
End Lms.
