(* The layout of every hash preimage that the code assembles with [.chain(..)] / [.update(..)]
   calls, as the MODEL writes it: per Rust function, the ordered arguments that are fed to the
   hasher.  The translator extracts the same table from /repo's current source on every run
   ([Gen.Generated.src_hash_inputs]); Properties/C07.v and C08.v require the two to be equal, so
   an inserted, removed, reordered or replaced hash input in any of these functions breaks a
   proof obligation, not only the correspondence.

   An entry is (file, ordered arguments of one function); entries are sorted, function names are
   not part of the key (renaming or reordering functions inside a file is not a change).
   Notation of an argument: constants and field names literally; local names (parameters,
   let-bound variables) as $1, $2, .. in the order of their first occurrence in the hashed
   sequence, i.e. the layout is kept up to a consistent renaming of the locals: insertions,
   removals, constants, field names and the pattern of repetitions are part of it, WHICH local is
   which is decided by execution (byte-exact correspondence, RFC judge); "&", ".as_slice()",
   "[..]" dropped.

   (Preimages assembled with copy_from_slice at constant offsets -- the iteration buffer of the
   hash chains, the top-seed and child-seed blocks -- are tied through the offsets in [consts].) *)
From Coq Require Import List.
Require Import Coq.Strings.String.
Import ListNotations.
Local Open Scope string_scope.
Local Open Scope list_scope.

Definition model_hash_inputs : list (string * list string) :=
  [
  (* do_actual_hash_chain -- Lmots.chain: H (chain_buf ..), the whole iteration buffer, once per step *)
  ("hasher/mod.rs", ["$1.data"]);
  (* the two hasher wrappers forward their input unchanged *)
  ("hasher/sha256.rs", ["$1"]);
  ("hasher/shake256.rs", ["$1"]);
  (* compute_hmac -- Aux.hmac: inner hash continues with the data *)
  ("hss/aux.rs", ["$1"]);
  (* compute_seed_derive -- Aux.aux_key: H (prefix ++ seed) *)
  ("hss/aux.rs", ["$1"; "$2"]);
  (* compute_hmac_ipad / _opad -- Aux.hmac / xor_pad:
     H (key xor ipad ++ ipad tail ++ data), H (key xor opad ++ opad tail ++ inner) *)
  ("hss/aux.rs", ["$1"; "IPAD_ARRAY[H::OUTPUT_SIZE.into()..H::BLOCK_SIZE.into()]"]);
  ("hss/aux.rs", ["$1"; "OPAD_ARRAY[H::OUTPUT_SIZE.into()..H::BLOCK_SIZE.into()]"; "$2"]);
  (* hss_finalize_aux_data -- Aux.finalize_aux: hmac key (be 4 level ++ concat layers) *)
  ("hss/aux.rs", ["$1.level.to_be_bytes()"; "$2"]);
  (* generate_root_seed_and_lms_tree_identifier -- Derive.root_seed_I: three hashes of the top-seed block *)
  ("hss/reference_impl_private_key.rs", ["$1"; "$1"; "$1"]);
  (* SeedDerive::seed_derive -- Derive.seed_derive: H (block) *)
  ("hss/seed_derive.rs", ["$1"]);
  (* generate_private_key -- Lmots.ots_priv: H (I ++ q ++ u16 i ++ 0xff ++ seed) *)
  ("lm_ots/keygen.rs", ["$1"; "$2"; "$3.to_be_bytes()"; "[0xff]"; "$4"]);
  (* generate_public_key -- Lmots.ots_pub_of: H (I ++ q ++ D_PBLC ++ y_0 .. y_{p-1}) *)
  ("lm_ots/keygen.rs", ["$1.lms_tree_identifier"; "$1.lms_leaf_identifier"; "D_PBLC"; "$2"]);
  (* calculate_message_hash -- Lmots.ots_msg_hash: H (I ++ q ++ D_MESG ++ C ++ message) *)
  ("lm_ots/signing.rs", ["$1.lms_tree_identifier"; "$1.lms_leaf_identifier"; "D_MESG"; "$2"; "$3"]);
  (* generate_public_key_candidate -- Lmots.ots_candidate: the same message hash, then
     H (I ++ q ++ D_PBLC ++ z_0 .. z_{p-1}); the same I and q in both *)
  ("lm_ots/verify.rs", ["$1"; "$2"; "D_MESG"; "$3.signature_randomizer"; "$4"; "$1"; "$2"; "D_PBLC"; "$5"]);
  (* get_tree_element -- Lms.leaf_hash, Lms.intr_hash *)
  ("lms/helper.rs", ["$1.lms_tree_identifier"; "($2 as u32).to_be_bytes()"; "D_LEAF"; "$3.key"; "D_INTR"; "$4"; "$5"]);
  (* generate_public_key_candidate -- Lms.lms_candidate / climb: leaf hash of the candidate, then
     interior hashes of (left, right); the same I and node number in both *)
  ("lms/verify.rs", ["$1.lms_tree_identifier"; "$2.to_be_bytes()"; "D_LEAF"; "$3";
                     "$1.lms_tree_identifier"; "$2.to_be_bytes()"; "D_INTR"; "$4[0]"; "$4[1]"])
  ].

Fixpoint strs_eqb (a b : list string) : bool :=
  match a, b with
  | [], [] => true
  | x :: a', y :: b' => String.eqb x y && strs_eqb a' b'
  | _, _ => false
  end.

Fixpoint layouts_eqb (a b : list (string * list string)) : bool :=
  match a, b with
  | [], [] => true
  | (n1, l1) :: a', (n2, l2) :: b' => String.eqb n1 n2 && strs_eqb l1 l2 && layouts_eqb a' b'
  | _, _ => false
  end.

Lemma strs_eqb_eq a b : strs_eqb a b = true -> a = b.
Proof.
  revert b; induction a as [|x a IH]; intros [|y b]; cbn; try discriminate; [reflexivity|].
  intros E. apply andb_prop in E. destruct E as [E1 E2]. apply String.eqb_eq in E1. subst.
  now rewrite (IH b E2).
Qed.

Lemma layouts_eqb_eq a b : layouts_eqb a b = true -> a = b.
Proof.
  revert b; induction a as [|[n1 l1] a IH]; intros [|[n2 l2] b]; cbn; try discriminate; [reflexivity|].
  intros E. apply andb_prop in E. destruct E as [E E3]. apply andb_prop in E. destruct E as [E1 E2].
  apply String.eqb_eq in E1. apply strs_eqb_eq in E2. subst. now rewrite (IH b E3).
Qed.
