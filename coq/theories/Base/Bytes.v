(* Bytes, big-endian integers, checked slicing, the [res] outcome type. *)
From Coq Require Export List NArith ZArith Lia Bool.
From Coq Require Export Init.Byte Strings.Byte.
From Coq Require Strings.String Strings.Ascii.
Export Coq.Strings.String.StringSyntax.
Delimit Scope string_scope with string.
Export ListNotations.
From Coq Require Export ZifyBool ZifyNat ZifyN.
Ltac Zify.zify_post_hook ::= Z.div_mod_to_equations.

Global Arguments N.add : simpl never.
Global Arguments N.sub : simpl never.
Global Arguments N.mul : simpl never.
Global Arguments N.div : simpl never.
Global Arguments N.modulo : simpl never.
Global Arguments N.pow : simpl never.
Global Arguments N.eqb : simpl never.
Global Arguments N.ltb : simpl never.
Global Arguments N.leb : simpl never.
Global Arguments N.shiftl : simpl never.
Global Arguments N.shiftr : simpl never.
Global Arguments N.land : simpl never.
Global Arguments N.lor : simpl never.
Global Arguments N.lxor : simpl never.

Notation bytes := (list byte) (only parsing).

(* ------------------------------------------------------------------ *)
(* Outcome of a piece of Rust code: value, error return, or unwinding. *)

Inductive res (A : Type) : Type :=
| Ok (a : A)
| Err
| Panic.
Arguments Ok {A} a.
Arguments Err {A}.
Arguments Panic {A}.

Definition bind {A B} (r : res A) (f : A -> res B) : res B :=
  match r with
  | Ok a => f a
  | Err => Err
  | Panic => Panic
  end.

Notation "'do' x <- r ; k" := (bind r (fun x => k))
  (at level 200, x pattern, r at level 100, k at level 200, right associativity).

Definition of_option {A} (o : option A) : res A :=
  match o with Some a => Ok a | None => Err end.

Definition of_option_panic {A} (o : option A) : res A :=
  match o with Some a => Ok a | None => Panic end.

Definition is_ok {A} (r : res A) : bool :=
  match r with Ok _ => true | _ => false end.

(* ------------------------------------------------------------------ *)
(* byte <-> N *)

Definition b2n (b : byte) : N := Byte.to_N b.

Definition n2b (x : N) : byte :=
  match Byte.of_N (x mod 256) with
  | Some b => b
  | None => x00
  end.

Lemma b2n_lt b : (b2n b < 256)%N.
Proof. unfold b2n. pose proof (Byte.to_N_bounded b). lia. Qed.

Lemma n2b_b2n b : n2b (b2n b) = b.
Proof.
  unfold n2b, b2n. rewrite N.mod_small by (pose proof (Byte.to_N_bounded b); lia).
  now rewrite Byte.of_to_N.
Qed.

Lemma b2n_n2b x : b2n (n2b x) = (x mod 256)%N.
Proof.
  unfold n2b, b2n.
  destruct (Byte.of_N (x mod 256)) as [b|] eqn:E.
  - now apply Byte.to_of_N.
  - apply Byte.of_N_None_iff in E.
    pose proof (N.mod_upper_bound x 256). lia.
Qed.

Lemma b2n_inj a b : b2n a = b2n b -> a = b.
Proof. intros E. rewrite <- (n2b_b2n a), <- (n2b_b2n b). now rewrite E. Qed.

Definition byte_eqb : byte -> byte -> bool := Byte.eqb.

Fixpoint bytes_eqb (a b : bytes) : bool :=
  match a, b with
  | [], [] => true
  | x :: a', y :: b' => Byte.eqb x y && bytes_eqb a' b'
  | _, _ => false
  end.

Lemma bytes_eqb_eq a b : bytes_eqb a b = true <-> a = b.
Proof.
  revert b; induction a as [|x a IH]; intros [|y b]; cbn; try (split; congruence).
  rewrite andb_true_iff, IH. split.
  - intros [E ->]. apply Byte.byte_dec_bl in E. now subst.
  - intros E. injection E as -> ->. split; [apply Byte.byte_dec_lb|]; reflexivity.
Qed.

Lemma bytes_eqb_refl a : bytes_eqb a a = true.
Proof. now apply bytes_eqb_eq. Qed.

(* ------------------------------------------------------------------ *)
(* big-endian fixed-width integers *)

(* [be k x] : the k low-order bytes of x, most significant first. *)
Fixpoint be (k : nat) (x : N) : bytes :=
  match k with
  | O => []
  | S k' => be k' (x / 256) ++ [n2b x]
  end.

Fixpoint be_dec_acc (acc : N) (l : bytes) : N :=
  match l with
  | [] => acc
  | b :: l' => be_dec_acc (acc * 256 + b2n b) l'
  end.

Definition be_dec (l : bytes) : N := be_dec_acc 0 l.

Lemma be_length k x : length (be k x) = k.
Proof. revert x; induction k as [|k IH]; intros x; cbn [be]; [reflexivity|].
  rewrite app_length, IH; cbn; lia. Qed.

Lemma be_dec_acc_app acc a b :
  be_dec_acc acc (a ++ b) = be_dec_acc (be_dec_acc acc a) b.
Proof. revert acc; induction a as [|x a IH]; intros acc; cbn; [reflexivity|apply IH]. Qed.

Lemma be_dec_acc_spec acc l :
  be_dec_acc acc l = (acc * 256 ^ N.of_nat (length l) + be_dec l)%N.
Proof.
  unfold be_dec. revert acc; induction l as [|b l IH]; intros acc.
  - cbn. change (256 ^ 0)%N with 1%N. lia.
  - cbn [be_dec_acc length]. rewrite IH. rewrite (IH (0 * 256 + b2n b)%N).
    rewrite Nat2N.inj_succ, N.pow_succ_r'. ring.
Qed.

Lemma be_dec_be k x : be_dec (be k x) = (x mod 256 ^ N.of_nat k)%N.
Proof.
  revert x; induction k as [|k IH]; intros x.
  - cbn. change (256 ^ 0)%N with 1%N. now rewrite N.mod_1_r.
  - cbn [be]. unfold be_dec. rewrite be_dec_acc_app. fold (be_dec (be k (x / 256))).
    rewrite IH. cbn [be_dec_acc]. rewrite b2n_n2b.
    rewrite Nat2N.inj_succ, N.pow_succ_r'.
    rewrite N.mod_mul_r by (try apply N.pow_nonzero; lia).
    lia.
Qed.

Lemma be_dec_lt l : (be_dec l < 256 ^ N.of_nat (length l))%N.
Proof.
  induction l as [|b l IH] using rev_ind.
  - cbn. change (256 ^ 0)%N with 1%N. unfold be_dec; cbn; lia.
  - unfold be_dec. rewrite be_dec_acc_app. fold (be_dec l). cbn [be_dec_acc].
    rewrite app_length. cbn [length]. rewrite Nat.add_1_r, Nat2N.inj_succ, N.pow_succ_r'.
    pose proof (b2n_lt b). lia.
Qed.

Lemma be_be_dec l : be (length l) (be_dec l) = l.
Proof.
  induction l as [|b l IH] using rev_ind; [reflexivity|].
  rewrite app_length. cbn [length]. rewrite Nat.add_1_r. cbn [be].
  unfold be_dec. rewrite be_dec_acc_app. fold (be_dec l). cbn [be_dec_acc].
  pose proof (b2n_lt b) as Hb.
  replace ((be_dec l * 256 + b2n b) / 256)%N with (be_dec l) by lia.
  rewrite IH. f_equal. f_equal.
  rewrite <- (n2b_b2n b) at 2. unfold n2b.
  replace ((be_dec l * 256 + b2n b) mod 256)%N with (b2n b mod 256)%N by lia. reflexivity.
Qed.

Lemma be_inj k x y :
  (x < 256 ^ N.of_nat k)%N -> (y < 256 ^ N.of_nat k)%N -> be k x = be k y -> x = y.
Proof.
  intros Hx Hy E. apply (f_equal be_dec) in E. rewrite !be_dec_be in E.
  now rewrite !N.mod_small in E by assumption.
Qed.

(* ------------------------------------------------------------------ *)
(* slicing *)

Definition take {A} (n : nat) (l : list A) := firstn n l.
Definition drop {A} (n : nat) (l : list A) := skipn n l.

(* checked cursor read: the first [k] bytes and the rest, or [None]. *)
Definition read (k : nat) (l : bytes) : option (bytes * bytes) :=
  if Nat.leb k (length l) then Some (firstn k l, skipn k l) else None.

Lemma read_app k a b : length a = k -> read k (a ++ b) = Some (a, b).
Proof.
  intros <-. unfold read. rewrite app_length.
  replace (Nat.leb (length a) (length a + length b)) with true
    by (symmetry; apply Nat.leb_le; lia).
  rewrite firstn_app, Nat.sub_diag, firstn_all. cbn. rewrite app_nil_r.
  rewrite skipn_app, Nat.sub_diag, skipn_all. reflexivity.
Qed.

Lemma read_Some k l a b : read k l = Some (a, b) -> l = a ++ b /\ length a = k.
Proof.
  unfold read. destruct (Nat.leb k (length l)) eqn:E; [|discriminate].
  intros [= <- <-]. apply Nat.leb_le in E. split.
  - symmetry; apply firstn_skipn.
  - apply firstn_length_le; assumption.
Qed.

Lemma read_None k l : read k l = None <-> length l < k.
Proof.
  unfold read. destruct (Nat.leb k (length l)) eqn:E.
  - apply Nat.leb_le in E. split; [discriminate|lia].
  - apply Nat.leb_gt in E. split; [intros _; exact E|reflexivity].
Qed.

(* [chunks n k l]: the first k chunks of n bytes each (used on exactly-sized input). *)
Fixpoint chunks (n k : nat) (l : bytes) : list bytes :=
  match k with
  | O => []
  | S k' => firstn n l :: chunks n k' (skipn n l)
  end.

Lemma chunks_length n k l : length (chunks n k l) = k.
Proof. revert l; induction k as [|k IH]; intros l; cbn; [reflexivity|now rewrite IH]. Qed.

Lemma chunks_concat n k (xs : list bytes) rest :
  length xs = k -> Forall (fun x => length x = n) xs ->
  chunks n k (concat xs ++ rest) = xs.
Proof.
  revert xs; induction k as [|k IH]; intros [|x xs] Hl Hf; cbn in Hl; try discriminate;
    [reflexivity|].
  inversion Hf as [|? ? Hx Hxs]; subst. cbn [concat chunks].
  rewrite <- app_assoc.
  rewrite firstn_app, Nat.sub_diag, firstn_all. cbn [firstn]. rewrite app_nil_r.
  rewrite skipn_app, Nat.sub_diag, skipn_all. cbn [skipn app].
  f_equal. apply IH; [lia|assumption].
Qed.

Lemma concat_length_const n (xs : list bytes) :
  Forall (fun x => length x = n) xs -> length (concat xs) = length xs * n.
Proof.
  induction 1 as [|x xs Hx _ IH]; cbn; [reflexivity|].
  rewrite app_length, IH, Hx. lia.
Qed.

(* ------------------------------------------------------------------ *)
(* hex rendering, for the correspondence cases *)

Definition hexval (a : Ascii.ascii) : N :=
  let n := Ascii.N_of_ascii a in
  if (48 <=? n)%N && (n <=? 57)%N then n - 48
  else if (97 <=? n)%N && (n <=? 102)%N then n - 87
  else if (65 <=? n)%N && (n <=? 70)%N then n - 55
  else 0.

Fixpoint unhex (s : String.string) : bytes :=
  match s with
  | String.String a (String.String b s') => n2b (hexval a * 16 + hexval b) :: unhex s'
  | _ => []
  end.

Arguments unhex s%string.

Definition hexdigit (n : N) : Ascii.ascii :=
  Ascii.ascii_of_N (if (n <? 10)%N then n + 48 else n + 87).

Fixpoint hex (l : bytes) : String.string :=
  match l with
  | [] => String.EmptyString
  | b :: l' => String.String (hexdigit (b2n b / 16)) (String.String (hexdigit (b2n b mod 16)) (hex l'))
  end.

Definition xor_byte (a b : byte) : byte := n2b (N.lxor (b2n a) (b2n b)).

Definition is_zero_byte (b : byte) : bool := Byte.eqb b x00.
Definition all_zero (l : bytes) : bool := forallb is_zero_byte l.
