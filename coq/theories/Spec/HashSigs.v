(* The key derivation of the cisco hash-sigs reference implementation (hss_generate_root_seed_I_value,
   hss_generate_child_seed_I_value, hss_seed_derive, the signature randomizer), written down from the
   reference's construction -- fixed 55-byte blocks, domain separator 0xfefe for the top seed, index
   0xfffe / 0xffff for child seed / child I, 0xfffd for the randomizer -- NOT from the Rust code.
   For hashes with n < 32 the same blocks are used with an n-byte seed field followed by zeros
   ("the same construction with the hash and output length substituted").
   The reference binary is not available offline, so this file is part of the trusted base. *)
From HbsLms Require Import Base.Bytes Spec.Rfc8554.

Local Open Scope N_scope.

Section HashSigs.
  Variable H : bytes -> bytes.

  (* hss_generate_root_seed_I_value: block = 0^20 || 0xfe 0xfe || which || seed, padded to 55 bytes *)
  Definition hs_topseed (which : N) (fill : bytes) : bytes :=
    repeat x00 20 ++ u16str 0xfefe ++ u8str which ++ fill ++ repeat x00 (32 - length fill).

  Definition hs_root (seed : bytes) : bytes * bytes :=
    let post := H (hs_topseed 0 seed) in
    (H (hs_topseed 1 post), firstn 16 (H (hs_topseed 2 post))).

  (* hss_seed_derive: block = I || u32(q) || u16(j) || 0xff || seed, padded to 55 bytes *)
  Definition hs_derive (seed I : bytes) (q j : N) : bytes :=
    H (I ++ u32str q ++ u16str j ++ [xff] ++ seed ++ repeat x00 (32 - length seed)).

  (* hss_generate_child_seed_I_value: j = SEED_CHILD_SEED = ~1 for the seed, then j+1 for I *)
  Definition hs_child (pseed pI : bytes) (pq : N) : bytes * bytes :=
    (hs_derive pseed pI pq 0xfffe, firstn 16 (hs_derive pseed pI pq 0xffff)).

  (* the per-signature randomizer C: j = SEED_SIGNATURE_RANDOMIZER_SEED = ~2 *)
  Definition hs_randomizer (seed I : bytes) (q : N) : bytes := hs_derive seed I q 0xfffd.
End HashSigs.
