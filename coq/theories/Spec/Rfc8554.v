(* RFC 8554, transcribed from the RFC text (sections 3.1.3, 4, 5, 6 and Appendix A), NOT from the
   code: LM-OTS (Algorithms 1, 3, 4b), LMS (5.3, 5.4.1, Algorithms 6, 6a), HSS (6.1 - 6.3).
   The hash function H and its output length n (= m) are parameters; the parameter-set tables
   (typecode -> w, p, ls  and  typecode -> h) are parameters as well, so that the same text serves
   every hash the library offers.  Validated in Spec/RfcKat.v against the RFC's Appendix F vectors. *)
From HbsLms Require Import Base.Bytes Spec.Rfc8554Ots.

Local Open Scope N_scope.

Definition u32str (x : N) : bytes := be 4 x.
Definition u16str (x : N) : bytes := be 2 x.
Definition u8str (x : N) : bytes := be 1 x.
Definition strTou32 (b : bytes) : N := be_dec b.

Definition D_PBLC : N := 0x8080.
Definition D_MESG : N := 0x8181.
Definition D_LEAF : N := 0x8282.
Definition D_INTR : N := 0x8383.

(* bytes a .. b-1 of S *)
Definition sub (S : bytes) (a b : nat) : bytes := firstn (b - a) (skipn a S).

Section Rfc.
  Variable n : nat.
  Variable H : bytes -> bytes.
  Variable ots_tbl : N -> option (N * N * N).   (* LM-OTS typecode -> (w, p, ls) *)
  Variable lms_tbl : N -> option N.             (* LMS typecode -> h *)

  (* ---- 4.  LM-OTS ---- *)

  (* tmp = H(I || u32str(q) || u16str(i) || u8str(j) || tmp)  for j = from .. from + steps - 1 *)
  Fixpoint hchain (I : bytes) (q i : N) (from : N) (steps : nat) (tmp : bytes) : bytes :=
    match steps with
    | O => tmp
    | S s => hchain I q i (from + 1) s (H (I ++ u32str q ++ u16str i ++ u8str from ++ tmp))
    end.

  (* Appendix A: x_q[i] = H(I || u32str(q) || u16str(i) || u8str(0xff) || SEED) *)
  Definition x_qi (I : bytes) (q i : N) (SEED : bytes) : bytes :=
    H (I ++ u32str q ++ u16str i ++ u8str 0xff ++ SEED).

  (* Algorithm 1: K = H(I || u32str(q) || u16str(D_PBLC) || y[0] || ... || y[p-1]),
     y[i] = chain of 2^w - 1 steps from x[i] *)
  Definition alg1_public_key (I : bytes) (q w p : N) (SEED : bytes) : bytes :=
    H (I ++ u32str q ++ u16str D_PBLC ++
       concat (map (fun i => hchain I q (N.of_nat i) 0 (N.to_nat (2 ^ w - 1)) (x_qi I q (N.of_nat i) SEED))
                   (seq 0 (N.to_nat p)))).

  (* Algorithm 3: u32str(type) || C || y[0] || ... || y[p-1] *)
  Definition alg3_signature (type : N) (I : bytes) (q w p ls : N) (SEED C message : bytes) : bytes :=
    let Q := H (I ++ u32str q ++ u16str D_MESG ++ C ++ message) in
    let QC := Q ++ u16str (rfc_cksm (N.of_nat n) w ls Q) in
    u32str type ++ C ++
    concat (map (fun i => hchain I q (N.of_nat i) 0 (N.to_nat (rfc_coef QC (N.of_nat i) w))
                                 (x_qi I q (N.of_nat i) SEED))
                (seq 0 (N.to_nat p))).

  (* Algorithm 4b: public key candidate Kc from a signature; None = INVALID *)
  Definition alg4b (pubtype : N) (I : bytes) (q : N) (signature message : bytes) : option bytes :=
    if Nat.ltb (length signature) 4 then None
    else
      let sigtype := strTou32 (sub signature 0 4) in
      if negb (sigtype =? pubtype) then None
      else
        match ots_tbl sigtype with
        | None => None
        | Some (w, p, ls) =>
          if negb (Nat.eqb (length signature) (4 + n * (N.to_nat p + 1))) then None
          else
            let C := sub signature 4 (4 + n) in
            let y := fun i => sub signature (4 + n + n * i) (4 + n + n * (i + 1)) in
            let Q := H (I ++ u32str q ++ u16str D_MESG ++ C ++ message) in
            let QC := Q ++ u16str (rfc_cksm (N.of_nat n) w ls Q) in
            let z := map (fun i =>
                            let a := rfc_coef QC (N.of_nat i) w in
                            hchain I q (N.of_nat i) a (N.to_nat (2 ^ w - 1 - a)) (y i))
                         (seq 0 (N.to_nat p)) in
            Some (H (I ++ u32str q ++ u16str D_PBLC ++ concat z))
        end.

  (* ---- 5.  LMS ---- *)

  (* 5.3: T[r], computed over [d] remaining levels (leaves at d = 0); K_of is the LM-OTS public
     key of a leaf *)
  Fixpoint T (I : bytes) (K_of : N -> bytes) (h : N) (d : nat) (r : N) : bytes :=
    match d with
    | O => H (I ++ u32str r ++ u16str D_LEAF ++ K_of (r - 2 ^ h))
    | S d' => H (I ++ u32str r ++ u16str D_INTR ++ T I K_of h d' (2 * r) ++ T I K_of h d' (2 * r + 1))
    end.

  (* 5.3: u32str(type) || u32str(otstype) || I || T[1] *)
  Definition lms_public_key (lms_type ots_type : N) (I root : bytes) : bytes :=
    u32str lms_type ++ u32str ots_type ++ I ++ root.

  (* 5.4.1: u32str(q) || lmots_signature || u32str(type) || path[0] || ... || path[h-1],
     path[i] = T[ floor((2^h + q) / 2^i) xor 1 ] *)
  Definition lms_signature (lms_type : N) (I : bytes) (K_of : N -> bytes) (h q : N) (ots_sig : bytes) : bytes :=
    u32str q ++ ots_sig ++ u32str lms_type ++
    concat (map (fun i => T I K_of h i (N.lxor ((2 ^ h + q) / 2 ^ N.of_nat i) 1)) (seq 0 (N.to_nat h))).

  (* Algorithm 6a, step 4: climb from the leaf to the root; [fuel] bounds the while loop *)
  Fixpoint climb6a (I : bytes) (node_num : N) (tmp : bytes) (path : nat -> bytes) (i : nat) (fuel : nat) : bytes :=
    match fuel with
    | O => tmp
    | S f =>
      if node_num <=? 1 then tmp
      else
        let tmp' := if N.odd node_num
                    then H (I ++ u32str (node_num / 2) ++ u16str D_INTR ++ path i ++ tmp)
                    else H (I ++ u32str (node_num / 2) ++ u16str D_INTR ++ tmp ++ path i) in
        climb6a I (node_num / 2) tmp' path (S i) f
    end.

  (* Algorithm 6a: LMS public key candidate; None = INVALID *)
  Definition alg6a (lms_pubtype ots_pubtype : N) (I : bytes) (signature message : bytes) : option bytes :=
    if Nat.ltb (length signature) 8 then None
    else
      let q := strTou32 (sub signature 0 4) in
      let otssigtype := strTou32 (sub signature 4 8) in
      if negb (otssigtype =? ots_pubtype) then None
      else
        match ots_tbl ots_pubtype with
        | None => None
        | Some (w, p, ls) =>
          let np := (n * (N.to_nat p + 1))%nat in
          if Nat.ltb (length signature) (12 + np) then None
          else
            let lmots_signature := sub signature 4 (8 + np) in
            let sigtype := strTou32 (sub signature (8 + np) (12 + np)) in
            if negb (sigtype =? lms_pubtype) then None
            else
              match lms_tbl lms_pubtype with
              | None => None
              | Some h =>
                if (2 ^ h <=? q) || negb (Nat.eqb (length signature) (12 + np + n * N.to_nat h)) then None
                else
                  let path := fun i => sub signature (12 + np + n * i) (12 + np + n * (i + 1)) in
                  match alg4b ots_pubtype I q lmots_signature message with
                  | None => None
                  | Some Kc =>
                    let node_num := 2 ^ h + q in
                    let tmp := H (I ++ u32str node_num ++ u16str D_LEAF ++ Kc) in
                    Some (climb6a I node_num tmp path 0 (N.to_nat h))
                  end
              end
        end.

  (* Algorithm 6: LMS signature verification *)
  Definition alg6 (public_key signature message : bytes) : bool :=
    if Nat.ltb (length public_key) 8 then false
    else
      let pubtype := strTou32 (sub public_key 0 4) in
      let ots_typecode := strTou32 (sub public_key 4 8) in
      match lms_tbl pubtype, ots_tbl ots_typecode with
      | Some h, Some _ =>
        if negb (Nat.eqb (length public_key) (24 + n)) then false
        else
          let I := sub public_key 8 24 in
          let T1 := sub public_key 24 (24 + n) in
          match alg6a pubtype ots_typecode I signature message with
          | None => false
          | Some Tc => bytes_eqb Tc T1
          end
      | _, _ => false
      end.

  (* ---- 6.  HSS ---- *)

  (* length of the next LMS signature in S, from the typecodes it carries; None = cannot be parsed *)
  Definition next_lms_sig_len (S : bytes) : option nat :=
    if Nat.ltb (length S) 8 then None
    else
      match ots_tbl (strTou32 (sub S 4 8)) with
      | None => None
      | Some (w, p, ls) =>
        let np := (n * (N.to_nat p + 1))%nat in
        if Nat.ltb (length S) (12 + np) then None
        else
          match lms_tbl (strTou32 (sub S (8 + np) (12 + np))) with
          | None => None
          | Some h => Some (12 + np + n * N.to_nat h)%nat
          end
      end.

  (* 6.3: walk the list of signed public keys; [key] is the LMS public key that verifies next *)
  Fixpoint hss_walk (nspk : nat) (S key message : bytes) : bool :=
    match nspk with
    | O => alg6 key S message       (* siglist[Nspk] is the rest of S *)
    | S k =>
      match next_lms_sig_len S with
      | None => false
      | Some sl =>
        if Nat.ltb (length S) (sl + 24 + n) then false
        else
          let sig := sub S 0 sl in
          let pub := sub S sl (sl + 24 + n) in
          if alg6 key sig pub then hss_walk k (skipn (sl + 24 + n) S) pub message else false
      end
    end.

  (* 6.3: HSS signature verification; the public key is u32str(L) || pub[0] *)
  Definition hss_verify_rfc (max_levels : N) (message signature public_key : bytes) : bool :=
    if Nat.ltb (length signature) 4 || Nat.ltb (length public_key) 4 then false
    else
      let Nspk := strTou32 (sub signature 0 4) in
      let L := strTou32 (sub public_key 0 4) in
      if negb (Nspk + 1 =? L) then false
      else if max_levels <=? Nspk then false   (* 6.1: L is at most 8; an implementation may support fewer *)
      else hss_walk (N.to_nat Nspk) (skipn 4 signature) (skipn 4 public_key) message.
End Rfc.

(* the parameter tables for an n-byte hash: LM-OTS typecodes 1..4 = W1, W2, W4, W8 with p and ls from
   the Appendix B formulas; LMS typecodes 5..9 = H5 .. H25 (Table 2) *)
Definition rfc_ots_tbl (n : nat) (code : N) : option (N * N * N) :=
  match code with
  | 1 => Some (1, rfc_p (N.of_nat n) 1, rfc_ls (N.of_nat n) 1)
  | 2 => Some (2, rfc_p (N.of_nat n) 2, rfc_ls (N.of_nat n) 2)
  | 3 => Some (4, rfc_p (N.of_nat n) 4, rfc_ls (N.of_nat n) 4)
  | 4 => Some (8, rfc_p (N.of_nat n) 8, rfc_ls (N.of_nat n) 8)
  | _ => None
  end.

Definition rfc_lms_tbl (code : N) : option N :=
  match code with
  | 5 => Some 5 | 6 => Some 10 | 7 => Some 15 | 8 => Some 20 | 9 => Some 25
  | _ => None
  end.
