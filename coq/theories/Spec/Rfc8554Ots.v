(* RFC 8554, written from the RFC text (sections 3.1.3, 4.1, 4.4, Appendix B), not from the code:
   coef, the LM-OTS parameter formulas, and the checksum. *)
From HbsLms Require Import Base.Bytes.

Local Open Scope N_scope.

(* 3.1.3:  coef(S, i, w) = (2^w - 1) AND ( byte(S, floor(i * w / 8)) >> (8 - (w * (i % (8 / w)) + w)) ) *)
Definition rfc_coef (S : bytes) (i w : N) : N :=
  N.land (2 ^ w - 1)
         (N.shiftr (b2n (nth (N.to_nat ((i * w) / 8)) S x00)) (8 - (w * (i mod (8 / w)) + w))).

(* Appendix B:  u = ceil(8*n/w);  v = ceil((floor(lg((2^w - 1) * u)) + 1) / w);
                ls = 16 - (v * w);  p = u + v *)
Definition cdiv (a b : N) : N := (a + b - 1) / b.
Definition rfc_u (n w : N) : N := cdiv (8 * n) w.
Definition rfc_v (n w : N) : N := cdiv (N.log2 ((2 ^ w - 1) * rfc_u n w) + 1) w.
Definition rfc_ls (n w : N) : N := 16 - rfc_v n w * w.
Definition rfc_p (n w : N) : N := rfc_u n w + rfc_v n w.

(* 4.4:  sum = sum + (2^w - 1) - coef(S, i, w) for i = 0 .. (n*8/w) - 1;  return (sum << ls) *)
Fixpoint rfc_sum (S : bytes) (w : N) (k : nat) : N :=
  match k with
  | O => 0
  | S k' => rfc_sum S w k' + ((2 ^ w - 1) - rfc_coef S (N.of_nat k') w)
  end.

Definition rfc_cksm (n w ls : N) (S : bytes) : N :=
  N.shiftl (rfc_sum S w (N.to_nat (n * 8 / w))) ls mod 65536.

(* 4.5 / 4.6:  a = coef(Q || Cksm(Q), i, w) for i = 0 .. p-1, with Cksm(Q) as a 16-bit big-endian value *)
Definition rfc_digits (n w ls p : N) (Q : bytes) : list N :=
  map (fun i => rfc_coef (Q ++ be 2 (rfc_cksm n w ls Q)) (N.of_nat i) w) (seq 0 (N.to_nat p)).

(* the values of Table 1 (RFC 8554 section 4.1) follow from the formulas *)
Example rfc_table1 :
  map (fun w => (rfc_p 32 w, rfc_ls 32 w)) [1; 2; 4; 8] = [(265, 7); (133, 6); (67, 4); (34, 0)].
Proof. vm_compute. reflexivity. Qed.
