(* RFC 8554 section 6 (HSS key generation and signing) over the per-level secrets that the
   hash-sigs derivation (Spec/HashSigs.v) yields.  Written from the RFC text. *)
From HbsLms Require Import Base.Bytes Spec.Rfc8554Ots Spec.Rfc8554 Spec.HashSigs.

Local Open Scope N_scope.

(* one HSS level: its LMS / LM-OTS parameter set, tree identifier, seed, current leaf, randomizer *)
Record level := {
  lv_lms_type : N; lv_h : N;
  lv_ots_type : N; lv_w : N; lv_p : N; lv_ls : N;
  lv_I : bytes; lv_seed : bytes; lv_q : N; lv_C : bytes;
}.

Section HssSpec.
  Variable n : nat.
  Variable H : bytes -> bytes.

  (* Appendix A + Algorithm 1: the LM-OTS public key of leaf q of this level's tree *)
  Definition level_K (l : level) (q : N) : bytes :=
    alg1_public_key H (lv_I l) q (lv_w l) (lv_p l) (lv_seed l).

  (* 5.3: the LMS public key  u32str(type) || u32str(otstype) || I || T[1] *)
  Definition level_pub (l : level) : bytes :=
    lms_public_key (lv_lms_type l) (lv_ots_type l) (lv_I l)
                   (T H (lv_I l) (level_K l) (lv_h l) (N.to_nat (lv_h l)) 1).

  (* 5.4.1 with Algorithm 3: the LMS signature of [message] by leaf q of this level *)
  Definition level_sig (l : level) (message : bytes) : bytes :=
    lms_signature H (lv_lms_type l) (lv_I l) (level_K l) (lv_h l) (lv_q l)
                  (alg3_signature n H (lv_ots_type l) (lv_I l) (lv_q l) (lv_w l) (lv_p l) (lv_ls l)
                                  (lv_seed l) (lv_C l) message).

  (* 6.2: signed_pub_key[i] = sig[i] || pub[i+1], then the signature of the message *)
  Fixpoint hss_chain (ls : list level) (message : bytes) : bytes :=
    match ls with
    | [] => []
    | l :: rest =>
      match rest with
      | [] => level_sig l message
      | l' :: _ => level_sig l (level_pub l') ++ level_pub l' ++ hss_chain rest message
      end
    end.

  (* 6.2: u32str(Nspk) || signed_pub_key[0] || ... || signed_pub_key[Nspk-1] || sig[Nspk] *)
  Definition hss_signature_rfc (ls : list level) (message : bytes) : bytes :=
    u32str (N.of_nat (length ls - 1)) ++ hss_chain ls message.

  (* 6.1: u32str(L) || pub[0] *)
  Definition hss_public_key_rfc (ls : list level) : bytes :=
    match ls with
    | [] => []
    | l :: _ => u32str (N.of_nat (length ls)) ++ level_pub l
    end.
End HssSpec.
