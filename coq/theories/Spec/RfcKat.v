(* Known-answer tests from RFC 8554 Appendix F (the byte arrays of /repo/tests/rfc_testcase{1,2}.rs,
   extracted by the translator):
   - the independent RFC transcription (Spec/Rfc8554.v) accepts them  -> validates the spec;
   - the model (Model/Hss.v with the constants of the current source) accepts them -> ties the
     model's constants, tables, digit encoding, chain and tree hashing to the RFC's ground truth;
   - both reject the vectors after single-byte corruptions.
   Evaluated with the executable SHA-256 of Exec/Sha256.v (itself checked against FIPS 180 vectors). *)
From HbsLms Require Import Base.Bytes Model.Consts Model.Hss Spec.Rfc8554 Exec.Sha256 Gen.Generated.

Local Open Scope N_scope.

Definition sha := sha256_n 32.
Definition rfc_verify := hss_verify_rfc 32 sha (rfc_ots_tbl 32) rfc_lms_tbl 8.

Example kat1_spec : rfc_verify rfc_testcase1_message rfc_testcase1_signature rfc_testcase1_public_key = true.
Proof. vm_compute. reflexivity. Qed.
Example kat2_spec : rfc_verify rfc_testcase2_message rfc_testcase2_signature rfc_testcase2_public_key = true.
Proof. vm_compute. reflexivity. Qed.

Example kat1_model : hss_verify K_src 32 sha rfc_testcase1_message rfc_testcase1_signature rfc_testcase1_public_key = Ok tt.
Proof. vm_compute. reflexivity. Qed.
Example kat2_model : hss_verify K_src 32 sha rfc_testcase2_message rfc_testcase2_signature rfc_testcase2_public_key = Ok tt.
Proof. vm_compute. reflexivity. Qed.

(* corruptions of test case 1: message, a chain value, a path node, the root, the level count *)
Definition flip (l : bytes) (i : nat) : bytes := firstn i l ++ [xor_byte (nth i l x00) x01] ++ skipn (S i) l.

Example kat1_corrupted :
  map (fun t : bytes * bytes * bytes => let '(m, s, p) := t in (rfc_verify m s p, is_ok (hss_verify K_src 32 sha m s p)))
      [(flip rfc_testcase1_message 3, rfc_testcase1_signature, rfc_testcase1_public_key);
       (rfc_testcase1_message, flip rfc_testcase1_signature 100, rfc_testcase1_public_key);
       (rfc_testcase1_message, flip rfc_testcase1_signature 1290, rfc_testcase1_public_key);
       (rfc_testcase1_message, rfc_testcase1_signature, flip rfc_testcase1_public_key 40);
       (rfc_testcase1_message, rfc_testcase1_signature, flip rfc_testcase1_public_key 3);
       (rfc_testcase1_message, rfc_testcase1_signature ++ [x00], rfc_testcase1_public_key);
       (rfc_testcase1_message, rfc_testcase1_signature, rfc_testcase1_public_key ++ [x00])]
  = repeat (false, false) 7.
Proof. vm_compute. reflexivity. Qed.
