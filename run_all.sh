#!/bin/bash
# run every claimed check (quick tier by default) and summarise; used before committing evidence
cd /verif
tier=${1:-quick}
ids=$(python3 -c "import json; print(' '.join(c['property_id'] for c in json.load(open('MANIFEST.json'))['checks']))")
rc=0
for id in $ids; do
  out=$(./check $id --tier $tier 2>&1); r=$?
  echo "== $id exit=$r"; echo "$out" | grep -E "VIOLATION|KNOWN-FINDING|\[check\] C" | cut -c1-220
  [ $r -ne 0 ] && rc=1
done
python3-vt - <<'PY'
import json,jsonschema,glob
s=json.load(open('/root/.vp/EVIDENCE.schema.json'))
for f in sorted(glob.glob('/verif/evidence/*.json')):
    e=json.load(open(f)); jsonschema.validate(e,s)
    c=e['coverage']; print(f.split('/')[-1], 'obligations',c['obligations'],'discharged',c['discharged'],'wall',e['wall_s'])
jsonschema.validate(json.load(open('/verif/MANIFEST.json')),json.load(open('/root/.vp/MANIFEST.schema.json')))
print('manifest ok')
PY
exit $rc
