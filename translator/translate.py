#!/usr/bin/env python3
"""Translator: /repo's current source  ->  coq/theories/Gen/Generated.v

Everything in Generated.v is recomputed from the working tree on every run; nothing is
remembered.  If a pattern no longer matches, the translator fails loudly (exit 2) and
names the pattern: that is a broken tie between model and code, reported as such by
the driver.

Extracted (see DESIGN.md section 4a):
  * constants.rs: domain separators, block offsets, HASH_CHAIN_COUNTS and its index
    arithmetic, aux constants, winternitz_chain offsets
  * lm_ots/parameters.rs, lms/parameters.rs: discriminants, From<u32>, get_from_type,
    construct_parameter rows
  * reference_impl_private_key.rs: PARAM_SET_END; aux.rs constants
  * build.rs defaults + .cargo/config.toml [env] (or the environment given with --env)
  * struct table (derives, fields, #[zeroize(skip)]) for C16
  * ambient-state audit for C09
  * RFC 8554 test vectors from tests/rfc_testcase*.rs
"""
import json
import os
import re
import sys

REPO = os.environ.get("VERIF_REPO", "/repo")


class TranslateError(Exception):
    pass


def src(path):
    with open(os.path.join(REPO, path)) as f:
        return f.read()


def strip_comments(s):
    s = re.sub(r"/\*.*?\*/", "", s, flags=re.S)
    s = re.sub(r"//[^\n]*", "", s)
    return s


def need(pattern, text, what, flags=re.S):
    m = re.search(pattern, text, flags)
    if not m:
        raise TranslateError("pattern not found: %s  (/%s/)" % (what, pattern))
    return m


def rust_int(tok, env=None):
    """Evaluate a small Rust constant expression: literals, + * << >> ! & |, parens,
    names from env, `as T` casts ignored, size_of::<u32>()."""
    env = env or {}
    t = tok.strip()
    t = re.sub(r"size_of::<u32>\(\)", "4", t)
    t = re.sub(r"\bas\s+(u8|u16|u32|u64|usize)\b", "", t)
    t = re.sub(r"(\d)_(\d)", r"\1\2", t)
    t = re.sub(r"(\d+)(u8|u16|u32|u64|usize)\b", r"\1", t)
    # `!x` on u16 constants (SEED_CHILD_SEED = !1)
    t = re.sub(r"!\s*(\w+)", r"(65535 - (\1))", t)

    def repl(m):
        name = m.group(0)
        if name in env:
            return str(env[name])
        raise TranslateError("unknown name in constant expression: %s in %r" % (name, tok))

    t = re.sub(r"\b[A-Za-z_][A-Za-z_0-9]*\b", repl, t)
    if not re.fullmatch(r"[0-9a-fA-Fx\s+\-*()<>&|]*", t):
        raise TranslateError("unsupported constant expression: %r" % tok)
    return int(eval(t, {"__builtins__": {}}, {}))


def parse_constants():
    s = strip_comments(src("src/constants.rs"))
    env = {}
    out = {}

    def const(name, ty=r"\w+"):
        m = need(r"pub const %s\s*:\s*%s\s*=\s*([^;]+);" % (name, ty), s, "constants.rs %s" % name)
        v = rust_int(m.group(1), env)
        env[name] = v
        return v

    def bytes2(name):
        m = need(r"pub const %s\s*:\s*\[u8;\s*2\]\s*=\s*\[([^\]]+)\];" % name, s, "constants.rs %s" % name)
        return [rust_int(x) for x in m.group(1).split(",")]

    out["ILEN"] = const("ILEN")
    out["MAX_SEED_LEN"] = const("MAX_SEED_LEN")
    out["MAX_HASH_SIZE"] = const("MAX_HASH_SIZE")
    out["MAX_HASH_BLOCK_SIZE"] = const("MAX_HASH_BLOCK_SIZE")
    for nm in ("D_PBLC", "D_MESG", "D_LEAF", "D_INTR"):
        out[nm] = bytes2(nm)
    for nm in ("TOPSEED_SEED", "TOPSEED_LEN", "TOPSEED_D", "TOPSEED_WHICH", "D_TOPSEED",
               "PRNG_I", "PRNG_Q", "PRNG_J", "PRNG_FF", "PRNG_SEED",
               "SEED_CHILD_SEED", "SEED_SIGNATURE_RANDOMIZER_SEED",
               "HSS_COMPRESSED_USED_LEAFS_SIZE", "REF_IMPL_MAX_ALLOWED_HSS_LEVELS",
               "MIN_SUBTREE", "DAUX_D", "DAUX_PREFIX_LEN", "D_DAUX",
               "ITER_I", "ITER_Q", "ITER_K", "ITER_J", "ITER_PREV"):
        out[nm] = const(nm)
    m = need(r"pub const fn prng_len\(seed_len: usize\) -> usize \{\s*(\d+) \+ seed_len\s*\}", s, "prng_len")
    out["PRNG_LEN_BASE"] = int(m.group(1))
    m = need(r"pub const fn iter_len\(hash_len: usize\) -> usize \{\s*ITER_PREV \+ hash_len\s*\}", s, "iter_len")
    # REF_IMPL_MAX_PRIVATE_KEY_SIZE formula
    need(r"REF_IMPL_MAX_PRIVATE_KEY_SIZE: usize =\s*HSS_COMPRESSED_USED_LEAFS_SIZE \+ REF_IMPL_MAX_ALLOWED_HSS_LEVELS \+ MAX_SEED_LEN;",
         s, "REF_IMPL_MAX_PRIVATE_KEY_SIZE formula")
    m = need(r"const HASH_CHAIN_COUNTS: \[usize; (\d+)\] = \[([^\]]+)\];", s, "HASH_CHAIN_COUNTS")
    counts = [rust_int(x) for x in m.group(2).split(",")]
    if len(counts) != int(m.group(1)):
        raise TranslateError("HASH_CHAIN_COUNTS length")
    out["HASH_CHAIN_COUNTS"] = counts
    body = need(r"pub const fn get_num_winternitz_chains\(winternitz_parameter: usize, output_size: usize\) -> usize \{(.*?)\n\}", s,
                "get_num_winternitz_chains").group(1)
    wm = need(r"let w_i = match winternitz_parameter \{(.*?)\};", body, "w_i match").group(1)
    om = need(r"let o_i = match output_size \{(.*?)\};", body, "o_i match").group(1)
    out["CHAIN_W_INDEX"] = [(int(a), int(b)) for a, b in re.findall(r"(\d+) => (\d+)usize", wm)]
    out["CHAIN_N_INDEX"] = [(int(a), int(b)) for a, b in re.findall(r"(\d+) => (\d+)usize", om)]
    im = need(r"HASH_CHAIN_COUNTS\[w_i \* (\d+) \+ o_i\]", body, "HASH_CHAIN_COUNTS index expression")
    out["CHAIN_STRIDE"] = int(im.group(1))
    # length formulas: checked textually (the model's length functions are these formulas)
    formulas = {
        "lmots_signature_length": r"size_of::<u32>\(\)\s*\+ hash_size\s*\+ \(hash_size \* hash_chain_count\)",
        "lms_public_key_length": r"size_of::<u32>\(\)\s*\+ size_of::<u32>\(\)\s*\+ size_of::<LmsTreeIdentifier>\(\)\s*\+ hash_size",
        "lms_signature_length": r"size_of::<u32>\(\)\s*\+ lmots_signature_length\(hash_size, hash_chain_count\)\s*\+ size_of::<u32>\(\)\s*\+ \(hash_size \* tree_height\)",
        "hss_signed_public_key_length": r"lms_signature_length\(hash_size, hash_chain_count, tree_height\)\s*\+ MAX_LMS_PUBLIC_KEY_LENGTH",
    }
    for fn, pat in formulas.items():
        b = need(r"pub const fn %s\([^)]*\) -> usize \{(.*?)\n\}" % fn, s, fn).group(1)
        need(pat, b, "%s body" % fn)
    return out


def parse_enum(path, enum_name, param_ctor, nfields):
    s = strip_comments(src(path))
    # drop the verification hook lines (cfg(all(hbs_lms_verif, not(test)))) and cfg(test) markers;
    # the harness is built with the hook on, so LmsH2 is part of the table under test
    s_nocfg = re.sub(r"#\[cfg\([^\]]*\)\]\s*\n", "", s)
    body = need(r"pub enum %s \{(.*?)\n\}" % enum_name, s_nocfg, "enum %s" % enum_name).group(1)
    body = re.sub(r"#\[default\]", "", body)
    variants = {}
    for name, val in re.findall(r"(\w+)\s*=\s*(\d+)\s*,", body):
        if name in variants and variants[name] != int(val):
            raise TranslateError("enum %s: variant %s with two discriminants" % (enum_name, name))
        variants[name] = int(val)
    if not variants:
        raise TranslateError("enum %s: no variants" % enum_name)
    reserved = [k for k in variants if "Reserved" in k]

    def arms(fn_pat, what):
        b = need(fn_pat, s_nocfg, what).group(1)
        res = {}
        for code, var in re.findall(r"(\d+)\s*=>\s*%s::(\w+)" % enum_name, b):
            res.setdefault(int(code), variants[var])
        return res

    from_u32 = arms(r"impl From<u32> for %s \{.*?match _type \{(.*?)\n        \}" % enum_name, "%s From<u32>" % enum_name)
    get_from = arms(r"pub fn get_from_type<H: HashChain>\(_type: u32\) -> Option<\w+<H>> \{\s*match _type \{(.*?)\n        \}" , "%s get_from_type" % enum_name)
    cb = need(r"pub fn construct_parameter<H: HashChain>\(&self\) -> Option<\w+<H>> \{\s*match \*self \{(.*?)\n        \}", s_nocfg,
              "%s construct_parameter" % enum_name).group(1)
    construct = {}
    for var, args in re.findall(r"%s::(\w+)\s*=>\s*Some\(%s::new\((.*?)\)\)," % (enum_name, param_ctor), cb, re.S):
        parts = [a.strip() for a in re.split(r",(?![^()]*\))", args.strip().rstrip(",")) if a.strip()]
        if len(parts) != nfields:
            raise TranslateError("%s::%s: expected %d constructor arguments, got %r" % (enum_name, var, nfields, parts))
        if variants[var] not in construct:
            construct[variants[var]] = parts
    for r in reserved:
        need(r"%s::%s\s*=>\s*None" % (enum_name, r), cb, "%s reserved arm" % enum_name)
    return variants, from_u32, get_from, construct


def parse_lmots():
    variants, from_u32, get_from, construct = parse_enum(
        "src/lm_ots/parameters.rs", "LmotsAlgorithm", "LmotsParameter", 4)
    rows = {}
    for v, parts in construct.items():
        ty, w, chains, ls = parts
        m = re.fullmatch(r"get_num_winternitz_chains\((\d+), H::OUTPUT_SIZE as usize\) as u16", re.sub(r"\s+", " ", chains))
        if not m:
            raise TranslateError("LmotsParameter::new chain count argument: %r" % chains)
        if int(m.group(1)) != int(w):
            raise TranslateError("LmotsParameter::new: chain count looked up for w=%s but winternitz=%s" % (m.group(1), w))
        rows[v] = (int(ty), int(w), int(ls))
    s = strip_comments(src("src/lm_ots/parameters.rs"))
    need(r"pub fn new\(\s*type_id: u32,\s*winternitz: u8,\s*hash_chain_count: u16,\s*checksum_left_shift: u8,\s*\) -> Self",
         s, "LmotsParameter::new signature")
    return from_u32, get_from, rows


def parse_lms():
    variants, from_u32, get_from, construct = parse_enum(
        "src/lms/parameters.rs", "LmsAlgorithm", "LmsParameter", 2)
    rows = {v: (int(p[0]), int(p[1])) for v, p in construct.items()}
    s = strip_comments(src("src/lms/parameters.rs"))
    need(r"pub fn new\(type_id: u32, tree_height: u8\) -> Self", s, "LmsParameter::new signature")
    return from_u32, get_from, rows


def parse_misc_structure():
    s = strip_comments(src("src/hss/reference_impl_private_key.rs"))
    need(r"result\.0\[i\] = \(lms_type << 4\) \+ lmots_type;", s, "parameter nibble packing")
    need(r"let lms_type = parameter >> 4;\s*let lmots_type = parameter & 0x0f;", s, "parameter nibble unpacking")


def parse_misc():
    out = {}
    s = strip_comments(src("src/hss/reference_impl_private_key.rs"))
    out["PARAM_SET_END"] = rust_int(need(r"const PARAM_SET_END: u8 = ([^;]+);", s, "PARAM_SET_END").group(1))
    parse_misc_structure()
    a = strip_comments(src("src/hss/aux.rs"))
    out["AUX_DATA_MARKER"] = rust_int(need(r"const AUX_DATA_MARKER: usize = ([^;]+);", a, "AUX_DATA_MARKER").group(1))
    out["NO_AUX_DATA"] = rust_int(need(r"const NO_AUX_DATA: u8 = ([^;]+);", a, "NO_AUX_DATA").group(1))
    out["AUX_DATA_HASHES"] = rust_int(need(r"const AUX_DATA_HASHES: usize = ([^;]+);", a, "AUX_DATA_HASHES").group(1))
    out["IPAD"] = rust_int(need(r"const IPAD: u8 = ([^;]+);", a, "IPAD").group(1))
    out["OPAD"] = rust_int(need(r"const OPAD: u8 = ([^;]+);", a, "OPAD").group(1))
    return out


def parse_build_cfg(env_override=None):
    """MAX_ALLOWED_HSS_LEVELS / TREE_HEIGHTS / WINTERNITZ_PARAMETERS as build.rs computes them
    from the environment: .cargo/config.toml [env] unless overridden."""
    b = strip_comments(src("build.rs"))
    dl = int(need(r'option_env!\("HBS_LMS_MAX_ALLOWED_HSS_LEVELS"\);.*?map_or\(Ok\((\d+)\)', b, "build.rs levels default").group(1))
    dh = need(r'option_env!\("HBS_LMS_TREE_HEIGHTS"\);.*?unwrap_or\("([^"]+)"\)', b, "build.rs heights default").group(1)
    dw = need(r'option_env!\("HBS_LMS_WINTERNITZ_PARAMETERS"\);.*?unwrap_or\("([^"]+)"\)', b, "build.rs winternitz default").group(1)
    env = {}
    try:
        cfg = src(".cargo/config.toml")
        sec = re.search(r"\[env\](.*?)(\n\[|\Z)", cfg, re.S)
        if sec:
            for k, v in re.findall(r'(\w+)\s*=\s*"([^"]*)"', sec.group(1)):
                env[k] = v
    except FileNotFoundError:
        pass
    if env_override:
        env.update(env_override)
    levels = int(env.get("HBS_LMS_MAX_ALLOWED_HSS_LEVELS", dl))
    heights = [int(x) for x in env.get("HBS_LMS_TREE_HEIGHTS", dh).split(", ")]
    ws = [int(x) for x in env.get("HBS_LMS_WINTERNITZ_PARAMETERS", dw).split(", ")]
    return {"MAX_ALLOWED_HSS_LEVELS": levels, "TREE_HEIGHTS": heights, "WINTERNITZ_PARAMETERS": ws}



# ---------------------------------------------------------------- constants as compiled

def constants_from_hook(path):
    """The values of the constants, the chain-count table and the length formulas as COMPILED: the
    harness prints what src/verif_hooks.rs::model_constants() returns (`hv consts`).  Independent
    of how a constant is spelled in the source text; the length formulas are checked here against
    the formulas the model uses."""
    vals, chains, lengths = {}, [], []
    probes = {"OTS_FROM_U32": [], "OTS_GET_FROM_TYPE": [], "LMS_FROM_U32": [], "LMS_GET_FROM_TYPE": [], "OTS_CHAINS_N": []}
    for ln in open(path):
        ln = ln.strip()
        if not ln.startswith("{"):
            continue
        j = json.loads(ln)
        if j.get("k") != "const":
            continue
        if j["name"] == "NUM_CHAINS":
            chains.append(tuple(j["v"]))
        elif j["name"] == "LENGTHS":
            lengths.append(tuple(j["v"]))
        elif j["name"] in probes:
            probes[j["name"]].append(tuple(j["v"]))
        else:
            vals[j["name"]] = j["v"]
    need_names = ["ILEN", "MAX_SEED_LEN", "MAX_HASH_SIZE", "MAX_HASH_BLOCK_SIZE", "D_PBLC", "D_MESG", "D_LEAF", "D_INTR",
                  "TOPSEED_SEED", "TOPSEED_LEN", "TOPSEED_D", "TOPSEED_WHICH", "D_TOPSEED", "PRNG_I", "PRNG_Q", "PRNG_J",
                  "PRNG_FF", "PRNG_SEED", "PRNG_LEN", "SEED_CHILD_SEED", "SEED_SIGNATURE_RANDOMIZER_SEED",
                  "HSS_COMPRESSED_USED_LEAFS_SIZE", "REF_IMPL_MAX_ALLOWED_HSS_LEVELS", "REF_IMPL_MAX_PRIVATE_KEY_SIZE",
                  "MIN_SUBTREE", "DAUX_D", "DAUX_PREFIX_LEN", "D_DAUX", "ITER_I", "ITER_Q", "ITER_K", "ITER_J", "ITER_PREV",
                  "ITER_LEN", "PARAM_SET_END", "AUX_DATA_MARKER", "NO_AUX_DATA", "AUX_DATA_HASHES", "IPAD", "OPAD"]
    for nm in need_names:
        if nm not in vals:
            raise TranslateError("the hook did not report constant %s" % nm)
    k = {}
    for nm in need_names:
        k[nm] = vals[nm] if nm in ("D_PBLC", "D_MESG", "D_LEAF", "D_INTR", "PRNG_LEN", "ITER_LEN") else vals[nm][0]
    # prng_len(s) = base + s, iter_len(s) = ITER_PREV + s (sampled at 0, 16, 32)
    pl, il = k["PRNG_LEN"], k["ITER_LEN"]
    if not (pl[1] - pl[0] == 16 and pl[2] - pl[0] == 32):
        raise TranslateError("prng_len is not base + seed_len: %s" % pl)
    if not (il[0] == k["ITER_PREV"] and il[1] == il[0] + 16 and il[2] == il[0] + 32):
        raise TranslateError("iter_len is not ITER_PREV + hash_len: %s" % il)
    k["PRNG_LEN_BASE"] = pl[0]
    if k["REF_IMPL_MAX_PRIVATE_KEY_SIZE"] != k["HSS_COMPRESSED_USED_LEAFS_SIZE"] + k["REF_IMPL_MAX_ALLOWED_HSS_LEVELS"] + k["MAX_SEED_LEN"]:
        raise TranslateError("REF_IMPL_MAX_PRIVATE_KEY_SIZE is not counter + parameter bytes + seed")
    # get_num_winternitz_chains on its domain, in the (w, n) order of the model's table
    ws, ns = [1, 2, 4, 8], [16, 24, 32]
    table = {(w, n): c for (w, n, c) in chains}
    if sorted(table) != sorted((w, n) for w in ws for n in ns):
        raise TranslateError("unexpected domain of get_num_winternitz_chains: %s" % sorted(table))
    k["HASH_CHAIN_COUNTS"] = [table[(w, n)] for w in ws for n in ns]
    k["CHAIN_W_INDEX"] = [(w, i) for i, w in enumerate(ws)]
    k["CHAIN_N_INDEX"] = [(n, i) for i, n in enumerate(ns)]
    k["CHAIN_STRIDE"] = len(ns)
    # the length formulas of the model (Codec / serialisers): checked on the reported grid
    ilen = k["ILEN"]
    for (n, p, h, lmots_sig, lms_pk, lms_sig, spk) in lengths:
        want = (4 + n + n * p, 4 + 4 + ilen + n, 4 + (4 + n + n * p) + 4 + n * h, 4 + (4 + n + n * p) + 4 + n * h + (4 + 4 + ilen + k["MAX_HASH_SIZE"]))
        if (lmots_sig, lms_pk, lms_sig, spk) != want:
            raise TranslateError("length formulas differ from the model's at n=%d p=%d h=%d: %s vs %s" % (n, p, h, (lmots_sig, lms_pk, lms_sig, spk), want))
    if not lengths:
        raise TranslateError("the hook reported no length samples")
    misc = {nm: k[nm] for nm in ("PARAM_SET_END", "AUX_DATA_MARKER", "NO_AUX_DATA", "AUX_DATA_HASHES", "IPAD", "OPAD")}
    cfg = None
    if all(nm in vals for nm in ("MAX_ALLOWED_HSS_LEVELS", "TREE_HEIGHTS", "WINTERNITZ_PARAMETERS")):
        cfg = {"MAX_ALLOWED_HSS_LEVELS": vals["MAX_ALLOWED_HSS_LEVELS"][0], "TREE_HEIGHTS": vals["TREE_HEIGHTS"],
               "WINTERNITZ_PARAMETERS": vals["WINTERNITZ_PARAMETERS"]}
    k["_probes"] = probes if vals.get("TYPE_CODES_PROBED") else None
    return k, misc, cfg


def tables_from_probes(probes, k, kind):
    """type-code tables in the shape parse_lmots / parse_lms return, synthesised from the compiled
    code's answers on the probed codes (every code below 2^17 and the accepted codes with each higher
    bit set): variants are numbered by distinct row"""
    if kind == "ots":
        fu = {r[0]: (r[1], r[2], r[4]) for r in probes["OTS_FROM_U32"]}
        gt = {r[0]: (r[1], r[2], r[4]) for r in probes["OTS_GET_FROM_TYPE"]}
        # the chain count of a row is get_num_winternitz_chains(w, n) for every n
        table = {}
        for i, w in enumerate([1, 2, 4, 8]):
            for j, n in enumerate([16, 24, 32]):
                table[(w, n)] = k["HASH_CHAIN_COUNTS"][i * 3 + j]
        for r in probes["OTS_FROM_U32"] + probes["OTS_GET_FROM_TYPE"]:
            if table.get((r[2], 32)) != r[3]:
                raise TranslateError("LM-OTS row %s: chain count is not get_num_winternitz_chains(w, 32)" % (r,))
        for (n, code, w, p) in probes["OTS_CHAINS_N"]:
            if table.get((w, n)) != p:
                raise TranslateError("LM-OTS code %d under n=%d: chain count %d is not get_num_winternitz_chains" % (code, n, p))
    else:
        fu = {r[0]: (r[1], r[2]) for r in probes["LMS_FROM_U32"]}
        gt = {r[0]: (r[1], r[2]) for r in probes["LMS_GET_FROM_TYPE"]}
    rows = sorted(set(fu.values()) | set(gt.values()))
    # a variant is identified by its type id (as the enums' discriminants are); should two distinct rows
    # carry the same type id they are told apart by their position
    ids = [r[0] for r in rows]
    vid = {row: (row[0] if ids.count(row[0]) == 1 else 1000 + i) for i, row in enumerate(rows)}
    return ({c: vid[r] for c, r in sorted(fu.items())}, {c: vid[r] for c, r in sorted(gt.items())}, {vid[r]: r for r in rows})


def tables_agree(parsed, probed):
    """the tables read from the text and the tables the compiled code answers with must describe the same
    partial maps code -> row on the probed codes"""
    def flat(t):
        fu, gt, rows = t
        return ({c: rows[v] for c, v in fu.items() if v in rows}, {c: rows[v] for c, v in gt.items() if v in rows})
    return flat(parsed) == flat(probed)

# ---------------------------------------------------------------- struct table (C16)

def split_top(s, sep=","):
    parts, depth, cur = [], 0, ""
    for ch in s:
        if ch in "<([{":
            depth += 1
        elif ch in ">)]}":
            depth -= 1
        if ch == sep and depth == 0:
            parts.append(cur)
            cur = ""
        else:
            cur += ch
    if cur.strip():
        parts.append(cur)
    return parts


def rust_files():
    res = []
    for root, _, files in os.walk(os.path.join(REPO, "src")):
        for f in sorted(files):
            if f.endswith(".rs"):
                res.append(os.path.relpath(os.path.join(root, f), REPO))
    return sorted(res)


def non_test_source(path):
    """source text with comments, #[cfg(test)] modules and the verification hook module removed"""
    s = strip_comments(src(path))
    out = ""
    i = 0
    while True:
        m = re.search(r"#\[cfg\(test\)\]\s*(pub )?mod \w+ \{", s[i:])
        if not m:
            out += s[i:]
            break
        out += s[i:i + m.start()]
        j = i + m.end()
        depth = 1
        while depth and j < len(s):
            if s[j] == "{":
                depth += 1
            elif s[j] == "}":
                depth -= 1
            j += 1
        i = j
    return out


def parse_structs():
    structs = []
    for path in rust_files():
        if path.endswith("verif_hooks.rs"):
            continue
        s = non_test_source(path)
        for m in re.finditer(r"((?:#\[[^\]]*\]\s*)*)pub struct (\w+)(<[^>{(]*>)?\s*(\(|\{|where|;)", s):
            attrs, name, generics, opener = m.group(1), m.group(2), m.group(3) or "", m.group(4)
            derives = []
            for d in re.findall(r"#\[derive\(([^)]*)\)\]", attrs):
                derives += [x.strip() for x in d.split(",") if x.strip()]
            j = m.end()
            if opener == "where":
                k = s.index(";", j) if s.find(";", j) != -1 and (s.find("{", j) == -1 or s.find(";", j) < s.find("{", j)) else s.index("{", j)
                # tuple struct with where-clause: fields are in the parens before `where`
                opener = s[k]
                j = k + 1
            fields = []
            if m.group(4) == "(" or (m.group(4) == "where" and "(" in s[m.start():m.end()]):
                # tuple struct: find matching paren from first "(" after the name
                p = s.index("(", m.start() + len(attrs))
                depth, q = 1, p + 1
                while depth:
                    if s[q] == "(":
                        depth += 1
                    elif s[q] == ")":
                        depth -= 1
                    q += 1
                for idx, f in enumerate(split_top(s[p + 1:q - 1])):
                    f = f.strip()
                    skip = "#[zeroize(skip)]" in f
                    f = re.sub(r"#\[[^\]]*\]\s*", "", f)
                    f = re.sub(r"^pub(\([^)]*\))?\s+", "", f)
                    fields.append({"name": str(idx), "type": re.sub(r"\s+", " ", f), "skip": skip})
            elif opener == "{":
                depth, q = 1, j
                while depth:
                    if s[q] == "{":
                        depth += 1
                    elif s[q] == "}":
                        depth -= 1
                    q += 1
                for f in split_top(s[j:q - 1]):
                    f = f.strip()
                    if not f:
                        continue
                    skip = "#[zeroize(skip)]" in f
                    f = re.sub(r"#\[[^\]]*\]\s*", "", f)
                    f = re.sub(r"^pub(\([^)]*\))?\s+", "", f)
                    fm = re.match(r"(\w+)\s*:\s*(.*)$", f, re.S)
                    if not fm:
                        raise TranslateError("struct %s: cannot parse field %r" % (name, f))
                    fields.append({"name": fm.group(1), "type": re.sub(r"\s+", " ", fm.group(2)), "skip": skip})
            structs.append({"name": name, "file": path, "derives": derives, "fields": fields})
        # macro-defined hasher structs are not secret-bearing and are skipped (they match `pub struct $name`)
    impls = []
    for path in rust_files():
        if path.endswith("verif_hooks.rs"):
            continue
        s = non_test_source(path)
        for m in re.finditer(r"impl(?:<[^>]*>)?\s+(Drop|DefaultIsZeroes|Zeroize|ZeroizeOnDrop)\s+for\s+(\w+)", s):
            impls.append({"trait": m.group(1), "type": m.group(2), "file": path})
    return structs, impls


# ---------------------------------------------------------------- ambient-state audit (C09)

AMBIENT_PATTERNS = [
    # an immutable `static` of a type without interior mutability is a constant; interior
    # mutability is caught wherever the type is spelled out (next patterns)
    ("static_mut", r"\bstatic\s+mut\s+[A-Z_a-z]\w*\s*:"),
    ("thread_local", r"\bthread_local!"),
    ("lazy_static", r"\blazy_static!|\bonce_cell\b|\bOnceLock\b|\bOnceCell\b|\bLazyLock\b"),
    ("interior_mutability", r"\b(Cell|RefCell|UnsafeCell|Mutex|RwLock|Atomic\w+)\b"),
    ("rng", r"\b(OsRng|thread_rng|ThreadRng|StdRng|SmallRng|getrandom|RngCore)\b|\brand::"),
    ("clock", r"\b(SystemTime|Instant)\b|\bstd::time\b"),
    ("env", r"\bstd::env\b|\benv::var\b"),
    ("fs_net", r"\bstd::(fs|net|io)\b"),
    ("unsafe", r"\bunsafe\b"),
    ("process_thread_id", r"\bstd::process\b|\bthread::current\b"),
]


def strip_fast_verify(s):
    """remove items/blocks guarded by #[cfg(feature = "fast_verify")] (or all(...fast_verify...))"""
    out = ""
    i = 0
    pat = re.compile(r'#\[cfg\((?:all\()?[^\]]*feature\s*=\s*"fast_verify"[^\]]*\)\]')
    while True:
        m = pat.search(s, i)
        if not m:
            out += s[i:]
            break
        out += s[i:m.start()]
        j = m.end()
        # guarded thing: up to the matching `}` of the first top-level `{`, or to the first top-level `;`
        # (a `;` inside [..] or (..), e.g. in an array type of a signature, does not end the item)
        q = j
        depth = 0
        end = None
        while q < len(s):
            ch = s[q]
            if ch in "([":
                depth += 1
            elif ch in ")]":
                depth -= 1
            elif ch == ";" and depth == 0:
                end = q + 1
                break
            elif ch == "{" and depth == 0:
                d2, q2 = 1, q + 1
                while d2 and q2 < len(s):
                    if s[q2] == "{":
                        d2 += 1
                    elif s[q2] == "}":
                        d2 -= 1
                    q2 += 1
                if q2 < len(s) and s[q2] == ";":
                    q2 += 1
                end = q2
                break
            q += 1
        i = end if end is not None else len(s)
    return out


def ambient_audit():
    findings = []
    for path in rust_files():
        if path.endswith("verif_hooks.rs"):
            continue
        s = strip_fast_verify(non_test_source(path))
        for line_no, line in enumerate(s.split("\n"), 1):
            for kind, pat in AMBIENT_PATTERNS:
                if re.search(pat, line):
                    findings.append({"file": path, "kind": kind, "text": line.strip()[:120]})
    lib = src("src/lib.rs")
    forbid = bool(re.search(r"^#!\[forbid\(unsafe_code\)\]", lib, re.M))
    return findings, forbid



# ---------------------------------------------------------------- hash preimage layouts

def _balanced(s, i, open_ch="(", close_ch=")"):
    """s[i] == open_ch; returns the index just after the matching close_ch"""
    depth = 0
    j = i
    while j < len(s):
        if s[j] == open_ch:
            depth += 1
        elif s[j] == close_ch:
            depth -= 1
            if depth == 0:
                return j + 1
        j += 1
    raise TranslateError("unbalanced %s at %d" % (open_ch, i))


_RUST_WORDS = set("as mut let fn pub if else for in while loop match return ref move self crate super where impl dyn const static true false u8 u16 u32 u64 u128 usize i8 i16 i32 i64 isize bool str use mod break continue unsafe".split())


def _norm_hash_arg(a):
    a = re.sub(r"\s+", " ", a.strip())
    while True:
        b = a
        a = re.sub(r"^&\s*(mut\s+)?", "", a)
        a = re.sub(r"\.(as_slice|as_ref|as_mut_slice)\(\)$", "", a)
        a = re.sub(r"\[\.\.\]$", "", a)
        if a.startswith("(") and _balanced(a, 0) == len(a) and "," not in a and " as " not in a:
            a = a[1:-1].strip()
        if a == b:
            return a


def hash_inputs():
    """for every non-test, non-fast_verify function that feeds a hasher: the ordered arguments of its
    .chain(..) / .update(..) calls, normalised -- the layout of the hash preimages the code assembles"""
    rows = []
    for path in rust_files():
        if path.endswith("verif_hooks.rs"):
            continue
        s = strip_fast_verify(non_test_source(path))
        for m in re.finditer(r"\bfn\s+(\w+)", s):
            name = m.group(1)
            # the body: first `{` after the signature at paren depth 0 (skip `where` clauses / return types)
            i = m.end()
            depth = 0
            while i < len(s):
                ch = s[i]
                if ch in "(<[":
                    depth += 1 if ch != "<" else 0
                elif ch in ")]":
                    depth -= 1
                elif ch == ";" and depth == 0:
                    i = None
                    break
                elif ch == "{" and depth == 0:
                    break
                i += 1
            if i is None or i >= len(s):
                continue
            end = _balanced(s, i, "{", "}")
            body = s[i:end]
            # local names (parameters, let-bound variables) that occur in the hashed arguments are replaced
            # by numbers, so that a rename, an unrelated new local or reordered statements are not a change
            ident = r"(?<![\w.])([a-z_][a-z0-9_]*)\b(?!\s*(?:\(|::|!))"
            raw = []
            for c in re.finditer(r"\.(chain|update)\s*\(", body):
                a0 = c.end() - 1
                a1 = _balanced(body, a0)
                raw.append(_norm_hash_arg(body[a0 + 1:a1 - 1]))
            used = set()
            for a in raw:
                used |= {t.group(1) for t in re.finditer(ident, a) if t.group(1) not in _RUST_WORDS}
            # ... numbered by first occurrence IN THE HASHED SEQUENCE: the layout is kept up to a
            # consistent renaming of the locals (insertions, removals, constants, field names and the
            # pattern of repetitions are part of it; which local is which is decided by execution)
            first = {}
            for a in raw:
                for t in re.finditer(ident, a):
                    if t.group(1) in used and t.group(1) not in first:
                        first[t.group(1)] = len(first) + 1
            args = [re.sub(ident, lambda t: ("$%d" % first[t.group(1)]) if t.group(1) in first else t.group(1), a) for a in raw]
            if args:
                rows.append((path[len("src/"):], args))
    # keyed by FILE only and sorted: renaming or reordering functions inside a file is not a change
    rows.sort(key=lambda r: (r[0], r[1]))
    return rows

# ---------------------------------------------------------------- RFC vectors

def parse_rfc_vectors():
    vecs = []
    for name in ("tests/rfc_testcase1.rs", "tests/rfc_testcase2.rs"):
        try:
            s = strip_comments(src(name))
        except FileNotFoundError:
            continue
        arrs = {}
        for m in re.finditer(r"(?:let|const|static)\s+(?:mut\s+)?(\w+)\s*(?::\s*[^=]+)?=\s*&?\[([0-9a-fA-Fx_u,\s]+)\]\s*;", s):
            vals = [x.strip() for x in m.group(2).split(",") if x.strip()]
            try:
                arrs[m.group(1).lower()] = [rust_int(v) for v in vals]
            except Exception:
                pass
        vecs.append({"file": name, "arrays": arrs})
    return vecs


# ---------------------------------------------------------------- rendering

def coq_bytes(bs):
    return '(unhex "%s")' % "".join("%02x" % b for b in bs)


def coq_list(xs, f=str):
    return "[" + "; ".join(f(x) for x in xs) + "]"


def coq_str(s):
    return '"%s"%%string' % s.replace('"', '""')


def render(k, lmots, lms, misc, cfg, structs, impls, ambient, forbid, vecs, hin):
    ofu, oget, orows = lmots
    lfu, lget, lrows = lms
    pair = lambda ab: "(%d, %d)" % ab
    L = []
    L.append("(* GENERATED by /verif/translator/translate.py from the current source of /repo. DO NOT EDIT. *)")
    L.append("From HbsLms Require Import Base.Bytes Model.Consts.")
    L.append("Local Open Scope N_scope.")
    L.append("")
    L.append("Definition K_src : consts := {|")
    f = []
    f.append("c_ilen := %d%%nat" % k["ILEN"])
    f.append("c_max_seed_len := %d%%nat" % k["MAX_SEED_LEN"])
    f.append("c_max_hash_size := %d%%nat" % k["MAX_HASH_SIZE"])
    f.append("c_max_hash_block_size := %d%%nat" % k["MAX_HASH_BLOCK_SIZE"])
    f.append("c_d_pblc := %s" % coq_bytes(k["D_PBLC"]))
    f.append("c_d_mesg := %s" % coq_bytes(k["D_MESG"]))
    f.append("c_d_leaf := %s" % coq_bytes(k["D_LEAF"]))
    f.append("c_d_intr := %s" % coq_bytes(k["D_INTR"]))
    f.append("c_topseed_seed := %d%%nat" % k["TOPSEED_SEED"])
    f.append("c_topseed_len := %d%%nat" % k["TOPSEED_LEN"])
    f.append("c_topseed_d := %d%%nat" % k["TOPSEED_D"])
    f.append("c_topseed_which := %d%%nat" % k["TOPSEED_WHICH"])
    f.append("c_d_topseed := %d" % k["D_TOPSEED"])
    f.append("c_prng_i := %d%%nat" % k["PRNG_I"])
    f.append("c_prng_q := %d%%nat" % k["PRNG_Q"])
    f.append("c_prng_j := %d%%nat" % k["PRNG_J"])
    f.append("c_prng_ff := %d%%nat" % k["PRNG_FF"])
    f.append("c_prng_seed := %d%%nat" % k["PRNG_SEED"])
    f.append("c_prng_len_base := %d%%nat" % k["PRNG_LEN_BASE"])
    f.append("c_seed_child_seed := %d" % k["SEED_CHILD_SEED"])
    f.append("c_seed_randomizer_seed := %d" % k["SEED_SIGNATURE_RANDOMIZER_SEED"])
    f.append("c_used_leafs_size := %d%%nat" % k["HSS_COMPRESSED_USED_LEAFS_SIZE"])
    f.append("c_ref_levels := %d%%nat" % k["REF_IMPL_MAX_ALLOWED_HSS_LEVELS"])
    f.append("c_chain_counts := %s" % coq_list(k["HASH_CHAIN_COUNTS"]))
    f.append("c_chain_w_index := %s" % coq_list(k["CHAIN_W_INDEX"], pair))
    f.append("c_chain_n_index := %s" % coq_list(k["CHAIN_N_INDEX"], pair))
    f.append("c_chain_stride := %d" % k["CHAIN_STRIDE"])
    f.append("c_min_subtree := %d%%nat" % k["MIN_SUBTREE"])
    f.append("c_daux_d := %d%%nat" % k["DAUX_D"])
    f.append("c_daux_prefix_len := %d%%nat" % k["DAUX_PREFIX_LEN"])
    f.append("c_d_daux := %d" % k["D_DAUX"])
    f.append("c_iter_i := %d%%nat" % k["ITER_I"])
    f.append("c_iter_q := %d%%nat" % k["ITER_Q"])
    f.append("c_iter_k := %d%%nat" % k["ITER_K"])
    f.append("c_iter_j := %d%%nat" % k["ITER_J"])
    f.append("c_iter_prev := %d%%nat" % k["ITER_PREV"])
    f.append("c_ots_from_u32 := %s" % coq_list(sorted(ofu.items()), pair))
    f.append("c_ots_get_from_type := %s" % coq_list(sorted(oget.items()), pair))
    f.append("c_ots_construct := %s" % coq_list(sorted(orows.items()), lambda kv: "(%d, (%d, %d, %d))" % ((kv[0],) + kv[1])))
    f.append("c_lms_from_u32 := %s" % coq_list(sorted(lfu.items()), pair))
    f.append("c_lms_get_from_type := %s" % coq_list(sorted(lget.items()), pair))
    f.append("c_lms_construct := %s" % coq_list(sorted(lrows.items()), lambda kv: "(%d, (%d, %d))" % ((kv[0],) + kv[1])))
    f.append("c_param_set_end := %d" % misc["PARAM_SET_END"])
    f.append("c_aux_data_marker := %d%%nat" % misc["AUX_DATA_MARKER"])
    f.append("c_no_aux_data := %d" % misc["NO_AUX_DATA"])
    f.append("c_aux_data_hashes := %d%%nat" % misc["AUX_DATA_HASHES"])
    f.append("c_ipad := %d" % misc["IPAD"])
    f.append("c_opad := %d" % misc["OPAD"])
    f.append("c_max_levels := %d%%nat" % cfg["MAX_ALLOWED_HSS_LEVELS"])
    f.append("c_tree_heights := %s" % coq_list(cfg["TREE_HEIGHTS"]))
    f.append("c_wparams := %s" % coq_list(cfg["WINTERNITZ_PARAMETERS"]))
    L.append("  " + ";\n  ".join(f))
    L.append("|}.")
    L.append("")
    # struct table
    L.append("(* struct table of the non-test source: (name, derives, fields (name, type, zeroize(skip))) *)")
    L.append("Definition src_structs : list (String.string * list String.string * list (String.string * String.string * bool)) :=")
    rows = []
    for st in structs:
        flds = coq_list(st["fields"], lambda fd: "(%s, %s, %s)" % (coq_str(fd["name"]), coq_str(fd["type"]), "true" if fd["skip"] else "false"))
        rows.append("  (%s, %s, %s)" % (coq_str(st["name"]), coq_list(st["derives"], coq_str), flds))
    L.append("  [\n" + ";\n".join(rows) + "\n  ].")
    L.append("")
    L.append("(* hand-written impls of wipe-relevant traits: (trait, type) *)")
    L.append("Definition src_impls : list (String.string * String.string) :=")
    L.append("  " + coq_list(impls, lambda im: "(%s, %s)" % (coq_str(im["trait"]), coq_str(im["type"]))) + ".")
    L.append("")
    L.append("(* ambient-state sources in non-test code outside cfg(feature = \"fast_verify\"): (file, kind, text) *)")
    L.append("Definition src_ambient : list (String.string * String.string * String.string) :=")
    L.append("  " + coq_list(ambient, lambda a: "(%s, %s, %s)" % (coq_str(a["file"]), coq_str(a["kind"]), coq_str(a["text"]))) + ".")
    L.append("Definition src_forbid_unsafe : bool := %s." % ("true" if forbid else "false"))
    L.append("")
    L.append("(* hash preimage layouts: per function, the ordered arguments of its .chain / .update calls *)")
    L.append("Definition src_hash_inputs : list (String.string * list String.string) :=")
    L.append("  [\n" + ";\n".join("  (%s, %s)" % (coq_str(nm), coq_list(args, coq_str)) for nm, args in hin) + "\n  ].")
    L.append("")
    for v in vecs:
        base = os.path.basename(v["file"]).replace(".rs", "")
        for nm, arr in sorted(v["arrays"].items()):
            L.append("Definition %s_%s : bytes := %s." % (base, nm, coq_bytes(arr)))
    L.append("")
    return "\n".join(L)


def main():
    out = sys.argv[1] if len(sys.argv) > 1 else "/verif/coq/theories/Gen/Generated.v"
    env_override = None
    if len(sys.argv) > 2:
        env_override = json.loads(sys.argv[2])   # "null" = none
    consts_file = sys.argv[3] if len(sys.argv) > 3 else None
    try:
        if consts_file:
            # values as compiled (hook); the packing of the parameter byte is still read from the text
            k, misc, cfg_hook = constants_from_hook(consts_file)
            parse_misc_structure()
            if cfg_hook is not None and env_override is None:
                cfg = cfg_hook          # the limits the default harness was compiled with
            else:
                cfg = parse_build_cfg(env_override)
        else:
            k = parse_constants()
            misc = parse_misc()
            cfg = parse_build_cfg(env_override)
        probes = k.pop("_probes", None) if isinstance(k, dict) else None
        notes = []
        # type-code tables: read from the text (exact for ALL codes: the wildcard arms are seen); when the
        # compiled answers are available they must agree, and they take over when the text is no longer
        # in the shape the reader understands
        tabs = {}
        for kind, parser in (("ots", parse_lmots), ("lms", parse_lms)):
            probed = tables_from_probes(probes, k, kind) if probes else None
            try:
                parsed = parser()
            except TranslateError as e:
                if probed is None:
                    raise
                notes.append("%s tables taken from the compiled code (probed codes); text reader: %s" % (kind, str(e)[:120]))
                parsed = probed
            else:
                if probed is not None and not tables_agree(parsed, probed):
                    raise TranslateError("%s type-code tables read from the text disagree with the compiled code: %s vs %s" % (kind, parsed, probed))
            tabs[kind] = parsed
        lmots, lms = tabs["ots"], tabs["lms"]
        for nt in notes:
            print("translator-note: " + nt)
        structs, impls = parse_structs()
        ambient, forbid = ambient_audit()
        vecs = parse_rfc_vectors()
        hin = hash_inputs()
        text = render(k, lmots, lms, misc, cfg, structs, impls, ambient, forbid, vecs, hin)
    except TranslateError as e:
        print("TRANSLATOR-ERROR: %s" % e)
        sys.exit(2)
    old = None
    if os.path.exists(out):
        with open(out) as fh:
            old = fh.read()
    if old != text:
        os.makedirs(os.path.dirname(out), exist_ok=True)
        with open(out, "w") as fh:
            fh.write(text)
        print("translator: wrote %s" % out)
    else:
        print("translator: %s unchanged" % out)
    summary = {"lmots_rows": lmots[2], "lms_rows": lms[2], "chain_counts": k["HASH_CHAIN_COUNTS"],
               "cfg": cfg, "structs": len(structs), "ambient": len(ambient), "forbid_unsafe": forbid}
    print("translator-summary: " + json.dumps(summary, sort_keys=True))


if __name__ == "__main__":
    main()
