"""Per-property configuration of the driver."""

PROPS = {
    "C12": {
        "families": [{"name": "c12"}],
        "assumptions": [
            "theorems are about the Gallina model (Model/Winternitz.v) instantiated with the tables the translator reads from the source",
            "model == code is checked by differential execution of the digit hook on the cases listed under coverage",
        ],
    },
    "C13": {
        "families": [{"name": "c13"}],
        "assumptions": [
            "theorems are about Model/Counter.v; tied to the code by the tree-free hook accessors (leaf_digits / increment / lifetime)",
        ],
    },
    "C01": {
        "families": [{"name": "e2e"}],
        "thorough_families": [{"name": "toy"}],
        "assumptions": [
            "theorems are about the Gallina model (Model/Lmots, Lms, Derive, Hss, Codec), for every hash function H with |H(x)| = n",
            "model == code by differential execution of keygen / sign / verify with the Gallina SHA-256 and SHAKE256 (Exec/Sha256.v, Exec/Keccak.v; trees of height 10 and 15 and 2^20-signature keys: with the toy hasher harness/src/toy.rs = Exec/Toy.v, thorough tier here, quick tier under C08)",
        ],
    },
    "C04": {
        "families": [{"name": "c04"},
                     # the sign_mut entry point (fast_verify builds) goes through the same callback protocol:
                     # a refused message (short / non-zero trailer) must not reach the callback
                     {"name": "c15", "config": "fv-t1-o200", "features": "fast_verify,verbose",
                      "env": {"HBS_LMS_THREADS": "1", "HBS_LMS_MAX_HASH_OPTIMIZATIONS": "200"}}],
        "assumptions": [
            "theorem is about Model/SignCore.sign_core (order of effects for every blob/message/callback); tied to hss_sign_core by the correspondence over every failure point, comparing result class, signature bytes and the recorded callback invocations",
        ],
    },
    "C11": {
        "families": [{"name": "c11"}, {"name": "c10", "judge": "no_panic"}],
        "assumptions": [
            "totality theorems are about the Gallina model (Panic = the Rust code unwinds); the aux-buffer inputs are the c10 family, judged here for absence of panics (its transparency oracles belong to C10)",
        ],
    },
    "C06": {
        "families": [{"name": "c06"}],
        "assumptions": [
            "totality theorem is about the model's parsers and verifier (checked cursor reads); the correspondence compares outcome classes (accept / reject / panic) of hbs_lms::verify, VerifyingKey::verify (Signature, VerifierSignature) and the byte-level constructors on every prefix length, field sweeps and random bytes",
        ],
    },
    "C03": {
        "families": [{"name": "hist"}, {"name": "c13"}],
        "assumptions": [
            "history theorems are about Model/History.run over Model/SignCore; each step of the implementation's histories is compared with the model, and the released set (level, tree identifier, leaf) -> content is rebuilt from the signatures by an independent parser",
            "distinct derivation paths giving distinct 16-byte tree identifiers is a collision assumption on H; the theorem is stated on paths",
        ],
    },
    "C05": {
        "families": [{"name": "hist"}, {"name": "c13"}],
        "assumptions": [
            "theorems about Model/Counter, KeyBlob, SignCore, History; end-to-end lifetimes for the small shapes, pure accounting arithmetic for tall shapes through the tree-free hook",
        ],
    },
    "C09": {
        "rerun_process": True,
        "families": [{"name": "hist"}],
        "assumptions": [
            "determinism is structural in Gallina; the source-level audit (no ambient state outside fast_verify, forbid(unsafe_code)) is recomputed by the translator on every run; thread interleavings are runtime behaviour and are only sampled",
        ],
    },
    "C02": {
        "families": [{"name": "c06"}, {"name": "e2e", "args": ["lite"]}],
        "rfc": True,
        "assumptions": [
            "the right-hand side of the proved iff (C02_verifier_is_rfc8554_verifier) is Spec/Rfc8554.v, an independent transcription of RFC 8554 sections 4-6 validated against the Appendix F vectors, run with the parameter rows of the current source (C02_tables_are_rfc_tables: RFC rows except the three known-finding rows); in addition its verdict with the literal RFC tables is computed in Coq for every triple the implementation judged and must be equal",
            "rejection of ARBITRARY altered data beyond the structural checks rests on second-preimage resistance of H and is not a theorem; it is exercised by the mutation families",
            "LMS typecode 1 (4-leaf test height enabled by the verification hook) is added to the RFC's Table 2",
        ],
    },
    "C07": {
        "families": [{"name": "e2e"}],
        "rfc": True,
        "thorough_families": [{"name": "toy"}],
        "byte_exact": ["sign", "try_sign", "keygen"],
        "assumptions": [
            "right-hand side: Spec/Rfc8554.v + Spec/HssSpec.v (independent transcription of RFC 8554, validated by the Appendix F vectors) over Spec/HashSigs.v; the independent-verifier clause is a theorem for the rows of the current source (C07_rfc_verifier_accepts_released_signatures) and is additionally checked with the literal RFC tables by evaluating the RFC transcription's verifier in Coq on every released signature",
        ],
    },
    "C08": {
        "families": [{"name": "e2e", "args": ["lite"]}, {"name": "hasher"}, {"name": "toy"}],
        "byte_exact": ["sign", "try_sign", "keygen", "hash"],
        "assumptions": [
            "Spec/HashSigs.v is a transcription of the reference's derivation and cannot be validated against the hash-sigs binary offline (trusted)",
            "finalize = first n bytes of SHA-256 / of the SHAKE256 XOF stream is a model definition, tied to src/hasher/*.rs by the hasher-unit comparison with the sha2 / sha3 crates; the Gallina SHA-256 and SHAKE256 are compared with the library's hashers on the same inputs",
        ],
    },
    "C10": {
        "families": [{"name": "c10"}, {"name": "toyaux"}],
        "assumptions": [
            "transparency for a buffer with a VALID MAC needs 'MAC accepted => cached nodes are this tree's nodes' (MAC unforgeability, an explicit hypothesis of the theorem); it holds for buffers written by the library for the same seed and shape",
            "known finding: the MAC key depends on the seed only, so a library-written buffer of the same seed and another top-tree shape is accepted",
        ],
    },
    "C16": {
        "families": [{"name": "c16"}],
        "assumptions": [
            "the theorem is about the struct table (derives, fields, zeroize(skip)) of the current source as extracted by the translator, and about the semantics of the zeroize derive as modelled in Model/Zeroize.v; drop-time memory effects are not observable in a Gallina model",
        ],
    },
    "C14": {
        "families": [
            {"name": "c14", "config": "default", "kc": "K_src"},
            {"name": "c14", "config": "cfg-l2-h5-w8-1", "kc": "with_cfg K_src 2 [5; 5] [8; 1]",
             "env": {"HBS_LMS_MAX_ALLOWED_HSS_LEVELS": "2", "HBS_LMS_TREE_HEIGHTS": "5, 5", "HBS_LMS_WINTERNITZ_PARAMETERS": "8, 1"}},
            {"name": "c14", "config": "cfg-l1-h5-w2", "kc": "with_cfg K_src 1 [5] [2]",
             "env": {"HBS_LMS_MAX_ALLOWED_HSS_LEVELS": "1", "HBS_LMS_TREE_HEIGHTS": "5", "HBS_LMS_WINTERNITZ_PARAMETERS": "2"}},
        ],
        "thorough_families": [
            {"name": "c14", "config": "cfg-l2-h5-w4", "kc": "with_cfg K_src 2 [5; 5] [4; 4]",
             "env": {"HBS_LMS_MAX_ALLOWED_HSS_LEVELS": "2", "HBS_LMS_TREE_HEIGHTS": "5, 5", "HBS_LMS_WINTERNITZ_PARAMETERS": "4, 4"}},
            {"name": "c14", "config": "cfg-l2-h5-10-w1-8", "kc": "with_cfg K_src 2 [5; 10] [1; 8]",
             "env": {"HBS_LMS_MAX_ALLOWED_HSS_LEVELS": "2", "HBS_LMS_TREE_HEIGHTS": "5, 10", "HBS_LMS_WINTERNITZ_PARAMETERS": "1, 8"}},
            {"name": "c14", "config": "cfg-l3-h10-5-5-w1-2-4", "kc": "with_cfg K_src 3 [10; 5; 5] [1; 2; 4]",
             "env": {"HBS_LMS_MAX_ALLOWED_HSS_LEVELS": "3", "HBS_LMS_TREE_HEIGHTS": "10, 5, 5", "HBS_LMS_WINTERNITZ_PARAMETERS": "1, 2, 4"}},
            {"name": "c14", "config": "cfg-l4-h5-w8", "kc": "with_cfg K_src 4 [5; 5; 5; 5] [8; 8; 8; 8]",
             "env": {"HBS_LMS_MAX_ALLOWED_HSS_LEVELS": "4", "HBS_LMS_TREE_HEIGHTS": "5, 5, 5, 5", "HBS_LMS_WINTERNITZ_PARAMETERS": "8, 8, 8, 8"}},
        ],
        "assumptions": [
            "the model is parametric in the limits (with_cfg); each build's outputs are compared with the model under that build's limits, and the outputs of different builds for the same input are compared with each other",
            "interior fixed-capacity containers are not modelled; that they suffice within the validated limits is exercised by these builds",
        ],
    },
    "C15": {
        "families": [
            {"name": "c15", "config": "fv-t1-o200", "features": "fast_verify,verbose",
             "env": {"HBS_LMS_THREADS": "1", "HBS_LMS_MAX_HASH_OPTIMIZATIONS": "200"}},
            # fewer optimisation rounds than threads: a per-thread budget of zero
            {"name": "c15", "config": "fv-t4-o3", "features": "fast_verify,verbose",
             "env": {"HBS_LMS_THREADS": "4", "HBS_LMS_MAX_HASH_OPTIMIZATIONS": "3"}},
        ],
        "thorough_families": [
            {"name": "c15", "config": "fv-t4-o64", "features": "fast_verify,verbose",
             "env": {"HBS_LMS_THREADS": "4", "HBS_LMS_MAX_HASH_OPTIMIZATIONS": "64"}},
            {"name": "c15", "config": "fv-t1-o0", "features": "fast_verify,verbose",
             "env": {"HBS_LMS_THREADS": "1", "HBS_LMS_MAX_HASH_OPTIMIZATIONS": "0"}},
            {"name": "c15", "config": "fv-t16-o1", "features": "fast_verify,verbose",
             "env": {"HBS_LMS_THREADS": "16", "HBS_LMS_MAX_HASH_OPTIMIZATIONS": "16"}},
            {"name": "c15", "config": "fv-t2-o10000", "features": "fast_verify,verbose",
             "env": {"HBS_LMS_THREADS": "2", "HBS_LMS_MAX_HASH_OPTIMIZATIONS": "10000"}},
        ],
        "assumptions": [
            "the randomizer search (threads, OsRng) is represented by the trailer r it produces; theorems are for every r; the model is given the r observed in the implementation's output and must reproduce signature, callback record and reported hash iterations",
            "scheduling itself is runtime behaviour: sampled under several thread counts",
        ],
    },
}
