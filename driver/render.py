"""JSON case (one line of harness output) -> Coq term of type Exec.Runner.case"""

HASH_N = {"sha256_256": 32, "sha256_192": 24, "sha256_128": 16,
          "shake256_256": 32, "shake256_192": 24, "shake256_128": 16,
          "toy_256": 32, "toy_192": 24, "toy_128": 16}


class Bases:
    """Large byte strings recur across cases (prefixes, patches, extensions of the same signature).
    They are defined once per shard and referred to by name."""

    def __init__(self):
        self.bases = []      # hex strings
        self.used = set()

    def lookup(self, h):
        if len(h) < 160:
            return None
        for i, base in enumerate(self.bases):
            if h == base:
                self.used.add(i)
                return "base_%d" % i
            if len(h) < len(base) and base.startswith(h):
                self.used.add(i)
                return "(firstn %d%%nat base_%d)" % (len(h) // 2, i)
            if len(h) > len(base) and h.startswith(base) and len(h) - len(base) <= 200:
                self.used.add(i)
                return '(base_%d ++ unhex "%s")' % (i, h[len(base):])
            if len(h) == len(base):
                lo = 0
                while lo < len(h) and h[lo] == base[lo]:
                    lo += 1
                hi = len(h)
                while hi > lo and h[hi - 1] == base[hi - 1]:
                    hi -= 1
                lo -= lo % 2
                hi += hi % 2
                if hi - lo <= 64:
                    self.used.add(i)
                    return '(blit base_%d %d%%nat (unhex "%s"))' % (i, lo // 2, h[lo:hi])
        self.bases.append(h)
        self.used.add(len(self.bases) - 1)
        return "base_%d" % (len(self.bases) - 1)

    def preamble(self):
        return "".join('Definition base_%d : list byte := Eval vm_compute in %s.\n' % (i, lit(self.bases[i]))
                       for i in sorted(self.used))


def lit(hexstr, chunk=8000):
    """a byte-string literal; long ones are split so that no single Coq string is huge"""
    if len(hexstr) <= chunk:
        return '(unhex "%s")' % hexstr
    parts = [hexstr[i:i + chunk] for i in range(0, len(hexstr), chunk)]
    return "(" + " ++ ".join('unhex "%s"' % p for p in parts) + ")"


CTX = None


def b(hexstr):
    if CTX is not None:
        r = CTX.lookup(hexstr)
        if r:
            return r
    return lit(hexstr)


def rbytes(o):
    if o["c"] == "ok":
        return "(Ok %s)" % b(o["v"])
    return {"err": "Err", "panic": "Panic"}[o["c"]]


def rnums(o):
    if o["c"] == "ok":
        return "(Ok [%s])" % "; ".join(str(x) for x in o["ns"])
    return {"err": "Err", "panic": "Panic"}[o["c"]]


def rnum(o):
    if o["c"] == "ok":
        return "(Ok %s)" % o["n"]
    return {"err": "Err", "panic": "Panic"}[o["c"]]


def nat(x):
    return "%d%%nat" % int(x)


def r_ots_param(j):
    return "COtsParam %s %d %s" % (nat(HASH_N[j["hash"]]), j["ty"], rnums(j["out"]))


def r_coefs(j):
    return "CCoefs %s %d %s" % (b(j["s"]), j["w"], rbytes(j["out"]))


def r_digits(j):
    return "CDigits %s %d %s %s" % (nat(HASH_N[j["hash"]]), j["ty"], b(j["q"]), rbytes(j["out"]))


def r_counter(j):
    return "CCounter %s %s %s %s %s" % (nat(HASH_N[j["hash"]]), b(j["blob"]), rnums(j["digits"]),
                                         rbytes(j["next"]), rnum(j["life"]))


def runit(o):
    return {"ok": "(Ok tt)", "err": "Err", "panic": "Panic"}[o["c"]]


def r_keygen(j):
    vs = "[%s]" % "; ".join("(%d, %d)" % (a, b) for a, b in j["variants"])
    return "CKeygen %s %s %s %s %s" % (nat(HASH_N[j["hash"]]), vs, b(j["seed"]), rbytes(j["sk"]), rbytes(j["pk"]))


def r_sign(j):
    calls = "[%s]" % "; ".join("(%s, %s)" % (b(c[0]), "true" if c[1] else "false") for c in j["calls"])
    return "CSign %s %s %s %s %s %s" % (nat(HASH_N[j["hash"]]), b(j["blob"]), b(j["msg"]),
                                        "true" if j["accept"] else "false", rbytes(j["sig"]), calls)


def r_verify(j):
    return "CVerify %s %s %s %s %s" % (nat(HASH_N[j["hash"]]), b(j["msg"]), b(j["sig"]), b(j["pk"]), runit(j["verdict"]))


def r_try_sign(j):
    return "CTrySign %s %s %s %s %s" % (nat(HASH_N[j["hash"]]), b(j["blob"]), b(j["msg"]), rbytes(j["sig"]), rbytes(j["after"]))


def r_hash(j):
    return "CHash %s %s %s" % (nat(HASH_N[j["hash"]]), b(j["data"]), b(j["out"]))


def r_keygen_aux(j):
    vs = "[%s]" % "; ".join("(%d, %d)" % (a, c) for a, c in j["variants"])
    return "CKeygenAux %s %s %s %s %s %s %s" % (nat(HASH_N[j["hash"]]), vs, b(j["seed"]), b(j["aux_in"]),
                                               rbytes(j["sk"]), rbytes(j["pk"]), b(j["aux_out"]))


def r_sign_aux(j):
    calls = "[%s]" % "; ".join("(%s, %s)" % (b(c[0]), "true" if c[1] else "false") for c in j["calls"])
    return "CSignAux %s %s %s %s %s %s %s %s" % (nat(HASH_N[j["hash"]]), b(j["blob"]), b(j["msg"]), b(j["aux_in"]),
                                                "true" if j["accept"] else "false", rbytes(j["sig"]), calls, b(j["aux_out"]))


def r_sign_mut(j):
    calls = "[%s]" % "; ".join("(%s, %s)" % (b(c[0]), "true" if c[1] else "false") for c in j["calls"])
    return "CSignMut %s %s %s %s %s %s %s %s %d" % (nat(HASH_N[j["hash"]]), b(j["blob"]), b(j["msg_in"]), b(j["msg_out"]),
                                                   b(j["pk"]), "true" if j["accept"] else "false", rbytes(j["sig"]), calls,
                                                   j["hash_iterations"])


def r_lifetime(j):
    return "CLifetime %s %s %s" % (nat(HASH_N[j["hash"]]), b(j["blob"]), rnum(j["life"]))


KINDS = {
    "keygen": r_keygen,
    "sign": r_sign,
    "verify": r_verify,
    "lifetime": r_lifetime,
    "sign_mut": r_sign_mut,
    "keygen_aux": r_keygen_aux,
    "sign_aux": r_sign_aux,
    "hash": r_hash,
    "try_sign": r_try_sign,
    "ots_param": r_ots_param,
    "coefs": r_coefs,
    "digits": r_digits,
    "counter": r_counter,
}


def render_case(j, ctx=None):
    global CTX
    CTX = ctx
    try:
        return KINDS[j["k"]](j)
    finally:
        CTX = None


def case_cost(j):
    return float(j.get("cost", 1))
