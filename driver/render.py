"""JSON case (one line of harness output) -> Coq term of type Exec.Runner.case"""

HASH_N = {"sha256_256": 32, "sha256_192": 24, "sha256_128": 16,
          "shake256_256": 32, "shake256_192": 24, "shake256_128": 16}


def b(hexstr):
    return '(unhex "%s")' % hexstr


def rbytes(o):
    if o["c"] == "ok":
        return "(Ok %s)" % b(o["v"])
    return {"err": "Err", "panic": "Panic"}[o["c"]]


def rnums(o):
    if o["c"] == "ok":
        return "(Ok [%s])" % "; ".join(str(x) for x in o["ns"])
    return {"err": "Err", "panic": "Panic"}[o["c"]]


def rnum(o):
    if o["c"] == "ok":
        return "(Ok %s)" % o["n"]
    return {"err": "Err", "panic": "Panic"}[o["c"]]


def nat(x):
    return "%d%%nat" % int(x)


def r_ots_param(j):
    return "COtsParam %s %d %s" % (nat(HASH_N[j["hash"]]), j["ty"], rnums(j["out"]))


def r_coefs(j):
    return "CCoefs %s %d %s" % (b(j["s"]), j["w"], rbytes(j["out"]))


def r_digits(j):
    return "CDigits %s %d %s %s" % (nat(HASH_N[j["hash"]]), j["ty"], b(j["q"]), rbytes(j["out"]))


def r_counter(j):
    return "CCounter %s %s %s %s %s" % (nat(HASH_N[j["hash"]]), b(j["blob"]), rnums(j["digits"]),
                                         rbytes(j["next"]), rnum(j["life"]))


def runit(o):
    return {"ok": "(Ok tt)", "err": "Err", "panic": "Panic"}[o["c"]]


def r_keygen(j):
    vs = "[%s]" % "; ".join("(%d, %d)" % (a, b) for a, b in j["variants"])
    return "CKeygen %s %s %s %s %s" % (nat(HASH_N[j["hash"]]), vs, b(j["seed"]), rbytes(j["sk"]), rbytes(j["pk"]))


def r_sign(j):
    calls = "[%s]" % "; ".join("(%s, %s)" % (b(c[0]), "true" if c[1] else "false") for c in j["calls"])
    return "CSign %s %s %s %s %s %s" % (nat(HASH_N[j["hash"]]), b(j["blob"]), b(j["msg"]),
                                        "true" if j["accept"] else "false", rbytes(j["sig"]), calls)


def r_verify(j):
    return "CVerify %s %s %s %s %s" % (nat(HASH_N[j["hash"]]), b(j["msg"]), b(j["sig"]), b(j["pk"]), runit(j["verdict"]))


def r_lifetime(j):
    return "CLifetime %s %s %s" % (nat(HASH_N[j["hash"]]), b(j["blob"]), rnum(j["life"]))


KINDS = {
    "keygen": r_keygen,
    "sign": r_sign,
    "verify": r_verify,
    "lifetime": r_lifetime,
    "ots_param": r_ots_param,
    "coefs": r_coefs,
    "digits": r_digits,
    "counter": r_counter,
}


def render_case(j):
    return KINDS[j["k"]](j)


def case_cost(j):
    return float(j.get("cost", 1))
