"""Driver implementation; see ../check."""
import concurrent.futures
import fcntl
import glob
import hashlib
import json
import os
import re
import shutil
import subprocess
import sys
import time

from render import render_case, case_cost, Bases
from props import PROPS

VERIF = os.path.dirname(os.path.dirname(os.path.abspath(__file__)))
COQ = os.path.join(VERIF, "coq")
CACHE = os.path.join(VERIF, ".cache")
REPO = os.environ.get("VERIF_REPO", "/repo")
GUARD_FLAGS = "--cfg hbs_lms_verif"
NSHARDS = 16

FORBIDDEN = re.compile(
    r"\b(Admitted|admit|Axiom|Axioms|Parameter|Parameters|Conjecture|Conjectures|Admit Obligations)\b"
    r"|Unset\s+Guard|bypass_check|type-in-type|impredicative-set|Unset\s+Positivity|Unset\s+Universe")
ALLOWED_AXIOMS = set()  # nothing: every property theorem must be closed under the global context


def log(msg):
    print("[check] " + msg, flush=True)


class Lock:
    def __init__(self, name):
        os.makedirs(CACHE, exist_ok=True)
        self.path = os.path.join(CACHE, name + ".lock")

    def __enter__(self):
        self.f = open(self.path, "w")
        fcntl.flock(self.f, fcntl.LOCK_EX)
        return self

    def __exit__(self, *a):
        fcntl.flock(self.f, fcntl.LOCK_UN)
        self.f.close()


def sh(cmd, cwd=None, env=None, timeout=1800, stdin=None):
    e = dict(os.environ)
    e["CARGO_NET_OFFLINE"] = "true"
    if env:
        e.update(env)
    p = subprocess.run(cmd, cwd=cwd, env=e, shell=isinstance(cmd, str), stdout=subprocess.PIPE,
                       stderr=subprocess.STDOUT, timeout=timeout, text=True, input=stdin)
    return p.returncode, p.stdout


# ------------------------------------------------------------------ translate + coq build

def compiled_constants():
    """values of the library's constants as compiled into the default harness build (`hv consts`);
    None when the harness does not build (the translator then falls back to reading the text)"""
    try:
        rc, out, binary = harness_build("default")
        if rc != 0:
            return None
        p = subprocess.run([binary, "consts", "0"], stdout=subprocess.PIPE, stderr=subprocess.PIPE, text=True, timeout=120)
        if p.returncode != 0 or '"k":"const"' not in p.stdout:
            return None
        os.makedirs(CACHE, exist_ok=True)
        path = os.path.join(CACHE, "consts.jsonl")
        with open(path, "w") as fh:
            fh.write(p.stdout)
        return path
    except Exception:
        return None


def translate(env_override=None, out=None):
    cmd = [sys.executable, os.path.join(VERIF, "translator", "translate.py"),
           out or os.path.join(COQ, "theories", "Gen", "Generated.v")]
    cmd.append(json.dumps(env_override) if env_override else "null")
    consts = compiled_constants()
    if consts:
        cmd.append(consts)
    rc, out_text = sh(cmd, env={"VERIF_REPO": REPO})
    summary = None
    for line in out_text.splitlines():
        if line.startswith("translator-summary: "):
            summary = json.loads(line[len("translator-summary: "):])
    return rc, out_text, summary


def coq_build():
    """full .vo build; returns (ok, failed_files, output)"""
    mk = os.path.join(COQ, "Makefile")
    cp = os.path.join(COQ, "_CoqProject")
    if (not os.path.exists(mk)) or os.path.getmtime(mk) < os.path.getmtime(cp):
        sh("coq_makefile -f _CoqProject -o Makefile", cwd=COQ)
    rc, out = sh("timeout 3000 make -k -j16 2>&1", cwd=COQ, timeout=3100)
    failed = []
    errors = {}
    cur = None
    for line in out.splitlines():
        m = re.match(r'File "\./(theories/[^"]+)", line (\d+)', line)
        if m:
            cur = m.group(1)
        if line.startswith("Error") and cur:
            errors.setdefault(cur, []).append(line)
        m = re.search(r"\*\*\* \[[^\]]*: (theories/\S+)\.vo\] Error", line)
        if m:
            failed.append(m.group(1) + ".v")
    return rc == 0, sorted(set(failed)), out


def vo_fresh(rel_v):
    """the compiled file exists and make considers it up to date with everything it depends on"""
    v = os.path.join(COQ, rel_v)
    vo = v[:-2] + ".vo"
    if not os.path.exists(vo):
        return False
    rc, _ = sh("make -q %s" % (rel_v[:-2] + ".vo"), cwd=COQ)
    return rc == 0


def theorems_in(rel_v):
    path = os.path.join(COQ, rel_v)
    if not os.path.exists(path):
        return []
    text = open(path).read()
    return re.findall(r"^\s*(?:Theorem|Example)\s+(\w+)", text, re.M)


def print_assumptions(pid, names):
    """fresh coqc run printing the assumptions of each property theorem"""
    d = os.path.join(CACHE, "assume")
    os.makedirs(d, exist_ok=True)
    f = os.path.join(d, "Assume_%s.v" % pid)
    with open(f, "w") as fh:
        fh.write("From HbsLms Require Import Properties.%s.\n" % pid)
        for n in names:
            fh.write('Goal True. idtac "@@ %s". exact I. Qed.\nPrint Assumptions %s.\n' % (n, n))
    rc, out = sh("timeout 600 coqc -noglob -Q %s/theories HbsLms -w none %s" % (COQ, f), cwd=d)
    res = {}
    cur = None
    for line in out.splitlines():
        m = re.match(r"@@ (\w+)", line)
        if m:
            cur = m.group(1)
            res[cur] = []
            continue
        if cur is not None and line.strip():
            res[cur].append(line.rstrip())
    bad = {}
    for n in names:
        body = res.get(n)
        if body is None:
            bad[n] = ["no Print Assumptions output (rc=%d)" % rc]
            continue
        txt = " ".join(body)
        if "Closed under the global context" in txt:
            continue
        axs = [l.split(":")[0].strip() for l in body if re.match(r"^\S+\s*:", l) and not l.startswith("Axioms:")]
        # the kernel's primitive 63-bit integers (used only by the executable SHA-256 in the RFC
        # known-answer examples) are listed by Print Assumptions; they are primitives, not axioms of ours
        extra = [a for a in axs if a not in ALLOWED_AXIOMS and not a.startswith("PrimInt63.")]
        if extra or not axs:
            bad[n] = body
    return rc, bad, out


def forbidden_scan():
    hits = []
    for path in glob.glob(os.path.join(COQ, "theories", "**", "*.v"), recursive=True):
        text = open(path).read()
        text_nc = re.sub(r"\(\*.*?\*\)", lambda m: " " * len(m.group(0)), text, flags=re.S)
        for m in FORBIDDEN.finditer(text_nc):
            line = text_nc.count("\n", 0, m.start()) + 1
            hits.append("%s:%d: %s" % (os.path.relpath(path, VERIF), line, m.group(0)))
    return hits


# ------------------------------------------------------------------ harness

def harness_build(config="default", env=None, features=None):
    target = os.path.join(CACHE, "target-" + config)
    cmd = "cargo build --release --offline"
    if features:
        cmd += " --features " + features
    e = {"RUSTFLAGS": GUARD_FLAGS, "CARGO_TARGET_DIR": target}
    if env:
        e.update(env)
    with Lock("cargo-" + config):
        rc, out = sh("timeout 1500 " + cmd + " 2>&1", cwd=os.path.join(VERIF, "harness"), env=e, timeout=1600)
    return rc, out, os.path.join(target, "release", "hv")


def harness_run(binary, family, seed, tier, extra_args=None, timeout=3000):
    cmd = [binary, family, str(seed)] + (["thorough"] if tier == "thorough" else ["quick"]) + (extra_args or [])
    p = subprocess.run(cmd, stdout=subprocess.PIPE, stderr=subprocess.PIPE, text=True, timeout=timeout)
    lines = []
    for ln in p.stdout.splitlines():
        ln = ln.strip()
        if ln.startswith("{"):
            try:
                lines.append(json.loads(ln))
            except json.JSONDecodeError:
                lines.append({"k": "harness_garbage", "text": ln[:200]})
    return p.returncode, lines, p.stderr


# ------------------------------------------------------------------ model evaluation in Coq

def run_shards(pid, cases, workdir, preamble_extra="", with_rfc=False, kc_term="K_src", hf_term="sha256_n"):
    """cases: list of (id, json) that have a Coq rendering. returns (mismatch_ids, shown_text, errors)"""
    os.makedirs(workdir, exist_ok=True)
    for f in glob.glob(os.path.join(workdir, "cases_*")):
        os.remove(f)
    # balance by estimated cost; keep cases in generation order inside a shard so that related byte
    # strings (prefixes / patches of one signature) land together and share one definition
    order = sorted(range(len(cases)), key=lambda i: -case_cost(cases[i][1]))
    shard_of = {}
    loads = [0.0] * NSHARDS
    # greedy on blocks of consecutive cases
    block = max(1, min(32, len(cases) // (NSHARDS * 4)))
    # blocks of consecutive cheap cases (they share byte strings); an expensive case is a block of its own
    blocks, cur = [], []
    for i in range(len(cases)):
        if case_cost(cases[i][1]) > 1.0:
            if cur:
                blocks.append(cur)
                cur = []
            blocks.append([i])
        else:
            cur.append(i)
            if len(cur) >= block:
                blocks.append(cur)
                cur = []
    if cur:
        blocks.append(cur)
    blocks.sort(key=lambda bl: -sum(case_cost(cases[i][1]) for i in bl))
    for bl in blocks:
        k = loads.index(min(loads))
        for i in bl:
            shard_of[i] = k
        loads[k] += sum(case_cost(cases[i][1]) + 0.02 for i in bl)
    shards = [[] for _ in range(NSHARDS)]
    ctxs = [Bases() for _ in range(NSHARDS)]
    for i, (cid, j) in enumerate(cases):
        k = shard_of[i]
        shards[k].append((cid, render_case(j, ctxs[k]), case_cost(j)))
    keep = [k for k in range(NSHARDS) if shards[k]]
    ctxs = [ctxs[k] for k in keep]
    loads = [loads[k] for k in keep]
    shards = [shards[k] for k in keep]

    def write_shard(k, items, show_ids=None):
        path = os.path.join(workdir, "cases_%d%s.v" % (k, "_show" if show_ids else ""))
        with open(path, "w") as fh:
            fh.write("From HbsLms Require Import Base.Bytes Model.Consts Model.Lmots Gen.Generated Exec.Sha256 Exec.Toy Exec.Keccak Exec.Runner.\n")
            fh.write(preamble_extra)
            fh.write("Local Open Scope N_scope.\n")
            fh.write(ctxs[k].preamble())
            fh.write("Definition Kc : consts := %s.\n" % kc_term)
            fh.write("Definition Hc : nat -> bytes -> bytes := %s.\n" % hf_term)
            fh.write("Definition cs : list (N * case) := [\n")
            fh.write(";\n".join("(%d, %s)" % (cid, term) for cid, term, _ in items))
            fh.write("\n].\n")
            if show_ids:
                fh.write("Eval vm_compute in show_cases Kc Hc [%s] cs.\n" % "; ".join(str(i) for i in show_ids))
            else:
                fh.write('Goal True. idtac "@@RESULT". exact I. Qed.\n')
                fh.write("Eval vm_compute in run_cases Kc Hc cs.\n")
                if with_rfc:
                    fh.write('Goal True. idtac "@@RFC". exact I. Qed.\n')
                    fh.write("Eval vm_compute in run_rfc Kc Hc cs.\n")
        return path

    def run_one(k):
        path = write_shard(k, shards[k])
        t0 = time.time()
        rc, out = sh("ulimit -s unlimited 2>/dev/null; timeout 2400 coqc -noglob -Q %s/theories HbsLms -w none %s" % (COQ, path), cwd=workdir, timeout=2500)
        return k, rc, out, time.time() - t0

    mism = []
    rfc_mism = []
    errors = []
    shown = ""
    with concurrent.futures.ThreadPoolExecutor(max_workers=NSHARDS) as ex:
        results = list(ex.map(run_one, range(len(shards))))
    log("shard times: " + " ".join("%.0f" % r[3] for r in results) + "  loads: " + " ".join("%.0f" % l for l in loads if l))
    for k, rc, out, dt in results:
        if rc != 0 or "@@RESULT" not in out:
            errors.append("shard %d: coqc rc=%d: %s" % (k, rc, out[-600:]))
            continue
        tail = out.split("@@RESULT", 1)[1]
        if "@@RFC" in tail:
            tail, rtail = tail.split("@@RFC", 1)
            mr = re.search(r"=\s*\[(.*?)\]\s*:\s*list N", rtail, re.S)
            if mr:
                rfc_mism += [int(x) for x in re.findall(r"\d+", mr.group(1))]
            else:
                errors.append("shard %d: cannot parse RFC result: %s" % (k, rtail[-300:]))
        m = re.search(r"=\s*\[(.*?)\]\s*:\s*list N", tail, re.S)
        if not m:
            errors.append("shard %d: cannot parse result: %s" % (k, tail[-300:]))
            continue
        ids = [int(x) for x in re.findall(r"\d+", m.group(1))]
        if ids:
            mism += ids
            if shown:
                continue  # the model's view of the first few disagreements is enough for the replay
            path = write_shard(k, shards[k], show_ids=ids[:6])
            rc2, out2 = sh("ulimit -s unlimited 2>/dev/null; timeout 2400 coqc -noglob -Q %s/theories HbsLms -w none %s" % (COQ, path), cwd=workdir, timeout=2500)
            shown += out2
    return sorted(mism), shown, errors, sorted(rfc_mism)


# ------------------------------------------------------------------ findings

def load_known():
    path = os.path.join(VERIF, "known_findings.json")
    if not os.path.exists(path):
        return []
    return json.load(open(path)).get("findings", [])


def matches(finding, pid, item):
    if finding.get("property") != pid:
        return False
    for k, v in finding.get("match", {}).items():
        if k.endswith("__in"):
            if item.get(k[:-4]) not in v:
                return False
        elif item.get(k) != v:
            return False
    return True


def impl_panicked(it):
    """the implementation unwound on this input: a violation in its own right (no property tolerates a panic)"""
    return any(isinstance(v, dict) and v.get("c") == "panic" for v in it.values())


def write_replay(pid, tag, payload):
    d = os.path.join(VERIF, "replays")
    os.makedirs(d, exist_ok=True)
    path = os.path.join(d, "%s_%s.json" % (pid, tag))
    with open(path, "w") as fh:
        json.dump(payload, fh, indent=1, sort_keys=True)
    return path


# ------------------------------------------------------------------ main per-property flow

def run_property(pid, tier, seed, replay=None):
    t0 = time.time()
    prop = PROPS[pid]
    ev = {"property_id": pid, "tier": tier, "seed": seed, "level": "proof", "violations": 0}
    cov = {"trusted_base": prop.get("trusted_base", []) + [
        "Coq 8.16.1 kernel + vm_compute (no native_compute)",
        "translator/translate.py (tables, constants, struct table, ambient audit)",
        "correspondence: harness (Rust, catch_unwind) + case renderer + model evaluated by coqc",
    ]}
    violations = []   # (tag, payload, no_input_found)
    known_hits = {}
    obligations = 0
    discharged = 0
    notes = []

    # 1. translate + build
    with Lock("coq"):
        rc, tout, tsummary = translate()
        if rc != 0:
            violations.append(("translator", {"what": "translator no longer matches the source (broken tie)",
                                              "output": tout[-2000:]}, True))
        ok, failed, mout = coq_build()
    cov["translator_summary"] = tsummary
    prop_file = "theories/Properties/%s.v" % pid
    thms = theorems_in(prop_file)
    obligations += len(thms)
    proof_ok = vo_fresh(prop_file) and prop_file not in failed
    broken_msg = None
    if not proof_ok:
        # find the error text for the first failing file this property depends on
        m = re.search(r'File "\./(theories/[^"]+)", line (\d+), characters [\d-]+:\n(Error.*?)(?:\n\n|\nmake)', mout, re.S)
        broken_msg = {"file": m.group(1) if m else prop_file, "line": int(m.group(2)) if m else 0,
                      "error": (m.group(3) if m else mout[-1500:])[:1500], "failed_targets": failed}
        notes.append("proof obligation broken: %s" % json.dumps(broken_msg)[:400])
    else:
        rc, bad, aout = print_assumptions(pid, [t for t in thms if not t.startswith("ex_")])
        if bad:
            proof_ok = False
            broken_msg = {"file": prop_file, "error": "Print Assumptions not closed: %s" % json.dumps(bad)[:1200]}
        else:
            discharged += len(thms)
    hits = forbidden_scan()
    obligations += 1
    if hits:
        proof_ok = False
        broken_msg = {"file": "coq/theories", "error": "forbidden vernacular: " + "; ".join(hits[:10])}
    else:
        discharged += 1
    runner_ok = vo_fresh("theories/Exec/Runner.v")

    # 2. harness build + run
    all_items = []
    corr_cases = []
    oracle_items = []
    hb_errors = []
    fams = list(prop["families"]) + (list(prop.get("thorough_families", [])) if tier == "thorough" else [])
    prop = dict(prop, families=fams)
    for fam in fams:
        config = fam.get("config", "default")
        rc, out, binary = harness_build(config, env=fam.get("env"), features=fam.get("features"))
        if rc != 0:
            hb_errors.append("harness build (%s) failed: %s" % (config, out[-1500:]))
            continue
        corpus = sorted(glob.glob(os.path.join(VERIF, "corpus", pid, "*.jsonl")))
        items = []
        for cf in corpus:
            if fam.get("corpus", True):
                rcx, its, _ = harness_run(binary, "replay", seed, tier, [cf])
                for it in its:
                    it["_corpus"] = os.path.basename(cf)
                items += its
        if replay and fam.get("corpus", True):
            rcx, its, _ = harness_run(binary, "replay", seed, tier, [replay])
            items += its
        rcx, its, err = harness_run(binary, fam["name"], seed, tier, fam.get("args"))
        if rcx != 0:
            hb_errors.append("harness family %s exited %d: %s" % (fam["name"], rcx, err[-800:]))
        items += its
        if prop.get("rerun_process"):
            # C09: the same calls in ANOTHER PROCESS (other address space layout, pid, start time) must
            # produce the same bytes: every line of a second run of the family is compared
            rc2, its2, _ = harness_run(binary, fam["name"], seed, tier, fam.get("args"))
            same = rc2 == rcx and len(its2) == len(its)
            first = None
            if same:
                for a, b in zip(its, its2):
                    if a != b:
                        same, first = False, {"first_run": a, "second_run": b}
                        break
            items.append({"k": "oracle", "name": "same_bytes_in_another_process", "ok": same,
                          "why": "two processes running the same calls produced different outputs",
                          "lines": [len(its), len(its2)], "difference": first})
        if fam.get("judge") == "no_panic":
            # this property only asks the family's calls not to panic (their functional oracles belong
            # to another property): an oracle line fails here iff the call it describes panicked
            for it in items:
                if it.get("k") == "oracle" and "result" in it:
                    it["ok"] = it["result"] != "panic"
                    it["name"] = str(it.get("name")) + ":no_panic"
                    it["kf"] = ""
        for it in items:
            it["_family"] = fam["name"]
            it["_config"] = config
        all_items += items
    for idx, it in enumerate(all_items):
        it["_id"] = idx + 1
        if it["k"] == "oracle":
            oracle_items.append(it)
        elif it["k"] in ("dist", "info"):
            pass
        elif it.get("nomodel"):
            # no executable model instance for this hash (SHAKE): implementation-only, panics still count
            if impl_panicked(it):
                oracle_items.append(dict(it, k="oracle", name="no_panic", ok=False))
        else:
            corr_cases.append((idx + 1, it))
    if hb_errors:
        violations.append(("harness", {"what": "harness does not build/run against the current source", "errors": hb_errors}, True))

    # 3. correspondence
    mism_ids, shown, cerrors, rfc_ids = [], "", [], []
    obligations += 1
    if corr_cases and runner_ok:
        # one model instance per build configuration (C14): the cases of a configuration are evaluated
        # under the constants of that configuration
        kc_of = {fam.get("config", "default"): fam.get("kc", "K_src") for fam in prop["families"]}
        groups = {}
        for cid, it in corr_cases:
            hname = str(it.get("hash", ""))
            fam = "toy" if hname.startswith("toy") else ("shake" if hname.startswith("shake") else "sha")
            groups.setdefault((it.get("_config", "default"), fam), []).append((cid, it))
        for (cfg_name, fam), group in sorted(groups.items()):
            m_ids, sh, cerr, r_ids = run_shards(pid, group, os.path.join(CACHE, "cases", pid, cfg_name + ("" if fam == "sha" else "-" + fam)),
                                                with_rfc=bool(prop.get("rfc")), kc_term=kc_of.get(cfg_name, "K_src"),
                                                hf_term={"toy": "toy_n", "shake": "shake256_n", "sha": "sha256_n"}[fam])
            mism_ids += m_ids
            shown += sh
            cerrors += cerr
            rfc_ids += r_ids
        if cerrors:
            violations.append(("correspondence_engine", {"what": "model evaluation failed", "errors": cerrors}, True))
    elif corr_cases and not runner_ok:
        violations.append(("runner", {"what": "Exec/Runner.vo does not build; model cannot be evaluated",
                                      "make": mout[-1500:]}, True))
    by_id = dict(corr_cases)
    unexplained_mism = []
    for cid in mism_ids:
        it = by_id[cid]
        kf = [f for f in load_known() if matches(f, pid, it)]
        if kf:
            known_hits.setdefault(kf[0]["id"], kf[0])
        else:
            unexplained_mism.append(it)
    if unexplained_mism:
        # a disagreement is a violation when the implementation's own outcome breaks the property
        # (the harness marks that with "bad"); otherwise the model no longer describes the code
        concrete = [it for it in unexplained_mism if it.get("bad") or impl_panicked(it)]
        if not concrete and prop.get("byte_exact") and proof_ok:
            # the property fixes the exact bytes and the model is PROVED (obligations all check) to
            # produce the bytes of the RFC 8554 / hash-sigs specification: an input on which the
            # implementation releases other bytes than the model is a failing input of the property
            concrete = [dict(it, why="the implementation's bytes differ from the specification's bytes (model proved equal to Spec/)")
                        for it in unexplained_mism if it["k"] in prop["byte_exact"]]
        payload = {"what": "model and implementation disagree", "cases": (concrete or unexplained_mism)[:5],
                   "model_says": shown[-6000:]}
        violations.append(("correspondence", payload, not concrete))
    elif not cerrors and corr_cases and runner_ok:
        discharged += 1

    # 3b. the RFC 8554 transcription as judge of the implementation's verdicts
    if prop.get("rfc"):
        for cid in rfc_ids:
            it = dict(by_id[cid])
            it.update({"k": "oracle", "name": "rfc8554_verdict", "ok": False,
                       "why": "the implementation's verdict differs from RFC 8554 section 6.3 (independent transcription evaluated in Coq)"})
            oracle_items.append(it)
        cov_rfc = len([1 for _, it in corr_cases if it["k"] == "verify"])
    # 3c. the same input under different build configurations must give the same bytes (C14)
    by_xid = {}
    for it in all_items:
        if "xid" in it and it["k"] in ("keygen", "sign", "lifetime"):
            by_xid.setdefault(it["xid"], []).append(it)
    for xid, its in sorted(by_xid.items()):
        def outcome(it):
            return json.dumps({k: it.get(k) for k in ("sk", "pk", "sig", "calls", "life")}, sort_keys=True)
        oks = [it for it in its if any(isinstance(it.get(f), dict) and it[f].get("c") == "ok" for f in ("sk", "sig", "life"))]
        if len({outcome(it) for it in oks}) > 1:
            oracle_items.append({"k": "oracle", "name": "same_bytes_in_every_build", "ok": False, "xid": xid,
                                 "configs": [it.get("_config") for it in oks],
                                 "why": "builds with different limits produced different keys / signatures / lifetimes for the same input"})
        elif len(oks) > 1:
            oracle_items.append({"k": "oracle", "name": "same_bytes_in_every_build", "ok": True, "xid": xid})
    # 4. implementation-only property oracle
    obligations += 1
    bad_oracle = []
    for it in oracle_items:
        if it.get("ok"):
            continue
        kf = [f for f in load_known() if matches(f, pid, it)]
        if kf:
            known_hits.setdefault(kf[0]["id"], kf[0])
        else:
            bad_oracle.append(it)
    if bad_oracle:
        violations.append(("oracle", {"what": "property fails on the implementation", "cases": bad_oracle[:5]}, False))
    else:
        discharged += 1

    # 5. broken proof: concrete input found above?  otherwise no-failing-input-found
    if not proof_ok:
        concrete = [v for v in violations if not v[2]]
        if not concrete:
            violations.append(("proof", {"what": "proof obligation no longer checks", "obligation": broken_msg}, True))
        else:
            for v in concrete:
                v[1]["broken_obligation"] = broken_msg

    # 6. report
    for fid, f in sorted(known_hits.items()):
        print("KNOWN-FINDING: property=%s %s" % (pid, f["what"]))
    # known findings whose witness no longer fails are just not printed (a fixed defect)
    vio_lines = []
    # prefer concrete violations first
    violations.sort(key=lambda v: v[2])
    seen_tags = set()
    for tag, payload, nofound in violations:
        if tag in seen_tags:
            continue
        seen_tags.add(tag)
        payload["property"] = pid
        payload["tier"] = tier
        payload["seed"] = seed
        path = write_replay(pid, tag, payload)
        line = "VIOLATION property=%s replay=%s" % (pid, path)
        if nofound:
            line += " no-failing-input-found"
        vio_lines.append(line)
    # if a concrete failing input exists, the no-input lines are redundant
    if any(not v[2] for v in violations):
        vio_lines = [l for l in vio_lines if not l.endswith("no-failing-input-found")]
    for l in vio_lines:
        print(l)

    # 7. evidence
    dist = {}
    for it in all_items:
        key = it["k"] + (":" + it["name"] if it["k"] == "oracle" and "name" in it else "")
        dist[key] = dist.get(key, 0) + 1
    classes = {}
    for _, it in corr_cases:
        for fld in ("out", "next", "life", "digits", "res", "verdict"):
            if isinstance(it.get(fld), dict) and "c" in it[fld]:
                classes["%s.%s=%s" % (it["k"], fld, it[fld]["c"])] = classes.get("%s.%s=%s" % (it["k"], fld, it[fld]["c"]), 0) + 1
    distinct = len({hashlib.sha1(json.dumps({k: v for k, v in it.items() if not k.startswith("_")}, sort_keys=True).encode()).hexdigest()
                    for it in all_items if it["k"] not in ("dist", "info")})
    samples = []
    for it in (all_items[:1] + all_items[len(all_items) // 2:len(all_items) // 2 + 1] + all_items[-1:]):
        samples.append({k: (v if not isinstance(v, str) or len(v) < 200 else v[:200] + "...") for k, v in it.items()})
    cov.update({
        "obligations": obligations,
        "discharged": discharged,
        "checker_cmd": "cd /verif/coq && make (coqc, full .vo) ; coqc Assume_%s.v (Print Assumptions) ; coqc cases_*.v (vm_compute)" % pid,
        "theorems": thms,
        "evaluations": len(all_items),
        "distinct_nontrivial": distinct,
        "rule": prop.get("rule", "cases generated by the harness families %s from VERIF_SEED; distinct by content" % [f["name"] for f in prop["families"]]),
        "traces_validated_against_impl": len(corr_cases),
        "oracle_checks": len(oracle_items),
        "input_distribution": dist,
        "outcome_classes": classes,
        "samples": samples or [{"note": "no cases"}],
        "known_findings_hit": sorted(known_hits.keys()),
        "harness_info": [it for it in all_items if it["k"] in ("dist", "info")][:20],
        "notes": notes,
    })
    ev["coverage"] = cov
    ev["assumptions"] = prop.get("assumptions", [])
    ev["violations"] = len(vio_lines)
    ev["wall_s"] = round(time.time() - t0, 2)
    os.makedirs(os.path.join(VERIF, "evidence"), exist_ok=True)
    with open(os.path.join(VERIF, "evidence", pid + ".json"), "w") as fh:
        json.dump(ev, fh, indent=1, sort_keys=True)
    log("%s %s: %d items, %d correspondence cases, %d oracle checks, %d/%d obligations, %.1fs" %
        (pid, tier, len(all_items), len(corr_cases), len(oracle_items), discharged, obligations, time.time() - t0))
    return 1 if vio_lines else 0


def setup():
    t0 = time.time()
    with Lock("coq"):
        rc, tout, _ = translate()
        print(tout)
        if rc != 0:
            return 1
        ok, failed, mout = coq_build()
    print(mout[-3000:])
    if not ok:
        print("coq build failed: %s" % failed)
        return 1
    rc, out, binary = harness_build("default")
    print(out[-1500:])
    # the other build configurations used by quick checks (C14: HBS_LMS_* limits, C15: fast_verify)
    seen = {"default"}
    for pid, prop in sorted(PROPS.items()):
        for fam in prop["families"]:
            cfg = fam.get("config", "default")
            if cfg in seen:
                continue
            seen.add(cfg)
            rc2, out2, _ = harness_build(cfg, env=fam.get("env"), features=fam.get("features"))
            log("harness configuration %s: rc=%d" % (cfg, rc2))
            rc = rc or rc2
    log("setup done in %.1fs" % (time.time() - t0))
    return rc


def main(argv):
    if not argv:
        print(__doc__)
        return 2
    if argv[0] == "setup":
        return setup()
    pid = argv[0]
    if pid not in PROPS:
        print("unknown property %s" % pid)
        return 2
    tier = os.environ.get("VERIF_TIER", "quick")
    replay = None
    i = 1
    while i < len(argv):
        if argv[i] == "--tier":
            tier = argv[i + 1]
            i += 2
        elif argv[i] == "--replay":
            replay = argv[i + 1]
            i += 2
        else:
            i += 1
    try:
        seed = int(os.environ.get("VERIF_SEED", "1"))
    except ValueError:
        seed = 1
    return run_property(pid, tier, seed, replay)
