// Histories (C03, C05, C09): random sequences of sign / rejected sign / in-memory sign / reload /
// lifetime over complete lifetimes of small keys; ghost state reconstructed from the signatures.
use crate::lib_e2e::*;
use crate::util::*;
use std::collections::HashMap;

pub struct ParsedLevel {
    pub tree_id: Vec<u8>, // I of the tree that signs at this level
    pub q: u32,
    pub content: Vec<u8>, // what this level's one-time key signed
}

/// independent parse of an HSS signature into (tree identifier, leaf index, signed content) per level
pub fn parse_levels(n: usize, sig: &[u8], pk: &[u8], msg: &[u8]) -> Option<Vec<ParsedLevel>> {
    let rd32 = |b: &[u8], o: usize| -> Option<u32> { Some(u32::from_be_bytes(b.get(o..o + 4)?.try_into().ok()?)) };
    let nspk = rd32(sig, 0)? as usize;
    let mut off = 4;
    let mut cur_id = pk.get(12..28)?.to_vec();
    let mut out = Vec::new();
    for lvl in 0..=nspk {
        let q = rd32(sig, off)?;
        let ots = rd32(sig, off + 4)?;
        let w = w_of(ots);
        let p = p_of(n, w) as usize;
        let lms_off = off + 4 + 4 + n * (1 + p);
        let lms = rd32(sig, lms_off)?;
        let h = h_of(lms) as usize;
        let end = lms_off + 4 + n * h;
        if lvl < nspk {
            let child = sig.get(end..end + 24 + n)?.to_vec();
            out.push(ParsedLevel { tree_id: cur_id.clone(), q, content: child.clone() });
            cur_id = child[8..24].to_vec();
            off = end + 24 + n;
        } else {
            out.push(ParsedLevel { tree_id: cur_id.clone(), q, content: msg.to_vec() });
            if end != sig.len() {
                return None;
            }
        }
    }
    Some(out)
}

fn oracle(name: &str, ok: bool, why: &str, shape: &Shape, step: usize, extra: &str) {
    Line::new("oracle").str("name", name).raw("ok", if ok { "true" } else { "false" }).str("why", why)
        .str("hash", shape.hash).raw("variants", &shape.variants_json()).num("step", step as u64).str("detail", extra).emit();
}

pub fn run(seed: u64, thorough: bool) {
    let mut rng = Rng::new(seed ^ 0x4157);
    purity_across_hashes(&mut rng);
    let mut shapes = vec![
        Shape { hash: "sha256_128", levels: vec![(3, 1)] },
        Shape { hash: "sha256_128", levels: vec![(3, 1), (3, 1)] },
        Shape { hash: "sha256_192", levels: vec![(2, 1), (3, 1), (3, 1)] },
        Shape { hash: "shake256_128", levels: vec![(3, 1), (3, 5)] },
        Shape { hash: "shake256_256", levels: vec![(3, 5), (3, 1)] },
        // 512 signatures over three levels (roll-overs of two levels), with the toy hasher so that the
        // model re-signs along the way
        Shape { hash: "toy_128", levels: vec![(3, 1), (3, 5), (3, 1)] },
    ];
    if thorough {
        shapes.push(Shape { hash: "sha256_128", levels: vec![(3, 1), (3, 1), (3, 1), (3, 1)] });
        shapes.push(Shape { hash: "sha256_256", levels: vec![(3, 5), (2, 1)] });
        shapes.push(Shape { hash: "shake256_192", levels: vec![(3, 1), (2, 5), (3, 1)] });
    }
    for (shape_index, shape) in shapes.iter().enumerate() {
        let n = shape.n();
        let th = shape.total_height();
        let total = 1u64 << th;
        let mut sd = rng.bytes(n);
        sd.resize(32, 0);
        let (sk0, pk) = match keygen(shape.hash, &shape.levels, &sd) { Out::Ok(x) => x, _ => continue };
        // C09: key generation again, after other work, in another thread
        {
            let k2 = keygen(shape.hash, &shape.levels, &sd);
            let sd2 = sd.clone();
            let sh2 = shape.clone();
            let k3 = std::thread::spawn(move || keygen(sh2.hash, &sh2.levels, &sd2)).join().unwrap_or(Out::Panic);
            let ok = k2 == Out::Ok((sk0.clone(), pk.clone())) && k3 == Out::Ok((sk0.clone(), pk.clone()));
            oracle("keygen_deterministic", ok, "", shape, 0, "");
        }
        let mut persisted = sk0.clone();
        let mut released: u64 = 0;
        let mut ghost: HashMap<(usize, Vec<u8>, u32), Vec<u8>> = HashMap::new();
        let life0 = lifetime(shape.hash, &persisted);
        oracle("fresh_lifetime", life0 == Out::Ok(total), "a fresh key must report the product of its tree sizes", shape, 0, "");
        // the model re-signs every step of the cheap shapes and a stride of the expensive ones
        let budget = if thorough { 600.0 } else { 60.0 };
        let model_every = if shape.sign_cost() < 1.0 && !thorough { 1 } else { ((shape.sign_cost() * total as f64 / budget).ceil() as u64).max(1) };
        let max_steps = (total as usize) * 2 + 12;
        let mut step = 0usize;
        while step < max_steps {
            step += 1;
            let mut r = rng.below(100);
            if released + 1 == total {
                // the signature that uses the last leaf: alternate the entry point per shape
                r = if shape_index % 2 == 1 { 60 } else { 10 };
            }
            let msg = rng.bytes((r % 7) as usize * 9);
            let before = persisted.clone();
            if r < 55 || r >= 85 {
                let accept = r < 55 || r >= 92;
                // C09: the same call twice more (once from another thread) gives the same bytes
                let (out, calls) = sign(shape.hash, &persisted, &msg, accept, None);
                let nomodel = !(released % model_every == 0) || !is_sha(shape.hash);
                let mut l = Line::new("sign");
                l.str("hash", shape.hash).hex("blob", &persisted).hex("msg", &msg).raw("accept", if accept { "true" } else { "false" })
                    .out_bytes("sig", &out).raw("calls", &calls_json(&calls)).raw("cost", &format!("{:.2}", shape.sign_cost()));
                if nomodel {
                    l.raw("nomodel", "true");
                }
                l.emit();
                if step % 3 == 0 {
                    let (o2, c2) = sign(shape.hash, &persisted, &msg, accept, None);
                    let (h, b, m) = (shape.hash, persisted.clone(), msg.clone());
                    let (o3, c3) = std::thread::spawn(move || sign(h, &b, &m, accept, None)).join().unwrap_or((Out::Panic, vec![]));
                    oracle("sign_deterministic", o2 == out && c2 == calls && o3 == out && c3 == calls, "", shape, step, "");
                }
                if let (Out::Ok(sig), true) = (&out, accept) {
                    persisted = calls[0].0.clone();
                    check_release(shape, n, &sig, &pk, &msg, released, &before, &persisted, &mut ghost, step);
                    released += 1;
                } else if calls.len() == 1 && !calls[0].1 && out == Out::Err {
                    // rejected: nothing persisted, nothing released
                } else if released < total {
                    oracle("sign_on_live_key", false, "signing a live key neither released nor was rejected", shape, step, out.class());
                }
            } else if r < 70 {
                // in-memory signing key, persisted back
                let (sig, after) = try_sign(shape.hash, &persisted, &msg);
                let nomodel = !(released % model_every == 0) || !is_sha(shape.hash);
                let mut l = Line::new("try_sign");
                l.str("hash", shape.hash).hex("blob", &persisted).hex("msg", &msg).out_bytes("sig", &sig).out_bytes("after", &after)
                    .raw("cost", &format!("{:.2}", shape.sign_cost()));
                if nomodel {
                    l.raw("nomodel", "true");
                }
                l.emit();
                if let (Out::Ok(s), Out::Ok(a)) = (&sig, &after) {
                    persisted = a.clone();
                    check_release(shape, n, s, &pk, &msg, released, &before, &persisted, &mut ghost, step);
                    released += 1;
                } else if let Out::Ok(a) = &after {
                    oracle("failed_try_sign_keeps_key", *a == before, "", shape, step, "");
                }
            } else if r < 78 {
                // reload: bytes -> SigningKey -> bytes
                let back = crate::with_hash!(shape.hash, H => hbs_lms::SigningKey::<H>::from_bytes(&persisted).map(|k| k.as_slice().to_vec()).ok());
                oracle("reload_identity", back.as_deref() == Some(&persisted[..]), "", shape, step, "");
            } else {
                let l = lifetime(shape.hash, &persisted);
                let want = if released < total { Out::Ok(total - released) } else { Out::Err };
                oracle("lifetime_counts_down", l == want, "remaining lifetime must be leaves minus released signatures", shape, step,
                       &format!("released={} got={:?}", released, l));
            }
            if released == total && rng.chance(1, 3) {
                break;
            }
        }
        oracle("released_at_most_total", released <= total, "", shape, step, &format!("released={} total={}", released, total));
        if released == total {
            let w = crate::fam_c04::wiped(n);
            oracle("wiped_after_last", persisted == w, "after the last leaf the persisted key must be the wiped key", shape, step, &hex(&persisted));
            let (o, c) = sign(shape.hash, &persisted, b"again", true, None);
            oracle("wiped_refuses", o == Out::Err && c.is_empty() && lifetime(shape.hash, &persisted) == Out::Err, "", shape, step, "");
        }
        Line::new("info").str("what", "history").str("hash", shape.hash).raw("variants", &shape.variants_json())
            .num("steps", step as u64).num("released", released).num("total", total).emit();
    }
}

/// C09: the result of key generation and signing depends on (hash, parameter list, seed / key, message)
/// only: the same seed bytes used with several hash functions, interleaved with other seeds, in
/// several orders and from another thread, give the same bytes as the first call.
fn purity_across_hashes(rng: &mut Rng) {
    let hashes = ["sha256_256", "shake256_256", "sha256_192", "shake256_192", "sha256_128", "shake256_128"];
    let levels = vec![(3u32, 1u32), (4u32, 1u32)];
    let s1 = rng.bytes(32);
    let mut s2 = s1.clone();
    s2[31] ^= 1; // shares all but one bit with s1
    let s3 = rng.bytes(32);
    // ... and the same seed with other parameter lists (another Winternitz parameter on top, another
    // height): a memo keyed by less than (hash, parameters, seed, position) shows up here
    let lists: Vec<Vec<(u32, u32)>> = vec![levels.clone(), vec![(2u32, 1u32), (4u32, 1u32)], vec![(4u32, 1u32), (3u32, 1u32)], vec![(3u32, 5u32)]];
    let mut calls: Vec<(&'static str, Vec<u8>, Vec<(u32, u32)>)> = Vec::new();
    for h in hashes.iter() {
        for sd in [&s1, &s2, &s3] {
            for (li, lv) in lists.iter().enumerate() {
                if li == 0 || (*h == "sha256_256" || *h == "shake256_128") && sd == &s1 {
                    calls.push((h, sd.clone(), lv.clone()));
                }
            }
        }
    }
    let run_one = |h: &'static str, sd: &Vec<u8>, levels: &Vec<(u32, u32)>| -> (Out<(Vec<u8>, Vec<u8>)>, Out<Vec<u8>>) {
        let k = keygen(h, levels, sd);
        let s = match &k {
            Out::Ok((sk, _)) => sign(h, sk, b"purity", true, None).0,
            _ => Out::Err,
        };
        (k, s)
    };
    let first: Vec<_> = calls.iter().map(|(h, sd, lv)| run_one(h, sd, lv)).collect();
    // reversed order
    let mut ok_rev = true;
    for (i, (h, sd, lv)) in calls.iter().enumerate().rev() {
        ok_rev &= run_one(h, sd, lv) == first[i];
    }
    // seed-major order, from another thread
    let calls2 = calls.clone();
    let third = std::thread::spawn(move || {
        let mut order: Vec<usize> = (0..calls2.len()).collect();
        order.sort_by_key(|i| (i % 3, *i));
        order.into_iter().map(|i| {
            let (h, sd, levels2) = &calls2[i];
            let k = keygen(h, levels2, sd);
            let s = match &k {
                Out::Ok((sk, _)) => sign(h, sk, b"purity", true, None).0,
                _ => Out::Err,
            };
            (i, (k, s))
        }).collect::<Vec<_>>()
    }).join().unwrap_or_default();
    let ok_thread = third.len() == calls.len() && third.iter().all(|(i, r)| *r == first[*i]);
    // the in-memory key object has no memory: after signing with one state, the same object loaded
    // (as_mut_slice) with an earlier state, with a later state or with another key behaves exactly
    // like a fresh object made from those bytes and like the byte-level function
    {
        let h = "sha256_128";
        let lv = vec![(3u32, 1u32), (3u32, 1u32)];
        let shape2 = Shape { hash: h, levels: lv.clone() };
        if let (Out::Ok((ka, _)), Out::Ok((kb, _))) = (keygen(h, &lv, &s1), keygen(h, &lv, &s3)) {
            let mut ok = true;
            let mut detail = String::new();
            for (first, second) in [(set_counter(&ka, 5), set_counter(&ka, 2)), (set_counter(&ka, 2), set_counter(&ka, 9)),
                                    (set_counter(&ka, 7), set_counter(&kb, 3)), (set_counter(&ka, 15), set_counter(&ka, 0))] {
                let reused = try_sign_reused(h, &first, b"one", &second, b"two");
                let fresh = try_sign(h, &second, b"two");
                let (bsig, bcalls) = sign(h, &second, b"two", true, None);
                let byte_level_same = match (&fresh.0, &bsig) {
                    (Out::Ok(a), Out::Ok(b)) => a == b && bcalls.len() == 1 && fresh.1 == Out::Ok(bcalls[0].0.clone()),
                    (a, b) => a.class() == b.class(),
                };
                if reused != fresh || !byte_level_same {
                    ok = false;
                    detail = format!("first={} second={}", hex(&first[..8]), hex(&second[..8]));
                }
            }
            oracle("key_object_has_no_memory", ok, "a reused SigningKey object signed differently from a fresh one made of the same bytes", &shape2, 0, &detail);
        }
    }
    let shape = Shape { hash: "sha256_256", levels };
    oracle("pure_across_hashes_and_orders", ok_rev && ok_thread && first.iter().all(|(k, _)| matches!(k, Out::Ok(_))),
           "the same (hash, parameters, seed) gave different keys or signatures after other calls", &shape, 0,
           &format!("reversed_order_equal={} other_thread_equal={}", ok_rev, ok_thread));
}

#[allow(clippy::too_many_arguments)]
fn check_release(shape: &Shape, n: usize, sig: &[u8], pk: &[u8], msg: &[u8], released: u64, before: &[u8], after: &[u8],
                 ghost: &mut HashMap<(usize, Vec<u8>, u32), Vec<u8>>, step: usize) {
    // the signature verifies
    let v = verify3(shape.hash, msg, sig, pk);
    oracle("released_verifies", v.iter().all(|x| *x == Out::Ok(())), "", shape, step, "");
    // counter bookkeeping: used counter = number released so far; successor = +1 or wiped
    let used = u64::from_be_bytes(before[..8].try_into().unwrap());
    let total = 1u64 << shape.total_height();
    let succ_ok = if used + 1 < total {
        after[..8] == (used + 1).to_be_bytes() && after[8..] == before[8..]
    } else {
        after == &crate::fam_c04::wiped(n)[..]
    };
    oracle("counter_plus_one", used == released && succ_ok, "consecutive private keys must differ by counter + 1 only", shape, step,
           &format!("used={} released={}", used, released));
    // leaf indices = mixed-radix digits; no one-time key signs two contents
    match parse_levels(n, sig, pk, msg) {
        None => oracle("signature_parses", false, "", shape, step, ""),
        Some(levels) => {
            let hs = shape.heights();
            let mut want = Vec::new();
            let mut below = 0u64;
            for h in hs.iter().rev() {
                want.push(((released >> below) & ((1u64 << h) - 1)) as u32);
                below += h;
            }
            want.reverse();
            let got: Vec<u32> = levels.iter().map(|l| l.q).collect();
            oracle("leaf_indices_mixed_radix", got == want, "", shape, step, &format!("released={} got={:?} want={:?}", released, got, want));
            for (lvl, l) in levels.iter().enumerate() {
                let key = (lvl, l.tree_id.clone(), l.q);
                match ghost.get(&key) {
                    Some(prev) if *prev != l.content => {
                        oracle("one_time_key_reused", false, "an LM-OTS key (tree identifier, leaf) signed two different contents", shape, step,
                               &format!("level={} q={} I={}", lvl, l.q, hex(&l.tree_id)));
                    }
                    _ => {
                        ghost.insert(key, l.content.clone());
                    }
                }
            }
            oracle("no_one_time_key_reuse_so_far", true, "", shape, step, "");
        }
    }
}
