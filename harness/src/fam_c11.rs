// C11: malformed inputs to keygen / sign / lifetime must give an error (or a correct result), never a panic.
use crate::fam_c04::{emit_sign_judged, emit_sign_judged_opt};
use crate::lib_e2e::*;
use crate::util::*;

fn emit_lifetime(hash: &str, blob: &[u8], tag: &str) {
    let l = lifetime(hash, blob);
    Line::new("lifetime").str("hash", hash).hex("blob", blob)
        .raw("life", &match &l { Out::Ok(x) => format!("{{\"c\":\"ok\",\"n\":\"{}\"}}", x), o => format!("{{\"c\":\"{}\"}}", o.class()) })
        .str("tag", tag).raw("cost", "0.003").emit();
    Line::new("oracle").str("name", "lifetime_no_panic").raw("ok", if l == Out::Panic { "false" } else { "true" })
        .str("hash", hash).hex("blob", blob).str("tag", tag).emit();
}

fn h_of_code(c: u8) -> Option<u64> {
    match c { 1 => Some(2), 5 => Some(5), 6 => Some(10), 7 => Some(15), 8 => Some(20), 9 => Some(25), _ => None }
}

pub fn run(seed: u64, thorough: bool) {
    let mut rng = Rng::new(seed ^ 0xC11);
    // (a) parameter lists of length 0..10
    for hash in ["sha256_128", "sha256_256", "shake256_192"] {
        for len in 0..=10usize {
            let shape = Shape { hash, levels: vec![(3, 1); len] };
            let mut sd = rng.bytes(shape.n());
            sd.resize(32, 0);
            let r = keygen(hash, &shape.levels, &sd);
            let mut l = Line::new("keygen");
            l.str("hash", hash).raw("variants", &shape.variants_json()).hex("seed", &sd[..shape.n()]);
            match &r {
                Out::Ok((sk, pk)) => {
                    l.raw("sk", &format!("{{\"c\":\"ok\",\"v\":\"{}\"}}", hex(sk)));
                    l.raw("pk", &format!("{{\"c\":\"ok\",\"v\":\"{}\"}}", hex(pk)));
                }
                o => {
                    l.raw("sk", &format!("{{\"c\":\"{}\"}}", o.class()));
                    l.raw("pk", &format!("{{\"c\":\"{}\"}}", o.class()));
                }
            }
            l.raw("cost", "0.3").num("levels", len as u64);
            if !is_sha(hash) {
                l.raw("nomodel", "true");
            }
            l.emit();
            let ok = match (&r, len) {
                (Out::Panic, _) => false,
                (Out::Ok(_), l) => (1..=8).contains(&l),
                (Out::Err, l) => !(1..=8).contains(&l),
            };
            Line::new("oracle").str("name", "keygen_list_length").raw("ok", if ok { "true" } else { "false" })
                .str("hash", hash).num("levels", len as u64).str("result", r.class()).emit();
        }
    }
    // (b) every value of every parameter byte of a valid key blob; (c) every key length 0..64
    for hash in ["sha256_128", "sha256_192"] {
        let shape = Shape { hash, levels: vec![(3, 1), (3, 1)] };
        let n = shape.n();
        let mut sd = rng.bytes(n);
        sd.resize(32, 0);
        let (sk, _) = match keygen(hash, &shape.levels, &sd) { Out::Ok(x) => x, _ => continue };
        let positions: Vec<usize> = if thorough || hash == "sha256_128" { (8..16).collect() } else { vec![8, 9, 10, 15] };
        for pos in positions {
            for val in 0..=255u8 {
                let mut b = sk.clone();
                b[pos] = val;
                // decode what this makes of the key, to keep tall (infeasible) trees out of the signing run
                let mut heights: Vec<u64> = Vec::new();
                let mut valid = true;
                for i in 8..16 {
                    if b[i] == 0xff { break; }
                    match (h_of_code(b[i] >> 4), (1..=4).contains(&(b[i] & 0xf))) {
                        (Some(h), true) => heights.push(h),
                        _ => { valid = false; break; }
                    }
                }
                let tall = heights.iter().any(|h| *h > 5);
                let tag = if !valid || heights.is_empty() { "invalid_param" } else if tall { "tall" } else { "valid_other_shape" };
                if !tall {
                    // W1..W8 / H2,H5 variants of the shape: affordable for the model too
                    let sh = Shape { hash, levels: vec![] };
                    let cost = if valid { 1.5 * heights.iter().map(|h| (1u64 << h) as f64 / 4.0).sum::<f64>() * if (val & 0xf) == 4 { 8.0 } else { 1.0 } } else { 0.02 };
                    let th = if valid && !heights.is_empty() { Some(heights.iter().sum()) } else { None };
                    if valid && cost > 20.0 && !thorough {
                        // (H5 with W8 etc.): implementation only
                        let (out, _) = sign(hash, &b, b"m", true, None);
                        Line::new("oracle").str("name", "sign_no_panic").raw("ok", if out == Out::Panic { "false" } else { "true" })
                            .str("hash", hash).hex("blob", &b).str("tag", tag).emit();
                    } else {
                        // quick tier: the model re-signs a sample of the valid variants, all the invalid ones
                        let sample = !valid || thorough || (val as usize + pos) % 13 == 0;
                        emit_sign_judged_opt(&sh, &b, b"m", true, th, tag, cost, !sample);
                    }
                }
                if heights.len() <= 1 || !tall {
                    emit_lifetime(hash, &b, tag);
                }
            }
        }
        // (d) counters at and beyond the end of the lifetime, up to the largest 64-bit value
        let total = 1u64 << shape.total_height();
        for c in [total - 1, total, total + 1, 1u64 << 31, (1u64 << 32) - 1, 1u64 << 32, (1u64 << 32) + 3, 1u64 << 62, 1u64 << 63,
                  u64::MAX - 1, u64::MAX] {
            let b = set_counter(&sk, c);
            let sh = Shape { hash, levels: shape.levels.clone() };
            emit_sign_judged(&sh, &b, b"m", true, None, "counter_out_of_range", 0.5);
            emit_lifetime(hash, &b, "counter_out_of_range");
            let (s, after) = try_sign(hash, &b, b"m");
            Line::new("oracle").str("name", "try_sign_no_panic").raw("ok", if s == Out::Panic || after == Out::Panic { "false" } else { "true" })
                .str("hash", hash).hex("blob", &b).str("tag", "counter_out_of_range").emit();
        }
        for len in 0..=64usize {
            let mut b = sk.clone();
            b.resize(len, 0x11);
            let sh = Shape { hash, levels: vec![] };
            if len != sk.len() {
                emit_sign_judged(&sh, &b, b"m", true, None, "key_length", 0.02);
                emit_lifetime(hash, &b, "key_length");
            }
        }
    }
}
