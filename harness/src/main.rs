mod util;
mod toy;
mod fam_c12;
mod fam_c13;
mod lib_e2e;
mod fam_e2e;
mod fam_c04;
mod fam_c11;
mod fam_c06;
mod fam_hist;
mod fam_hasher;
mod fam_c10;
mod fam_c16;
mod fam_c14;
mod fam_toy;
#[cfg(feature = "fast_verify")]
mod fam_c15;

fn main() {
    let args: Vec<String> = std::env::args().collect();
    if args.len() < 3 {
        eprintln!("usage: hv <family> <seed> [thorough]");
        std::process::exit(2);
    }
    util::silence_panics();
    let seed: u64 = args[2].parse().unwrap_or(0);
    let thorough = args.get(3).map(|s| s == "thorough").unwrap_or(false);
    match args[1].as_str() {
        "c12" => fam_c12::run(seed, thorough),
        "c13" => fam_c13::run(seed, thorough),
        "e2e" => fam_e2e::run(seed, thorough, args.iter().any(|a| a == "lite")),
        "c04" => fam_c04::run(seed, thorough),
        "c11" => fam_c11::run(seed, thorough),
        "c06" => fam_c06::run(seed, thorough),
        "hist" => fam_hist::run(seed, thorough),
        "hasher" => fam_hasher::run(seed, thorough),
        "c10" => fam_c10::run(seed, thorough),
        "c16" => fam_c16::run(seed, thorough),
        "c14" => fam_c14::run(seed, thorough),
        // the compiled values of the library's constants, for the translator
        "consts" => {
            for (name, values) in hbs_lms::verif_hooks::model_constants() {
                util::Line::new("const").str("name", name).nums("v", &values).emit();
            }
            // the type-code tables, probed: every code below 2^17, and every accepted code with each
            // higher bit set (a truncating lookup would accept those)
            let mut codes: Vec<u32> = (0..=0x2_0000u32).collect();
            for base in 0..=0x20u32 {
                for bit in 5..32 {
                    codes.push(base | (1u32 << bit));
                }
                codes.push(base | 0xffff_ff00);
                codes.push(base.wrapping_add(0xffff_ffe0));
            }
            codes.sort();
            codes.dedup();
            let (a, b, c, d) = hbs_lms::verif_hooks::type_code_tables::<hbs_lms::Sha256_256>(&codes);
            for (name, rows) in [("OTS_FROM_U32", &a), ("OTS_GET_FROM_TYPE", &b)] {
                for r in rows.iter() {
                    util::Line::new("const").str("name", name).nums("v", &r[..]).emit();
                }
            }
            for (name, rows) in [("LMS_FROM_U32", &c), ("LMS_GET_FROM_TYPE", &d)] {
                for r in rows.iter() {
                    util::Line::new("const").str("name", name).nums("v", &r[..]).emit();
                }
            }
            util::Line::new("const").str("name", "TYPE_CODES_PROBED").nums("v", &[codes.len() as u64]).emit();
            // chain counts of the rows under the other output sizes (p depends on n)
            for (hname, n) in [("sha256_192", 24u64), ("sha256_128", 16u64)] {
                let (_, b2, _, _) = with_hash!(hname, H => hbs_lms::verif_hooks::type_code_tables::<H>(&[1, 2, 3, 4]));
                for r in b2.iter() {
                    util::Line::new("const").str("name", "OTS_CHAINS_N").nums("v", &[n, r[0], r[2], r[3]]).emit();
                }
            }
            for (name, values) in hbs_lms::verif_hooks::build_constants() {
                util::Line::new("const").str("name", name).nums("v", &values.iter().map(|x| *x as u64).collect::<Vec<_>>()).emit();
            }
        }
        "toy" => fam_toy::run(seed, thorough),
        "toyaux" => fam_toy::run_aux(seed, thorough),
        #[cfg(feature = "fast_verify")]
        "c15" => fam_c15::run(seed, thorough),
        other => {
            eprintln!("unknown family {}", other);
            std::process::exit(2);
        }
    }
}
