// C13 (and the arithmetic part of C05/C03): counter decomposition, increment, lifetime.
use crate::util::*;
use crate::with_hash;
use hbs_lms::verif_hooks as hk;

pub fn lms_code(h: u64) -> u8 {
    match h {
        2 => 1,
        5 => 5,
        10 => 6,
        15 => 7,
        20 => 8,
        25 => 9,
        _ => panic!("height"),
    }
}

pub fn blob(counter: u64, heights: &[u64], ws: &[u8], seed: &[u8]) -> Vec<u8> {
    let mut b = counter.to_be_bytes().to_vec();
    for i in 0..8 {
        if i < heights.len() {
            b.push((lms_code(heights[i]) << 4) + ws[i]);
        } else {
            b.push(0xff);
        }
    }
    b.extend_from_slice(seed);
    b
}

fn emit_case(hash: &str, heights: &[u64], c: u64) {
    let n = hash_n(hash);
    let ws = vec![4u8; heights.len()]; // LM-OTS type code 4 (W8): fewest chains, cheapest stubs
    let b = blob(c, heights, &ws, &vec![0x5au8; n]);
    let d = with_hash!(hash, H => catch_opt(|| hk::leaf_digits::<H>(&b)))
        .map(|v| v.into_iter().map(|x| x as u64).collect::<Vec<u64>>());
    let i = with_hash!(hash, H => catch_opt(|| hk::increment::<H>(&b)));
    let l = with_hash!(hash, H => catch_opt(|| hk::lifetime::<H>(&b)));
    Line::new("counter")
        .str("hash", hash)
        .nums("hs", heights)
        .str("c", &c.to_string())
        .hex("blob", &b)
        .out_nums("digits", &d)
        .out_bytes("next", &i)
        .raw("life", &match &l {
            Out::Ok(x) => format!("{{\"c\":\"ok\",\"n\":\"{}\"}}", x),
            o => format!("{{\"c\":\"{}\"}}", o.class()),
        })
        .emit();
    // implementation-only oracle: the property itself, computed independently with u128 arithmetic
    let total: u32 = heights.iter().sum::<u64>() as u32;
    let mut want_digits = Vec::new();
    {
        let mut below: u32 = 0;
        for h in heights.iter().rev() {
            want_digits.push(((c as u128).checked_shr(below).unwrap_or(0) & ((1u128 << h) - 1)) as u64);
            below += *h as u32;
        }
        want_digits.reverse();
    }
    let leaves: u128 = if total >= 128 { u128::MAX } else { 1u128 << total };
    let want_next: Option<u64> = if (c as u128) + 1 < leaves && c < u64::MAX { Some(c + 1) } else { None };
    let want_life: u128 = (leaves - ((c as u128) % leaves)).min(u64::MAX as u128);
    let mut why = String::new();
    match &d {
        Out::Ok(v) if *v == want_digits => {}
        _ => why.push_str("leaf digits are not the mixed-radix digits of the counter; "),
    }
    match (&i, want_next) {
        (Out::Ok(nb), Some(nc)) if nb[..8] == nc.to_be_bytes() && nb[8..] == b[8..] => {}
        (Out::Ok(nb), None) if nb[..8] == [0u8; 8] && nb[8..16] == [0xffu8; 8] && nb[16..].iter().all(|x| *x == 0) && nb.len() == b.len() => {}
        _ => why.push_str("successor is not counter+1 / the wiped key; "),
    }
    match &l {
        Out::Ok(x) if *x as u128 == want_life => {}
        _ => why.push_str("lifetime is not leaves minus counter; "),
    }
    Line::new("oracle").str("name", "mixed_radix_rule").raw("ok", if why.is_empty() { "true" } else { "false" })
        .str("why", &why).str("hash", hash).nums("hs", heights).str("c", &c.to_string()).hex("blob", &b)
        .out_nums("digits", &d).out_bytes("next", &i).emit();
}

pub fn run(seed: u64, thorough: bool) {
    let mut rng = Rng::new(seed ^ 0xC13);
    let hs_all = [2u64, 5, 10, 15, 20, 25];
    let mut tuples: Vec<Vec<u64>> = Vec::new();
    // all single and pair shapes, plus structured and random longer ones
    for a in hs_all {
        tuples.push(vec![a]);
        for b in hs_all {
            tuples.push(vec![a, b]);
        }
    }
    tuples.push(vec![25, 25, 10]);
    tuples.push(vec![25, 25, 10, 2]);
    tuples.push(vec![25, 25, 5, 5, 2]);
    tuples.push(vec![5; 8]);
    tuples.push(vec![2; 8]);
    tuples.push(vec![10; 6]);
    tuples.push(vec![10; 7]); // total 70: beyond u64
    tuples.push(vec![25; 8]); // total 200
    tuples.push(vec![20, 20, 20, 2, 2]); // total 64
    tuples.push(vec![25, 20, 15, 2]); // total 62
    tuples.push(vec![25, 20, 15, 2, 2]); // total 64
    tuples.push(vec![15, 15, 15, 15, 2, 2]); // total 64
    tuples.push(vec![5, 10, 15, 20, 10, 2]); // total 62
    tuples.push(vec![5, 10, 15, 20, 10, 2, 2]); // total 64
    for _ in 0..(if thorough { 400 } else { 40 }) {
        let len = 1 + rng.below(8) as usize;
        tuples.push((0..len).map(|_| *rng.pick(&hs_all)).collect());
    }
    for t in &tuples {
        let total: u64 = t.iter().sum();
        let mut cs: Vec<u64> = vec![0, 1, 2, u64::MAX, u64::MAX - 1];
        let last = if total >= 64 { u64::MAX } else { (1u64 << total) - 1 };
        cs.extend([last, last.wrapping_sub(1), last.wrapping_add(1)]);
        // radix boundaries +-1
        let mut acc = 0u64;
        for h in t.iter().rev() {
            acc += h;
            if acc < 64 {
                let b = 1u64 << acc;
                cs.extend([b - 1, b, b + 1]);
            }
        }
        for _ in 0..(if thorough { 12 } else { 4 }) {
            cs.push(if total >= 64 { rng.next() } else { rng.below(last.wrapping_add(1).max(1)) });
            cs.push(rng.next());
        }
        cs.sort();
        cs.dedup();
        let hash = *rng.pick(&["sha256_256", "sha256_192", "sha256_128", "shake256_256"]);
        for c in cs {
            emit_case(hash, t, c);
        }
    }
}
