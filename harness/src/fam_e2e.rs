// End-to-end keygen / sign / verify over small shapes (C01, C07, C08, and reused by others).
use crate::lib_e2e::*;
use crate::util::*;

pub fn messages(rng: &mut Rng, thorough: bool) -> Vec<Vec<u8>> {
    let mut m = vec![vec![], vec![0x00], rng.bytes(17), rng.bytes(55), rng.bytes(56), rng.bytes(64), rng.bytes(65)];
    m.push(rng.bytes(4096));
    if thorough {
        m.push(rng.bytes(63));
        m.push(rng.bytes(119));
        m.push(rng.bytes(10_000));
    }
    m
}

pub fn shapes(rng: &mut Rng, thorough: bool) -> Vec<Shape> {
    let mut v = Vec::new();
    let sha = ["sha256_256", "sha256_192", "sha256_128"];
    // every (hash, W) with the 4-leaf test height, one and two levels
    for h in ALL_HASHES.iter().map(|x| x.0) {
        for w in 1..=4u32 {
            if w == 4 && !thorough && h != "sha256_128" && h != "shake256_128" {
                continue; // W8 costs 8670 hashes per leaf for n = 32
            }
            v.push(Shape { hash: h, levels: vec![(w, 1)] });
        }
    }
    for h in sha {
        v.push(Shape { hash: h, levels: vec![(3, 1), (2, 1)] });
        v.push(Shape { hash: h, levels: vec![(1, 1), (3, 1)] });
    }
    // mixed heights and more levels
    v.push(Shape { hash: "sha256_128", levels: vec![(3, 1), (3, 1), (3, 1)] });
    v.push(Shape { hash: "sha256_192", levels: vec![(2, 1), (3, 1), (1, 1), (3, 1)] });
    v.push(Shape { hash: "sha256_128", levels: vec![(3, 5), (3, 1)] });
    v.push(Shape { hash: "sha256_256", levels: vec![(3, 1), (2, 5)] });
    v.push(Shape { hash: "shake256_256", levels: vec![(3, 1), (2, 1)] });
    v.push(Shape { hash: "shake256_192", levels: vec![(2, 5), (3, 1)] });
    v.push(Shape { hash: "shake256_128", levels: vec![(3, 1), (3, 1), (3, 1), (3, 1), (3, 1), (3, 1), (3, 1), (3, 1)] });
    v.push(Shape { hash: "sha256_128", levels: vec![(3, 1); 8] });
    // the longest signatures: eight levels of W1 with a 32-byte hash (more than 65535 bytes)
    v.push(Shape { hash: "sha256_256", levels: vec![(1, 1); 8] });
    v.push(Shape { hash: "sha256_256", levels: vec![(1, 1), (1, 1), (1, 1), (1, 1), (1, 1), (1, 1), (1, 1), (2, 1)] });
    // real heights beyond what the model can re-compute in minutes: implementation-only
    // (sign at leaf indices around the byte boundaries, then the library's own verifiers)
    v.push(Shape { hash: "sha256_192", levels: vec![(3, 6)] });
    v.push(Shape { hash: "shake256_128", levels: vec![(3, 1), (3, 6)] });
    if thorough {
        v.push(Shape { hash: "sha256_128", levels: vec![(4, 7)] });
        v.push(Shape { hash: "sha256_256", levels: vec![(3, 6), (3, 6)] });
        for h in sha {
            v.push(Shape { hash: h, levels: vec![(3, 5)] });
            v.push(Shape { hash: h, levels: vec![(2, 5), (1, 5)] });
            v.push(Shape { hash: h, levels: vec![(3, 1), (3, 1), (3, 1), (3, 1)] });
        }
        v.push(Shape { hash: "sha256_128", levels: vec![(4, 5)] });
        v.push(Shape { hash: "sha256_256", levels: vec![(3, 6)] });
        for _ in 0..12 {
            let len = 1 + rng.below(4) as usize;
            let h = *rng.pick(&["sha256_256", "sha256_192", "sha256_128", "shake256_256", "shake256_192", "shake256_128"]);
            v.push(Shape { hash: h, levels: (0..len).map(|_| (1 + rng.below(3) as u32, *rng.pick(&[1u32, 1, 1, 5]))).collect() });
        }
    }
    v
}

pub fn counters(shape: &Shape, rng: &mut Rng, k: usize) -> Vec<u64> {
    let total = shape.total_height();
    let last = (1u64 << total) - 1;
    let mut cs = vec![0u64, 1, last, last - 1];
    let mut acc = 0;
    for h in shape.heights().iter().rev() {
        acc += h;
        if acc < total {
            cs.push((1 << acc) - 1); // last leaf of a subtree
            cs.push(1 << acc); // first leaf of the fresh subtree
        }
    }
    for b in [255u64, 256, 257, 511, 512, 767, 1023, 1024, 65535, 65536] {
        if b <= last {
            cs.push(b);
        }
    }
    for _ in 0..k {
        cs.push(rng.below(last + 1));
    }
    cs.sort();
    cs.dedup();
    cs
}

pub fn emit_keygen(shape: &Shape, seed: &[u8]) -> Option<(Vec<u8>, Vec<u8>)> {
    let r = keygen(shape.hash, &shape.levels, seed);
    let mut l = Line::new("keygen");
    l.str("hash", shape.hash).raw("variants", &shape.variants_json()).hex("seed", &seed[..shape.n()]);
    match &r {
        Out::Ok((sk, pk)) => {
            l.raw("sk", &format!("{{\"c\":\"ok\",\"v\":\"{}\"}}", hex(sk)));
            l.raw("pk", &format!("{{\"c\":\"ok\",\"v\":\"{}\"}}", hex(pk)));
        }
        o => {
            l.raw("sk", &format!("{{\"c\":\"{}\"}}", o.class()));
            l.raw("pk", &format!("{{\"c\":\"{}\"}}", o.class()));
        }
    }
    l.raw("cost", &format!("{:.2}", shape.keygen_cost()));
    if !is_sha(shape.hash) || shape.heights().iter().any(|h| *h > 5) {
        l.raw("nomodel", "true");
    }
    l.emit();
    match r {
        Out::Ok(x) => Some(x),
        _ => None,
    }
}

pub fn emit_sign(shape: &Shape, blob: &[u8], msg: &[u8], accept: bool) -> Option<Vec<u8>> {
    let (out, calls) = sign(shape.hash, blob, msg, accept, None);
    let mut l = Line::new("sign");
    l.str("hash", shape.hash).hex("blob", blob).hex("msg", msg).raw("accept", if accept { "true" } else { "false" })
        .out_bytes("sig", &out).raw("calls", &calls_json(&calls)).raw("cost", &format!("{:.2}", shape.sign_cost()));
    if !is_sha(shape.hash) || shape.heights().iter().any(|h| *h > 5) {
        l.raw("nomodel", "true");
    }
    l.emit();
    match out {
        Out::Ok(s) => Some(s),
        _ => None,
    }
}

pub fn emit_verify(hash: &str, msg: &[u8], sig: &[u8], pk: &[u8], cost: f64, tag: &str) -> [Out<()>; 3] {
    emit_verify_kf(hash, msg, sig, pk, cost, tag, "")
}

pub fn emit_verify_kf(hash: &str, msg: &[u8], sig: &[u8], pk: &[u8], cost: f64, tag: &str, kf: &str) -> [Out<()>; 3] {
    let v = verify3(hash, msg, sig, pk);
    let mut l = Line::new("verify");
    l.str("hash", hash).hex("msg", msg).hex("sig", sig).hex("pk", pk).raw("verdict", &out_unit_json(&v[0]))
        .raw("verdict_vk_sig", &out_unit_json(&v[1])).raw("verdict_vk_ref", &out_unit_json(&v[2]))
        .str("tag", tag).raw("cost", &format!("{:.2}", cost)).str("kf", kf);
    if !is_sha(hash) {
        l.raw("nomodel", "true");
    }
    l.emit();
    v
}

pub fn run(seed: u64, thorough: bool, lite: bool) {
    let mut rng = Rng::new(seed ^ 0xE2E);
    let msgs = messages(&mut rng, thorough);
    for shape in shapes(&mut rng, thorough) {
        if lite && (shape.sign_cost() > 4.0 || shape.heights().iter().any(|h| *h > 5)) {
            continue;
        }
        let mut sd = rng.bytes(shape.n());
        sd.resize(32, 0);
        let (sk, pk) = match emit_keygen(&shape, &sd) {
            Some(x) => x,
            None => {
                Line::new("oracle").str("name", "keygen_ok").raw("ok", "false").str("hash", shape.hash)
                    .raw("variants", &shape.variants_json()).emit();
                continue;
            }
        };
        let nsign = if thorough { 6 } else { 2 };
        let mut cs = counters(&shape, &mut rng, nsign);
        // budget: keep the expensive shapes to a few counters in the quick tier
        let budget = if thorough { 40.0 } else { 12.0 };
        let maxn = ((budget / shape.sign_cost().max(0.05)) as usize).clamp(3, if thorough { 64 } else { 10 });
        let tall = shape.heights().iter().any(|h| *h > 5);
        if tall && !thorough {
            let last = *cs.last().unwrap();
            cs = vec![0, 255, 256, 512, last];
        }
        if cs.len() > maxn && !tall {
            // keep first, roll-over points and last
            let keep: Vec<u64> = cs.iter().cloned().step_by((cs.len() + maxn - 1) / maxn).collect();
            let last = *cs.last().unwrap();
            cs = keep;
            if !cs.contains(&last) {
                cs.push(last);
            }
        }
        for (i, c) in cs.iter().enumerate() {
            let blob = set_counter(&sk, *c);
            let msg = &msgs[(i + shape.levels.len()) % msgs.len()];
            if let Some(sig) = emit_sign(&shape, &blob, msg, true) {
                // verification is cheap at every height: the model and the RFC transcription judge the
                // signatures of the tall trees too (leaf indices >= 256, paths of 10 and 15 nodes)
                let v = emit_verify_kf(shape.hash, msg, &sig, &pk, shape.verify_cost(), "valid", kf_of(&shape));
                let ok = v.iter().all(|x| *x == Out::Ok(()));
                Line::new("oracle").str("name", "verify_after_sign").raw("ok", if ok { "true" } else { "false" })
                    .str("hash", shape.hash).raw("variants", &shape.variants_json()).str("c", &c.to_string())
                    .num("msg_len", msg.len() as u64)
                    .raw("verdicts", &format!("[\"{}\",\"{}\",\"{}\"]", v[0].class(), v[1].class(), v[2].class())).emit();
            } else {
                Line::new("oracle").str("name", "sign_ok").raw("ok", "false").str("hash", shape.hash)
                    .raw("variants", &shape.variants_json()).str("c", &c.to_string()).hex("blob", &blob).emit();
            }
        }
    }
}
