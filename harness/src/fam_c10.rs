// C10 (and the aux part of C11): auxiliary buffers of every length and many contents, through keygen and sign.
use crate::lib_e2e::*;
use crate::util::*;

fn out_pair_json(l: &mut Line, r: &Out<(Vec<u8>, Vec<u8>)>) {
    match r {
        Out::Ok((sk, pk)) => {
            l.raw("sk", &format!("{{\"c\":\"ok\",\"v\":\"{}\"}}", hex(sk)));
            l.raw("pk", &format!("{{\"c\":\"ok\",\"v\":\"{}\"}}", hex(pk)));
        }
        o => {
            l.raw("sk", &format!("{{\"c\":\"{}\"}}", o.class()));
            l.raw("pk", &format!("{{\"c\":\"{}\"}}", o.class()));
        }
    }
}

thread_local! { static MODEL_EVERY: std::cell::Cell<(u64, u64)> = std::cell::Cell::new((1, 0)); }

pub fn set_model_every(k: u64) {
    MODEL_EVERY.with(|m| m.set((k, 0)));
}

/// in the quick tier only every k-th case of the more expensive shapes is re-computed by the model
fn model_this() -> bool {
    MODEL_EVERY.with(|m| {
        let (k, c) = m.get();
        m.set((k, c + 1));
        c % k == 0
    })
}

pub fn keygen_case(shape: &Shape, seed: &[u8], aux_in: &[u8], tag: &str, base: &Out<(Vec<u8>, Vec<u8>)>, cost: f64, kf: &str) -> Vec<u8> {
    let mut aux = aux_in.to_vec();
    let r = keygen_aux(shape.hash, &shape.levels, seed, &mut aux);
    let mut l = Line::new("keygen_aux");
    l.str("hash", shape.hash).raw("variants", &shape.variants_json()).hex("seed", &seed[..shape.n()]).hex("aux_in", aux_in);
    out_pair_json(&mut l, &r);
    l.hex("aux_out", &aux).str("tag", tag).raw("cost", &format!("{:.2}", cost)).str("kf", kf);
    if !is_sha(shape.hash) || !model_this() {
        l.raw("nomodel", "true");
    }
    l.emit();
    let ok = r == *base && aux.len() <= aux_in.len();
    Line::new("oracle").str("name", "keygen_aux_transparent").raw("ok", if ok { "true" } else { "false" })
        .str("hash", shape.hash).raw("variants", &shape.variants_json()).str("tag", tag).num("aux_len", aux_in.len() as u64)
        .hex("aux_in", &aux_in[..aux_in.len().min(40)]).str("result", r.class()).str("kf", kf).emit();
    aux
}

#[allow(clippy::too_many_arguments)]
pub fn sign_case(shape: &Shape, blob: &[u8], msg: &[u8], aux_in: &[u8], tag: &str, base: &(Out<Vec<u8>>, Vec<(Vec<u8>, bool)>), cost: f64, kf: &str) {
    let mut aux = aux_in.to_vec();
    let (out, calls) = sign(shape.hash, blob, msg, true, Some(&mut aux));
    let mut l = Line::new("sign_aux");
    l.str("hash", shape.hash).hex("blob", blob).hex("msg", msg).hex("aux_in", aux_in).raw("accept", "true")
        .out_bytes("sig", &out).raw("calls", &calls_json(&calls)).hex("aux_out", &aux).str("tag", tag)
        .raw("cost", &format!("{:.2}", cost)).str("kf", kf);
    if !is_sha(shape.hash) || !model_this() {
        l.raw("nomodel", "true");
    }
    l.emit();
    let ok = out == base.0 && calls == base.1 && aux.len() <= aux_in.len();
    Line::new("oracle").str("name", "sign_aux_transparent").raw("ok", if ok { "true" } else { "false" })
        .str("hash", shape.hash).raw("variants", &shape.variants_json()).str("tag", tag).num("aux_len", aux_in.len() as u64)
        .hex("aux_in", &aux_in[..aux_in.len().min(40)]).hex("blob", blob).str("result", out.class()).str("kf", kf).emit();
}

pub fn run(seed: u64, thorough: bool) {
    let mut rng = Rng::new(seed ^ 0xC10);
    let mut shapes = vec![
        Shape { hash: "sha256_128", levels: vec![(3, 1)] },
        Shape { hash: "sha256_128", levels: vec![(3, 1), (3, 1)] },
        Shape { hash: "shake256_192", levels: vec![(3, 1), (3, 1)] },
    ];
    if thorough {
        shapes.push(Shape { hash: "sha256_128", levels: vec![(3, 5), (3, 1)] });
        shapes.push(Shape { hash: "sha256_256", levels: vec![(3, 5)] });
    } else {
        shapes.push(Shape { hash: "sha256_192", levels: vec![(3, 5)] });
    }
    for (si, shape) in shapes.iter().enumerate() {
        let n = shape.n();
        // the first shape is re-computed by the model on every case; the others on a sample (an H5
        // tree costs the model several seconds per case)
        let every = if si == 0 { 1 } else if shape.heights()[0] > 2 { if thorough { 6 } else { 4 } } else { 2 };
        MODEL_EVERY.with(|m| m.set((every, 0)));
        let mut sd = rng.bytes(n);
        sd.resize(32, 0);
        let base = keygen(shape.hash, &shape.levels, &sd);
        let (sk, _pk) = match &base { Out::Ok(x) => x.clone(), _ => continue };
        let kc = shape.keygen_cost();
        let sc = shape.sign_cost();
        // a buffer filled by key generation
        let valid = keygen_case(shape, &sd, &vec![0u8; 2000], "fresh_zero_2000", &base, kc, "");
        let full = valid.len();
        let blob = set_counter(&sk, 1);
        let msg = b"aux".to_vec();
        let sbase = sign(shape.hash, &blob, &msg, true, None);
        // every buffer length 0 .. full + 8 of a zero buffer (first shape; a stride for the others)
        let stride = if si == 0 || thorough { 1 } else { 17 };
        let mut len = 0;
        while len <= full + 8 {
            keygen_case(shape, &sd, &vec![0u8; len], "zero_len", &base, kc, "");
            if len % 5 == 0 || len < 8 {
                sign_case(shape, &blob, &msg, &vec![0u8; len], "zero_len", &sbase, sc, "");
            }
            len += stride;
        }
        // uninitialised memory: arbitrary contents after a zero first byte; arbitrary first byte
        for _ in 0..(if thorough { 12 } else { 4 }) {
            let extra = rng.below(40) as usize;
            let mut g = rng.bytes(full + extra);
            g[0] = 0;
            keygen_case(shape, &sd, &g, "garbage_first_zero", &base, kc, "");
            sign_case(shape, &blob, &msg, &g, "garbage_first_zero", &sbase, sc, "");
            let glen = rng.below(full as u64 + 20) as usize + 1;
            let mut g2 = rng.bytes(glen);
            if g2[0] == 0 {
                g2[0] = 0x80;
            }
            keygen_case(shape, &sd, &g2, "garbage_first_nonzero", &base, kc, "");
            sign_case(shape, &blob, &msg, &g2, "garbage_first_nonzero", &sbase, sc, "");
        }
        for short in [vec![1u8], vec![0x80u8], vec![0x80, 0], vec![0x80, 0, 0], vec![0x80, 0, 0, 4], vec![0xff; 4], vec![0xff; 5]] {
            keygen_case(shape, &sd, &short, "short_nonzero", &base, kc, "");
            sign_case(shape, &blob, &msg, &short, "short_nonzero", &sbase, sc, "");
        }
        // the valid buffer again; truncated; padded; with every level-word bit flipped; single bit flips elsewhere
        keygen_case(shape, &sd, &valid, "valid_reuse", &base, kc, "");
        sign_case(shape, &blob, &msg, &valid, "valid_reuse", &sbase, sc, "");
        // every truncation of the valid buffer for the first shape; for the others the lengths around
        // the header, the end of the cached layers and the end of the MAC
        let cuts: Vec<usize> = if si == 0 || thorough {
            (0..full).collect()
        } else {
            let mut c = vec![1usize, 3, 4, 5, full / 2];
            for k in 0..=6 {
                c.push(full.saturating_sub(n + k));
                c.push((full + k).saturating_sub(n).min(full - 1));
            }
            c.push(full - 1);
            c.sort();
            c.dedup();
            c
        };
        for cut in cuts {
            keygen_case(shape, &sd, &valid[..cut.min(full)], "valid_truncated", &base, kc, "");
            if si != 0 || cut % 3 == 0 || cut + n + 6 >= full {
                sign_case(shape, &blob, &msg, &valid[..cut.min(full)], "valid_truncated", &sbase, sc, "");
            }
        }
        let mut padded = valid.clone();
        padded.extend_from_slice(&[0u8; 7]);
        keygen_case(shape, &sd, &padded, "valid_padded", &base, kc, "");
        sign_case(shape, &blob, &msg, &padded, "valid_padded", &sbase, sc, "");
        for bit in 0..32 {
            let mut b = valid.clone();
            b[bit / 8] ^= 1 << (bit % 8);
            keygen_case(shape, &sd, &b, "level_word_bitflip", &base, kc, "");
            if bit % 3 == 0 || thorough {
                sign_case(shape, &blob, &msg, &b, "level_word_bitflip", &sbase, sc, "");
            }
        }
        let flips: Vec<usize> = if si == 0 || thorough { (4..full).collect() } else { (0..24).map(|_| 4 + rng.below(full as u64 - 4) as usize).collect() };
        for pos in flips {
            let mut b = valid.clone();
            b[pos] ^= 1 << rng.below(8);
            keygen_case(shape, &sd, &b, "bitflip", &base, kc, "");
            if pos % 7 == 0 {
                sign_case(shape, &blob, &msg, &b, "bitflip", &sbase, sc, "");
            }
        }
        // truncated inside (or right before) the MAC AND a cached node altered: a verifier of the MAC that
        // compares only the bytes present would trust the altered cache
        for keep in [0usize, 1, n / 2, n - 1] {
            let cut = full - n + keep;
            for _ in 0..(if thorough { 6 } else { 2 }) {
                let mut b = valid[..cut].to_vec();
                let pos = 4 + rng.below((full - n - 4) as u64) as usize;
                b[pos] ^= 1 << rng.below(8);
                keygen_case(shape, &sd, &b, "truncated_mac_node_altered", &base, kc, "");
                sign_case(shape, &blob, &msg, &b, "truncated_mac_node_altered", &sbase, sc, "");
            }
        }
        // a buffer made for another seed
        let mut sd2 = rng.bytes(n);
        sd2.resize(32, 0);
        let mut other = vec![0u8; 2000];
        let _ = keygen_aux(shape.hash, &shape.levels, &sd2, &mut other);
        keygen_case(shape, &sd, &other, "other_seed", &base, kc, "");
        sign_case(shape, &blob, &msg, &other, "other_seed", &sbase, sc, "");
        // a buffer made for the same seed and shape under the OTHER hash family of equal output length
        // (the MAC must be computed with the tree's hash function)
        {
            let other_hash = match shape.hash {
                "sha256_128" => "shake256_128", "sha256_192" => "shake256_192", "sha256_256" => "shake256_256",
                "shake256_128" => "sha256_128", "shake256_192" => "sha256_192", _ => "sha256_256",
            };
            let mut foreign = vec![0u8; 2000];
            let _ = keygen_aux(other_hash, &shape.levels, &sd, &mut foreign);
            keygen_case(shape, &sd, &foreign, "other_hash_same_seed", &base, kc, "");
            sign_case(shape, &blob, &msg, &foreign, "other_hash_same_seed", &sbase, sc, "");
        }
        // buffers made for seeds that differ from this one in a single byte (every position) --
        // the MAC key must depend on the whole seed
        for pos in 0..n {
            if !(thorough || pos < 2 || pos + 2 >= n || pos % 5 == 1) {
                continue;
            }
            let mut sd3 = sd.clone();
            sd3[pos] ^= 0x40;
            let mut near = vec![0u8; 2000];
            let _ = keygen_aux(shape.hash, &shape.levels, &sd3, &mut near);
            keygen_case(shape, &sd, &near, "near_seed", &base, kc, "");
            if pos % 10 == 1 {
                sign_case(shape, &blob, &msg, &near, "near_seed", &sbase, sc, "");
            }
        }
        // a buffer made for the SAME seed but another shape of the top tree (MAC is keyed by the seed only)
        let alt_levels: Vec<(u32, u32)> = if shape.levels[0].1 == 1 { vec![(shape.levels[0].0, 5)] } else { vec![(shape.levels[0].0, 1)] };
        let mut alt = vec![0u8; 2000];
        let _ = keygen_aux(shape.hash, &alt_levels, &sd, &mut alt);
        keygen_case(shape, &sd, &alt, "same_seed_other_shape", &base, kc, "aux-mac-other-shape");
        sign_case(shape, &blob, &msg, &alt, "same_seed_other_shape", &sbase, sc, "aux-mac-other-shape");
        // signing at several counters with the valid buffer (cache gets filled as it goes)
        let mut running = valid.clone();
        for c in [0u64, 2, 3, (1u64 << shape.total_height()) - 1] {
            let b = set_counter(&sk, c);
            let sb = sign(shape.hash, &b, &msg, true, None);
            let mut aux = running.clone();
            let (out, calls) = sign(shape.hash, &b, &msg, true, Some(&mut aux));
            let mut l = Line::new("sign_aux");
            l.str("hash", shape.hash).hex("blob", &b).hex("msg", &msg).hex("aux_in", &running).raw("accept", "true")
                .out_bytes("sig", &out).raw("calls", &calls_json(&calls)).hex("aux_out", &aux).str("tag", "running").raw("cost", &format!("{:.2}", sc)).str("kf", "");
            if !is_sha(shape.hash) {
                l.raw("nomodel", "true");
            }
            l.emit();
            Line::new("oracle").str("name", "sign_aux_transparent").raw("ok", if out == sb.0 && calls == sb.1 { "true" } else { "false" })
                .str("hash", shape.hash).raw("variants", &shape.variants_json()).str("tag", "running").num("aux_len", running.len() as u64)
                .hex("blob", &b).str("result", out.class()).str("kf", "").emit();
            running = aux;
        }
    }
}
