// A toy hasher (FNV-1a style, 32-bit state, 32 bytes squeezed) implementing the library's
// `HashChain` trait.  It exists to run the library and the Coq model (coq/theories/Exec/Toy.v:
// the same function) on shapes that are too costly with SHA-256 inside Coq: trees of height 10 and
// 15, long histories, deep aux caches.  The library's logic is generic in the hasher.
use digest::{typenum::U32, FixedOutput, FixedOutputReset, Output, OutputSizeUser, Reset, Update};
use hbs_lms::{HashChain, MAX_HASH_SIZE};
use tinyvec::ArrayVec;

const PRIME: u32 = 0x0100_0193;
const BASIS: u32 = 0x811c_9dc5;

#[derive(Debug, Clone)]
pub struct ToyCore {
    h: u32,
}

impl Default for ToyCore {
    fn default() -> Self {
        ToyCore { h: BASIS }
    }
}

impl ToyCore {
    fn absorb(&mut self, data: &[u8]) {
        for b in data {
            self.h = (self.h ^ (*b as u32)).wrapping_mul(PRIME);
        }
    }
    fn squeeze(&self) -> [u8; 32] {
        let mut out = [0u8; 32];
        let mut h = self.h;
        for i in 0..8u32 {
            h = (h ^ (i + 0x9e)).wrapping_mul(PRIME);
            h ^= h >> 15;
            out[(4 * i) as usize..(4 * i + 4) as usize].copy_from_slice(&h.to_be_bytes());
        }
        out
    }
}

pub fn toy32(data: &[u8]) -> [u8; 32] {
    let mut c = ToyCore::default();
    c.absorb(data);
    c.squeeze()
}

macro_rules! define_toy {
    ($name:ident, $output_size:expr) => {
        #[allow(non_camel_case_types)]
        #[derive(Debug, Default, Clone)]
        pub struct $name {
            core: ToyCore,
        }

        impl HashChain for $name {
            const OUTPUT_SIZE: u16 = $output_size;
            const BLOCK_SIZE: u16 = 64;

            fn finalize(self) -> ArrayVec<[u8; MAX_HASH_SIZE]> {
                ArrayVec::try_from(&self.core.squeeze()[..(Self::OUTPUT_SIZE as usize)]).unwrap()
            }

            fn finalize_reset(&mut self) -> ArrayVec<[u8; MAX_HASH_SIZE]> {
                let out = self.core.squeeze();
                self.core = ToyCore::default();
                ArrayVec::try_from(&out[..(Self::OUTPUT_SIZE as usize)]).unwrap()
            }
        }

        impl OutputSizeUser for $name {
            type OutputSize = U32;
        }

        impl FixedOutput for $name {
            fn finalize_into(self, out: &mut Output<Self>) {
                out.copy_from_slice(&self.core.squeeze());
            }
        }

        impl Reset for $name {
            fn reset(&mut self) {
                *self = Default::default();
            }
        }

        impl FixedOutputReset for $name {
            fn finalize_into_reset(&mut self, out: &mut Output<Self>) {
                out.copy_from_slice(&self.core.squeeze());
                self.core = ToyCore::default();
            }
        }

        impl Update for $name {
            fn update(&mut self, data: &[u8]) {
                self.core.absorb(data);
            }
        }

        impl PartialEq for $name {
            fn eq(&self, _: &Self) -> bool {
                false
            }
        }
    };
}

define_toy!(Toy_256, 32);
define_toy!(Toy_192, 24);
define_toy!(Toy_128, 16);
