// C12: Winternitz digit encoding. Hook-level, no trees.
use crate::util::*;
use crate::with_hash;
use hbs_lms::verif_hooks as hk;

fn digest_with_sum(n: usize, w: u32, sum: u64, rng: &mut Rng) -> Vec<u8> {
    // a digest whose checksum sum  Σ(2^w-1-d_i)  equals `sum` (digits assigned at random positions)
    let per = 8 / w as usize;
    let u = n * per;
    let maxd = (1u64 << w) - 1;
    let mut defect = vec![0u64; u]; // 2^w-1-d_i
    let mut left = sum.min(maxd * u as u64);
    let mut order: Vec<usize> = (0..u).collect();
    for i in (1..u).rev() {
        let j = rng.below(i as u64 + 1) as usize;
        order.swap(i, j);
    }
    for &i in &order {
        if left == 0 {
            break;
        }
        let take = if rng.chance(1, 2) { left.min(maxd) } else { rng.below(left.min(maxd) + 1) };
        defect[i] = take;
        left -= take;
    }
    for &i in &order {
        if left == 0 {
            break;
        }
        let room = maxd - defect[i];
        let take = left.min(room);
        defect[i] += take;
        left -= take;
    }
    let mut q = vec![0u8; n];
    for i in 0..u {
        let d = maxd - defect[i];
        let byte = i / per;
        let pos = i % per;
        let shift = w as usize * (per - 1 - pos);
        q[byte] |= (d as u8) << shift;
    }
    q
}

// RFC 8554 Appendix B, written from the RFC text
fn rfc_row(n: usize, w: u32) -> (u64, u64) {
    let u = (8 * n as u64 + w as u64 - 1) / w as u64;
    let x = ((1u64 << w) - 1) * u;
    let bits = 64 - x.leading_zeros() as u64; // floor(lg x) + 1
    let v = (bits + w as u64 - 1) / w as u64;
    (u + v, 16 - v * w as u64)
}

// RFC 8554 section 3.1.3
fn rfc_coef(s: &[u8], i: usize, w: usize) -> u64 {
    let byte = s[i * w / 8] as u64;
    ((1u64 << w) - 1) & (byte >> (8 - (w * (i % (8 / w)) + w)))
}

fn rfc_digits(n: usize, w: usize, q: &[u8]) -> Vec<u8> {
    let (p, ls) = rfc_row(n, w as u32);
    let mut sum: u64 = 0;
    for i in 0..(n * 8 / w) {
        sum += ((1u64 << w) - 1) - rfc_coef(q, i, w);
    }
    let c = ((sum << ls) & 0xffff) as u16;
    let mut s = q.to_vec();
    s.extend_from_slice(&c.to_be_bytes());
    (0..p as usize).map(|i| rfc_coef(&s, i, w) as u8).collect()
}

pub fn run(seed: u64, thorough: bool) {
    let mut rng = Rng::new(seed ^ 0xC12);
    // (a) parameter table as the library reports it
    for (h, _) in ALL_HASHES.iter() {
        for ty in 0u32..=6 {
            let o = with_hash!(*h, H => catch_opt(|| hk::lmots_parameter::<H>(ty)));
            let o = o.map(|(t, w, p, ls, n)| vec![t as u64, w as u64, p as u64, ls as u64, n as u64]);
            Line::new("ots_param").str("hash", h).num("ty", ty as u64).out_nums("out", &o).emit();
            if let Out::Ok(row) = &o {
                let (p, ls) = rfc_row(row[4] as usize, row[1] as u32);
                let ok = row[2] == p && row[3] == ls;
                Line::new("oracle").str("name", "ots_row_rfc").raw("ok", if ok { "true" } else { "false" })
                    .num("n", row[4]).num("w", row[1]).num("p", row[2]).num("ls", row[3])
                    .num("rfc_p", p).num("rfc_ls", ls).str("hash", h).emit();
                // domination witness: all-ones digest vs. the same digest with the last digit lowered
                let n = row[4] as usize;
                let q1 = vec![0xffu8; n];
                let mut q2 = q1.clone();
                q2[n - 1] = 0xfe;
                let d1 = with_hash!(*h, H => hk::lmots_digits::<H>(&q1, ty)).unwrap();
                let d2 = with_hash!(*h, H => hk::lmots_digits::<H>(&q2, ty)).unwrap();
                let dominated = d2.iter().zip(d1.iter()).all(|(a, b)| a <= b);
                Line::new("oracle").str("name", "no_domination_witness").raw("ok", if dominated { "false" } else { "true" })
                    .num("n", n as u64).num("w", row[1]).num("ls", row[3]).str("hash", h)
                    .hex("q1", &q1).hex("q2", &q2).hex("digits_q1", &d1).hex("digits_q2", &d2).emit();
            }
        }
    }
    // (b) digit extraction: every digit index of 34-byte strings that cover every byte value
    let mut strings: Vec<Vec<u8>> = Vec::new();
    for base in 0..8u32 {
        strings.push((0..34u32).map(|i| ((base * 34 + i) % 256) as u8).collect());
    }
    strings.push(vec![0u8; 34]);
    strings.push(vec![0xffu8; 34]);
    for _ in 0..(if thorough { 40 } else { 6 }) {
        strings.push(rng.bytes(34));
    }
    for s in &strings {
        for w in [1u8, 2, 4, 8] {
            let cnt = (s.len() * 8 / w as usize) as u16;
            let o = catch_opt(|| Some((0..cnt).map(|i| hk::coef_raw(s, i, w) as u8).collect::<Vec<u8>>()));
            Line::new("coefs").hex("s", s).num("w", w as u64).out_bytes("out", &o).emit();
        }
    }
    // (c) full digit vectors: boundary digests, every attainable checksum value (thorough) or a
    //     sample of them (quick), random digests
    for (h, n) in SHA_HASHES.iter() {
        for ty in 1u32..=4 {
            let w = [1u32, 2, 4, 8][(ty - 1) as usize];
            let maxsum = (n * 8 / w as usize) as u64 * ((1u64 << w) - 1);
            let mut digests: Vec<Vec<u8>> = vec![vec![0u8; *n], vec![0xffu8; *n]];
            let mut one = vec![0xffu8; *n];
            one[*n - 1] = 0xfe;
            digests.push(one);
            let mut sums: Vec<u64> = vec![0, 1, 2, 3, 4, maxsum, maxsum - 1, maxsum / 2, 255, 256, 257, 127, 128, 129];
            if thorough {
                sums.extend(0..=maxsum);
            } else {
                for _ in 0..24 {
                    sums.push(rng.below(maxsum + 1));
                }
            }
            for s in sums {
                digests.push(digest_with_sum(*n, w, s.min(maxsum), &mut rng));
            }
            for _ in 0..(if thorough { 200 } else { 20 }) {
                digests.push(rng.bytes(*n));
            }
            for q in &digests {
                let o = with_hash!(*h, H => catch_opt(|| hk::lmots_digits::<H>(q, ty)));
                Line::new("digits").str("hash", h).num("ty", ty as u64).hex("q", q).out_bytes("out", &o).emit();
                if let Out::Ok(d) = &o {
                    let want = rfc_digits(*n, w as usize, q);
                    let (_, rls) = rfc_row(*n, w);
                    let ls = with_hash!(*h, H => hk::lmots_parameter::<H>(ty)).map(|r| r.3 as u64).unwrap_or(99);
                    Line::new("oracle").str("name", "digits_rfc").raw("ok", if *d == want { "true" } else { "false" })
                        .num("n", *n as u64).num("w", w as u64).num("ls", ls).num("rfc_ls", rls).str("hash", h).hex("q", q)
                        .hex("got", d).hex("want", &want).emit();
                }
            }
        }
    }
}
