// C16: zeroize probes through the hook module (compile-time: each type is ZeroizeOnDrop).
use crate::lib_e2e::*;
use crate::util::*;
use crate::with_hash;
use hbs_lms::verif_hooks as hk;

pub fn run(_seed: u64, _thorough: bool) {
    for (hash, _) in ALL_HASHES.iter() {
        let probes = with_hash!(*hash, H => hk::zeroize_probes::<H>());
        let mut names = Vec::new();
        for (name, before, after) in &probes {
            names.push(*name);
            let had_secret = before.iter().any(|b| *b != 0);
            let wiped = after.iter().all(|b| *b == 0);
            Line::new("oracle").str("name", "zeroize_clears_secret_fields").raw("ok", if had_secret && wiped { "true" } else { "false" })
                .str("hash", hash).str("type", name).hex("before", &before[..before.len().min(48)]).hex("after", &after[..after.len().min(96)])
                .num("after_len", after.len() as u64).emit();
        }
        let want = ["Seed", "SeedAndLmsTreeIdentifier", "ReferenceImplPrivateKey", "LmsPrivateKey", "LmotsPrivateKey"];
        Line::new("oracle").str("name", "all_five_types_probed").raw("ok", if want.iter().all(|w| names.contains(w)) { "true" } else { "false" })
            .str("hash", hash).emit();
    }
    // drop-time wiping of the one secret-bearing type that is public: a populated Seed is dropped in
    // place inside storage that stays readable, and no secret byte may be left in that storage afterwards
    for (hash, n) in ALL_HASHES.iter() {
        let (before, after) = with_hash!(*hash, H => {
            let mut seed = hbs_lms::Seed::<H>::default();
            for b in seed.as_mut_slice().iter_mut() {
                *b = 0xa5;
            }
            let size = core::mem::size_of::<hbs_lms::Seed<H>>();
            let mut slot = core::mem::MaybeUninit::<hbs_lms::Seed<H>>::uninit();
            // SAFETY: the slot is written before it is dropped in place; its storage outlives the drop and is
            // only read as plain bytes afterwards.
            unsafe {
                slot.as_mut_ptr().write(seed);
                let before = core::slice::from_raw_parts(slot.as_ptr() as *const u8, size).to_vec();
                core::ptr::drop_in_place(slot.as_mut_ptr());
                let after = core::slice::from_raw_parts(slot.as_ptr() as *const u8, size).to_vec();
                (before, after)
            }
        });
        let had = before.iter().filter(|b| **b == 0xa5).count() >= *n;
        // (the length field of the fixed-capacity vector is not a secret and may keep its value)
        let ok = had && !after.contains(&0xa5) && after.iter().filter(|b| **b != 0).count() <= 2;
        Line::new("oracle").str("name", "seed_is_wiped_when_dropped").raw("ok", if ok { "true" } else { "false" })
            .str("hash", hash).hex("before", &before).hex("after", &after).emit();
    }
    // the exhausted key handed to the callback contains no seed bytes
    for shape in [Shape { hash: "sha256_256", levels: vec![(3, 1)] }, Shape { hash: "shake256_128", levels: vec![(3, 1), (3, 1)] },
                  Shape { hash: "sha256_192", levels: vec![(2, 1), (3, 1)] }] {
        let mut sd = vec![0x77u8; shape.n()];
        sd.resize(32, 0);
        if let Out::Ok((sk, _)) = keygen(shape.hash, &shape.levels, &sd) {
            let last = (1u64 << shape.total_height()) - 1;
            let blob = set_counter(&sk, last);
            let (out, calls) = sign(shape.hash, &blob, b"last", true, None);
            let ok = matches!(out, Out::Ok(_)) && calls.len() == 1 && calls[0].0.len() == blob.len()
                && calls[0].0[16..].iter().all(|b| *b == 0) && calls[0].0[..8].iter().all(|b| *b == 0);
            Line::new("oracle").str("name", "exhausted_key_has_no_seed").raw("ok", if ok { "true" } else { "false" })
                .str("hash", shape.hash).raw("variants", &shape.variants_json())
                .hex("handed_over", calls.first().map(|c| &c.0[..]).unwrap_or(&[])).emit();
            Line::new("sign").str("hash", shape.hash).hex("blob", &blob).hex("msg", b"last").raw("accept", "true")
                .out_bytes("sig", &out).raw("calls", &calls_json(&calls)).raw("cost", &format!("{:.2}", shape.sign_cost()))
                .raw(if is_sha(shape.hash) { "model" } else { "nomodel" }, "true").emit();
        }
    }
}
