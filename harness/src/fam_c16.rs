// C16: zeroize probes through the hook module (compile-time: each type is ZeroizeOnDrop).
use crate::lib_e2e::*;
use crate::util::*;
use crate::with_hash;
use hbs_lms::verif_hooks as hk;

pub fn run(_seed: u64, _thorough: bool) {
    for (hash, _) in ALL_HASHES.iter() {
        let probes = with_hash!(*hash, H => hk::zeroize_probes::<H>());
        let mut names = Vec::new();
        for (name, before, after) in &probes {
            names.push(*name);
            let had_secret = before.iter().any(|b| *b != 0);
            let wiped = after.iter().all(|b| *b == 0);
            Line::new("oracle").str("name", "zeroize_clears_secret_fields").raw("ok", if had_secret && wiped { "true" } else { "false" })
                .str("hash", hash).str("type", name).hex("before", &before[..before.len().min(48)]).hex("after", &after[..after.len().min(96)])
                .num("after_len", after.len() as u64).emit();
        }
        let want = ["Seed", "SeedAndLmsTreeIdentifier", "ReferenceImplPrivateKey", "LmsPrivateKey", "LmotsPrivateKey"];
        Line::new("oracle").str("name", "all_five_types_probed").raw("ok", if want.iter().all(|w| names.contains(w)) { "true" } else { "false" })
            .str("hash", hash).emit();
    }
    // the exhausted key handed to the callback contains no seed bytes
    for shape in [Shape { hash: "sha256_256", levels: vec![(3, 1)] }, Shape { hash: "shake256_128", levels: vec![(3, 1), (3, 1)] },
                  Shape { hash: "sha256_192", levels: vec![(2, 1), (3, 1)] }] {
        let mut sd = vec![0x77u8; shape.n()];
        sd.resize(32, 0);
        if let Out::Ok((sk, _)) = keygen(shape.hash, &shape.levels, &sd) {
            let last = (1u64 << shape.total_height()) - 1;
            let blob = set_counter(&sk, last);
            let (out, calls) = sign(shape.hash, &blob, b"last", true, None);
            let ok = matches!(out, Out::Ok(_)) && calls.len() == 1 && calls[0].0.len() == blob.len()
                && calls[0].0[16..].iter().all(|b| *b == 0) && calls[0].0[..8].iter().all(|b| *b == 0);
            Line::new("oracle").str("name", "exhausted_key_has_no_seed").raw("ok", if ok { "true" } else { "false" })
                .str("hash", shape.hash).raw("variants", &shape.variants_json())
                .hex("handed_over", calls.first().map(|c| &c.0[..]).unwrap_or(&[])).emit();
            Line::new("sign").str("hash", shape.hash).hex("blob", &blob).hex("msg", b"last").raw("accept", "true")
                .out_bytes("sig", &out).raw("calls", &calls_json(&calls)).raw("cost", &format!("{:.2}", shape.sign_cost()))
                .raw(if is_sha(shape.hash) { "model" } else { "nomodel" }, "true").emit();
        }
    }
}
