// Small self-contained helpers: hex, JSON lines, PRNG, panic capture.
use std::fmt::Write as _;
use std::panic::{self, AssertUnwindSafe};

pub fn hex(b: &[u8]) -> String {
    let mut s = String::with_capacity(b.len() * 2);
    for x in b {
        let _ = write!(s, "{:02x}", x);
    }
    s
}

pub fn unhex(s: &str) -> Vec<u8> {
    let b = s.as_bytes();
    (0..b.len() / 2)
        .map(|i| u8::from_str_radix(std::str::from_utf8(&b[2 * i..2 * i + 2]).unwrap(), 16).unwrap())
        .collect()
}

/// splitmix64: every random choice of the harness derives from one state.
#[derive(Clone)]
pub struct Rng(pub u64);

impl Rng {
    pub fn new(seed: u64) -> Self {
        Rng(seed ^ 0x9E37_79B9_7F4A_7C15)
    }
    pub fn next(&mut self) -> u64 {
        self.0 = self.0.wrapping_add(0x9E37_79B9_7F4A_7C15);
        let mut z = self.0;
        z = (z ^ (z >> 30)).wrapping_mul(0xBF58_476D_1CE4_E5B9);
        z = (z ^ (z >> 27)).wrapping_mul(0x94D0_49BB_1331_11EB);
        z ^ (z >> 31)
    }
    pub fn below(&mut self, n: u64) -> u64 {
        if n == 0 {
            0
        } else {
            self.next() % n
        }
    }
    pub fn bytes(&mut self, n: usize) -> Vec<u8> {
        (0..n).map(|_| self.next() as u8).collect()
    }
    pub fn pick<'a, T>(&mut self, xs: &'a [T]) -> &'a T {
        &xs[self.below(xs.len() as u64) as usize]
    }
    pub fn chance(&mut self, num: u64, den: u64) -> bool {
        self.below(den) < num
    }
}

/// Outcome class of a call into the library.
#[derive(Clone, Debug, PartialEq)]
pub enum Out<T> {
    Ok(T),
    Err,
    Panic,
}

impl<T> Out<T> {
    pub fn class(&self) -> &'static str {
        match self {
            Out::Ok(_) => "ok",
            Out::Err => "err",
            Out::Panic => "panic",
        }
    }
    pub fn map<U>(self, f: impl FnOnce(T) -> U) -> Out<U> {
        match self {
            Out::Ok(x) => Out::Ok(f(x)),
            Out::Err => Out::Err,
            Out::Panic => Out::Panic,
        }
    }
}

pub fn silence_panics() {
    panic::set_hook(Box::new(|_| {}));
}

/// Run `f`, classifying Some/None/unwind.
pub fn catch_opt<T>(f: impl FnOnce() -> Option<T>) -> Out<T> {
    match panic::catch_unwind(AssertUnwindSafe(f)) {
        Ok(Some(x)) => Out::Ok(x),
        Ok(None) => Out::Err,
        Err(_) => Out::Panic,
    }
}

pub fn catch_res<T, E>(f: impl FnOnce() -> Result<T, E>) -> Out<T> {
    match panic::catch_unwind(AssertUnwindSafe(f)) {
        Ok(Ok(x)) => Out::Ok(x),
        Ok(Err(_)) => Out::Err,
        Err(_) => Out::Panic,
    }
}

/// One JSON object per line; values are strings, integers, or pre-rendered JSON.
pub struct Line {
    s: String,
}

impl Line {
    pub fn new(kind: &str) -> Self {
        let mut l = Line { s: String::from("{") };
        l.str("k", kind);
        l
    }
    fn key(&mut self, k: &str) {
        if self.s.len() > 1 {
            self.s.push(',');
        }
        let _ = write!(self.s, "\"{}\":", k);
    }
    pub fn str(&mut self, k: &str, v: &str) -> &mut Self {
        self.key(k);
        let _ = write!(self.s, "\"{}\"", v);
        self
    }
    pub fn num(&mut self, k: &str, v: u64) -> &mut Self {
        self.key(k);
        let _ = write!(self.s, "{}", v);
        self
    }
    pub fn hex(&mut self, k: &str, v: &[u8]) -> &mut Self {
        self.str(k, &hex(v))
    }
    pub fn raw(&mut self, k: &str, v: &str) -> &mut Self {
        self.key(k);
        self.s.push_str(v);
        self
    }
    pub fn nums(&mut self, k: &str, v: &[u64]) -> &mut Self {
        let body: Vec<String> = v.iter().map(|x| x.to_string()).collect();
        self.raw(k, &format!("[{}]", body.join(",")))
    }
    /// outcome with bytes payload: {"c":"ok","v":"hex"} | {"c":"err"} | {"c":"panic"}
    pub fn out_bytes(&mut self, k: &str, o: &Out<Vec<u8>>) -> &mut Self {
        match o {
            Out::Ok(b) => self.raw(k, &format!("{{\"c\":\"ok\",\"v\":\"{}\"}}", hex(b))),
            _ => self.raw(k, &format!("{{\"c\":\"{}\"}}", o.class())),
        }
    }
    pub fn out_num(&mut self, k: &str, o: &Out<u64>) -> &mut Self {
        match o {
            Out::Ok(b) => self.raw(k, &format!("{{\"c\":\"ok\",\"n\":{}}}", b)),
            _ => self.raw(k, &format!("{{\"c\":\"{}\"}}", o.class())),
        }
    }
    pub fn out_nums(&mut self, k: &str, o: &Out<Vec<u64>>) -> &mut Self {
        match o {
            Out::Ok(b) => {
                let body: Vec<String> = b.iter().map(|x| x.to_string()).collect();
                self.raw(k, &format!("{{\"c\":\"ok\",\"ns\":[{}]}}", body.join(",")))
            }
            _ => self.raw(k, &format!("{{\"c\":\"{}\"}}", o.class())),
        }
    }
    pub fn emit(&mut self) {
        println!("{}}}", self.s);
    }
}

/// Dispatch on the hash name to one of the six library hashers (or the harness's toy hasher).
#[macro_export]
macro_rules! with_hash {
    ($name:expr, $H:ident => $body:expr) => {
        match $name {
            "sha256_256" => {
                type $H = hbs_lms::Sha256_256;
                $body
            }
            "sha256_192" => {
                type $H = hbs_lms::Sha256_192;
                $body
            }
            "sha256_128" => {
                type $H = hbs_lms::Sha256_128;
                $body
            }
            "shake256_256" => {
                type $H = hbs_lms::Shake256_256;
                $body
            }
            "shake256_192" => {
                type $H = hbs_lms::Shake256_192;
                $body
            }
            "shake256_128" => {
                type $H = hbs_lms::Shake256_128;
                $body
            }
            "toy_256" => {
                type $H = $crate::toy::Toy_256;
                $body
            }
            "toy_192" => {
                type $H = $crate::toy::Toy_192;
                $body
            }
            "toy_128" => {
                type $H = $crate::toy::Toy_128;
                $body
            }
            other => panic!("unknown hash {}", other),
        }
    };
}

pub const SHA_HASHES: [(&str, usize); 3] =
    [("sha256_256", 32), ("sha256_192", 24), ("sha256_128", 16)];
pub const ALL_HASHES: [(&str, usize); 6] = [
    ("sha256_256", 32),
    ("sha256_192", 24),
    ("sha256_128", 16),
    ("shake256_256", 32),
    ("shake256_192", 24),
    ("shake256_128", 16),
];

pub fn hash_n(name: &str) -> usize {
    match name {
        "toy_256" => 32,
        "toy_192" => 24,
        "toy_128" => 16,
        _ => ALL_HASHES.iter().find(|(h, _)| *h == name).unwrap().1,
    }
}
