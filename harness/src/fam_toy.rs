// The library and the model run with the toy hasher (src/toy.rs = coq/theories/Exec/Toy.v): shapes that
// are too costly for the Gallina SHA-256 -- trees of height 10 and 15, leaf indices >= 256, deep aux
// caches -- are compared with the model byte for byte, not only judged by oracles.
use crate::fam_e2e::emit_verify_kf;
use crate::lib_e2e::*;
use crate::util::*;

fn emit_keygen_model(shape: &Shape, seed: &[u8]) -> Option<(Vec<u8>, Vec<u8>)> {
    let r = keygen(shape.hash, &shape.levels, seed);
    let mut l = Line::new("keygen");
    l.str("hash", shape.hash).raw("variants", &shape.variants_json()).hex("seed", &seed[..shape.n()]);
    match &r {
        Out::Ok((sk, pk)) => {
            l.raw("sk", &format!("{{\"c\":\"ok\",\"v\":\"{}\"}}", hex(sk)));
            l.raw("pk", &format!("{{\"c\":\"ok\",\"v\":\"{}\"}}", hex(pk)));
        }
        o => {
            l.raw("sk", &format!("{{\"c\":\"{}\"}}", o.class()));
            l.raw("pk", &format!("{{\"c\":\"{}\"}}", o.class()));
        }
    }
    l.raw("cost", &format!("{:.2}", shape.keygen_cost())).emit();
    match r {
        Out::Ok(x) => Some(x),
        _ => None,
    }
}

pub fn run(seed: u64, thorough: bool) {
    let mut rng = Rng::new(seed ^ 0x70F);
    // the two implementations of the toy hasher agree (Rust here, Gallina in Exec/Toy.v)
    for hash in ["toy_256", "toy_192", "toy_128"] {
        for len in [0usize, 1, 2, 3, 4, 5, 31, 32, 33, 55, 64, 100, 257] {
            let data = rng.bytes(len);
            let out = crate::toy::toy32(&data)[..hash_n(hash)].to_vec();
            Line::new("hash").str("hash", hash).hex("data", &data).hex("out", &out).raw("cost", "0.001").emit();
        }
    }
    let mut shapes = vec![
        Shape { hash: "toy_128", levels: vec![(3, 6)] },          // W4 / H10
        Shape { hash: "toy_256", levels: vec![(1, 6)] },          // W1 / H10: 265 chains, chain index >= 256
        Shape { hash: "toy_192", levels: vec![(3, 6), (4, 1)] },  // H10 over the 4-leaf height
        Shape { hash: "toy_256", levels: vec![(2, 5), (3, 1), (3, 5)] },
        Shape { hash: "toy_128", levels: vec![(3, 5); 4] },       // four levels of H5: 2^20 signatures
        Shape { hash: "toy_256", levels: vec![(1, 1), (2, 1), (3, 1), (4, 1), (1, 5), (2, 5), (3, 5), (4, 5)] },
    ];
    if thorough {
        shapes.push(Shape { hash: "toy_192", levels: vec![(2, 7)] }); // W2 / H15
        shapes.push(Shape { hash: "toy_192", levels: vec![(3, 6), (3, 6)] });
        shapes.push(Shape { hash: "toy_256", levels: vec![(4, 6)] });
        shapes.push(Shape { hash: "toy_256", levels: vec![(1, 5); 8] });
    }
    for shape in shapes.iter() {
        let mut sd = rng.bytes(shape.n());
        sd.resize(32, 0);
        let (sk, pk) = match emit_keygen_model(shape, &sd) {
            Some(x) => x,
            None => {
                Line::new("oracle").str("name", "keygen_ok").raw("ok", "false").str("hash", shape.hash)
                    .raw("variants", &shape.variants_json()).emit();
                continue;
            }
        };
        let total = shape.total_height();
        let last = (1u64 << total) - 1;
        let mut cs: Vec<u64> = vec![0, 1, 255, 256, 257, 511, 512, 1023, 1024, 32767, 32768, 65535, 65536, last - 1, last];
        cs.retain(|c| *c <= last);
        // the roll-over points of every level
        let mut acc = 0;
        for h in shape.heights().iter().rev() {
            acc += h;
            if acc < total {
                cs.push((1 << acc) - 1);
                cs.push(1 << acc);
            }
        }
        for _ in 0..(if thorough { 6 } else { 2 }) {
            cs.push(rng.below(last + 1));
        }
        cs.sort();
        cs.dedup();
        // thorough: up to 24 counters, fewer for the shapes whose every signature costs minutes in Coq
        let maxn = if thorough { ((1500.0 / shape.sign_cost().max(1.0)) as usize).clamp(4, 24) }
                   else if shape.heights().iter().any(|h| *h > 5) { 3 } else { 2 };
        if cs.len() > maxn {
            // quick tier: the byte boundary of the leaf index, one roll-over, the last leaf
            let mut keep: Vec<u64> = cs.iter().cloned().filter(|c| [255u64, 256, last].contains(c)).collect();
            let rest: Vec<u64> = cs.iter().cloned().filter(|c| !keep.contains(c)).collect();
            for c in rest.iter().step_by((rest.len() + maxn - 1) / maxn.max(1)) {
                if keep.len() < maxn {
                    keep.push(*c);
                }
            }
            keep.sort();
            cs = keep;
        }
        for (i, c) in cs.iter().enumerate() {
            let blob = set_counter(&sk, *c);
            let msg = rng.bytes([0usize, 1, 33, 200][i % 4]);
            let (out, calls) = sign(shape.hash, &blob, &msg, true, None);
            Line::new("sign").str("hash", shape.hash).hex("blob", &blob).hex("msg", &msg).raw("accept", "true")
                .out_bytes("sig", &out).raw("calls", &calls_json(&calls)).raw("cost", &format!("{:.2}", shape.sign_cost())).emit();
            let ok = match &out {
                Out::Ok(sig) => emit_verify_kf(shape.hash, &msg, sig, &pk, shape.verify_cost(), "valid", kf_of(shape)).iter().all(|x| *x == Out::Ok(())),
                _ => false,
            };
            Line::new("oracle").str("name", "verify_after_sign").raw("ok", if ok { "true" } else { "false" })
                .str("hash", shape.hash).raw("variants", &shape.variants_json()).str("c", &c.to_string()).emit();
        }
    }
}

/// C10 with trees whose aux cache has several levels (H10: levels 10, 8, 6, 4, 2 by buffer size)
pub fn run_aux(seed: u64, thorough: bool) {
    let mut rng = Rng::new(seed ^ 0x70FA);
    // quick tier: every 6th case is re-computed by the model (each costs one tree of height 10)
    crate::fam_c10::set_model_every(if thorough { 3 } else { 7 });
    let mut shapes = vec![Shape { hash: "toy_128", levels: vec![(3, 6)] }];
    if thorough {
        shapes.push(Shape { hash: "toy_192", levels: vec![(3, 6), (3, 1)] });
        shapes.push(Shape { hash: "toy_256", levels: vec![(2, 6)] });
    }
    for shape in shapes.iter() {
        let n = shape.n();
        let mut sd = rng.bytes(n);
        sd.resize(32, 0);
        let base = keygen(shape.hash, &shape.levels, &sd);
        let (sk, _pk) = match &base { Out::Ok(x) => x.clone(), _ => continue };
        let kc = shape.keygen_cost();
        let sc = shape.sign_cost();
        let top = shape.heights()[0] as usize;
        let total = shape.total_height();
        // buffer sizes around every cache configuration: header + MAC + n * 2^level for the level sets
        let mut sizes: Vec<usize> = vec![0, 1, 3, 4, 5, 4 + n - 1, 4 + n, 4 + n + 4 * n - 1, 4 + n + 4 * n, 4 + n + 4 * n + 1];
        let mut lv = 4;
        while lv <= top {
            let s = 4 + n + n * (1usize << lv);
            sizes.extend_from_slice(&[s - 1, s, s + 1, s + n * 4, s + n * 4 + n * 16]);
            lv += 2;
        }
        sizes.push(4 + n + n * ((1usize << (top + 1)) - 1) / 1);
        sizes.push(100_000);
        sizes.sort();
        sizes.dedup();
        let msg = b"toy-aux".to_vec();
        let counters: Vec<u64> = vec![0, 1, 255, 256, (1u64 << total) - 1];
        for (si, size) in sizes.iter().enumerate() {
            let valid = crate::fam_c10::keygen_case(shape, &sd, &vec![0u8; *size], "toy_fresh", &base, kc, "");
            if !(thorough || si % 3 == 0) {
                continue;
            }
            // signing with the buffer key generation left behind, and with a corrupted copy of it
            for c in counters.iter() {
                let blob = set_counter(&sk, *c);
                let sbase = sign(shape.hash, &blob, &msg, true, None);
                crate::fam_c10::sign_case(shape, &blob, &msg, &valid, "toy_valid", &sbase, sc, "");
                if valid.len() > 8 && *c == 256 {
                    let mut b = valid.clone();
                    let pos = 4 + rng.below(valid.len() as u64 - 4) as usize;
                    b[pos] ^= 1 << rng.below(8);
                    crate::fam_c10::sign_case(shape, &blob, &msg, &b, "toy_bitflip", &sbase, sc, "");
                    crate::fam_c10::keygen_case(shape, &sd, &b, "toy_bitflip", &base, kc, "");
                }
            }
        }
    }
}
