// C08 hasher layer: the six library hashers against the sha2 / sha3 crates (truncation, XOF read
// length, multi-update, finalize_reset reuse, clone-then-continue), and the Gallina SHA-256.
use crate::util::*;
use crate::with_hash;
use hbs_lms::HashChain;
use sha2::Digest;
use sha3::digest::{ExtendableOutput, Update as _, XofReader};

fn reference(hash: &str, data: &[u8]) -> Vec<u8> {
    let n = hash_n(hash);
    if hash.starts_with("sha256") {
        sha2::Sha256::digest(data)[..n].to_vec()
    } else {
        let mut h = sha3::Shake256::default();
        h.update(data);
        let mut out = vec![0u8; n];
        h.finalize_xof().read(&mut out);
        out
    }
}

pub fn run(seed: u64, thorough: bool) {
    let mut rng = Rng::new(seed ^ 0x4A5);
    let mut lens: Vec<usize> = vec![0, 1, 23, 54, 55, 56, 57, 63, 64, 65, 119, 120, 135, 136, 137, 200, 271, 272, 300];
    for _ in 0..(if thorough { 60 } else { 12 }) {
        lens.push(rng.below(700) as usize);
    }
    for (hash, n) in ALL_HASHES.iter() {
        for len in &lens {
            let data = rng.bytes(*len);
            let want = reference(hash, &data);
            let cut1 = rng.below(*len as u64 + 1) as usize;
            let cut2 = cut1 + rng.below((*len - cut1) as u64 + 1) as usize;
            let (one, split, reset_twice, cloned) = with_hash!(*hash, H => {
                use digest::Update;
                // one update, finalize
                let mut h = H::default();
                Update::update(&mut h, &data);
                let one = h.finalize().as_slice().to_vec();
                // three updates via chain
                let split = H::default().chain(&data[..cut1]).chain(&data[cut1..cut2]).chain(&data[cut2..]).finalize().as_slice().to_vec();
                // finalize_reset twice on the same object
                let mut h = H::default();
                Update::update(&mut h, &data);
                let a = h.finalize_reset().as_slice().to_vec();
                Update::update(&mut h, &data);
                let b = h.finalize_reset().as_slice().to_vec();
                // clone a partially fed hasher and continue both
                let mut h = H::default();
                Update::update(&mut h, &data[..cut1]);
                let mut c = h.clone();
                Update::update(&mut h, &data[cut1..]);
                Update::update(&mut c, &data[cut1..]);
                let cl = (h.finalize().as_slice().to_vec(), c.finalize().as_slice().to_vec());
                (one, split, (a, b), cl)
            });
            let ok = one == want && split == want && reset_twice.0 == want && reset_twice.1 == want && cloned.0 == want && cloned.1 == want
                && one.len() == *n;
            Line::new("oracle").str("name", "hasher_matches_reference_crate").raw("ok", if ok { "true" } else { "false" })
                .str("hash", hash).num("len", *len as u64).hex("data", &data[..data.len().min(64)]).hex("got", &one).hex("want", &want).emit();
            // the Gallina SHA-256 / SHAKE256 (Exec/Sha256.v, Exec/Keccak.v) on the same input
            Line::new("hash").str("hash", hash).hex("data", &data).hex("out", &one).raw("cost", "0.02").emit();
        }
    }
}
