// Shared end-to-end helpers: shapes, keygen/sign/verify wrappers with outcome classification.
use crate::util::*;
use crate::with_hash;
use hbs_lms::signature::{Signature as _, Verifier};
use hbs_lms::{HashChain, HssParameter, LmotsAlgorithm, LmsAlgorithm, Seed};

#[derive(Clone, Debug)]
pub struct Shape {
    pub hash: &'static str,
    /// (LmotsAlgorithm discriminant 1..4, LmsAlgorithm discriminant 1,5..9) per level
    pub levels: Vec<(u32, u32)>,
}

pub fn w_of(v: u32) -> u64 {
    [0, 1, 2, 4, 8][v as usize]
}
pub fn h_of(v: u32) -> u64 {
    match v {
        1 => 2,
        5 => 5,
        6 => 10,
        7 => 15,
        8 => 20,
        9 => 25,
        _ => 0,
    }
}
pub fn p_of(n: usize, w: u64) -> u64 {
    let t = [[136u64, 200, 265], [68, 101, 133], [35, 51, 67], [18, 26, 34]];
    let wi = match w { 1 => 0, 2 => 1, 4 => 2, _ => 3 };
    let ni = match n { 16 => 0, 24 => 1, _ => 2 };
    t[wi][ni]
}

/// hashes needed to build one tree of this level (what the Coq model will have to evaluate)
pub fn tree_cost(n: usize, lv: (u32, u32)) -> f64 {
    let w = w_of(lv.0);
    let p = p_of(n, w);
    ((1u64 << h_of(lv.1)) * (p * ((1 << w) - 1) + p + 2)) as f64
}

/// id of the known LM-OTS checksum-shift deviation (n, w) this shape touches, if any
pub fn kf_of(shape: &Shape) -> &'static str {
    let n = shape.n();
    for l in &shape.levels {
        match (n, w_of(l.0)) {
            (16, 1) => return "lmots-ls-n16-w1",
            (16, 2) => return "lmots-ls-n16-w2",
            (24, 1) => return "lmots-ls-n24-w1",
            _ => {}
        }
    }
    ""
}

impl Shape {
    pub fn n(&self) -> usize {
        hash_n(self.hash)
    }
    pub fn heights(&self) -> Vec<u64> {
        self.levels.iter().map(|l| h_of(l.1)).collect()
    }
    pub fn total_height(&self) -> u64 {
        self.heights().iter().sum()
    }
    /// with the toy hasher the model runs about 6 times faster inside Coq than with SHA-256
    /// (what remains is the assembly of the preimages), with the Gallina SHAKE256 about 4 times slower
    pub fn speed(&self) -> f64 {
        if self.hash.starts_with("toy") { 6.0 } else if self.hash.starts_with("shake") { 0.25 } else { 1.0 }
    }
    pub fn keygen_cost(&self) -> f64 {
        tree_cost(self.n(), self.levels[0]) / 4000.0 / self.speed()
    }
    pub fn sign_cost(&self) -> f64 {
        let n = self.n();
        let mut c = 0.0;
        for (i, lv) in self.levels.iter().enumerate() {
            c += tree_cost(n, *lv) * if i == 0 { 1.0 } else { 2.0 };
        }
        c / 4000.0 / self.speed()
    }
    /// cost of verifying one signature (chains of every level + the climbs), same unit as sign_cost
    pub fn verify_cost(&self) -> f64 {
        let n = self.n();
        let mut c = 0.0;
        for lv in self.levels.iter() {
            let w = w_of(lv.0);
            c += (p_of(n, w) * (1u64 << w) + h_of(lv.1) + 4) as f64;
        }
        c / 4000.0 / self.speed()
    }
    pub fn variants_json(&self) -> String {
        let v: Vec<String> = self.levels.iter().map(|l| format!("[{},{}]", l.0, l.1)).collect();
        format!("[{}]", v.join(","))
    }
}

pub fn params<H: HashChain>(levels: &[(u32, u32)]) -> Vec<HssParameter<H>> {
    levels
        .iter()
        .map(|(o, l)| HssParameter::<H>::new(LmotsAlgorithm::from(*o), LmsAlgorithm::from(*l)))
        .collect()
}

pub fn seed_of<H: HashChain>(bytes: &[u8]) -> Seed<H> {
    let mut s = Seed::<H>::default();
    let n = s.as_mut_slice().len();
    s.as_mut_slice().copy_from_slice(&bytes[..n]);
    s
}

/// keygen without aux: (private key bytes, public key bytes)
pub fn keygen(hash: &str, levels: &[(u32, u32)], seed: &[u8]) -> Out<(Vec<u8>, Vec<u8>)> {
    with_hash!(hash, H => catch_res(|| {
        let ps = params::<H>(levels);
        hbs_lms::keygen::<H>(&ps, &seed_of::<H>(seed), None)
            .map(|(sk, vk)| (sk.as_slice().to_vec(), vk.as_slice().to_vec()))
    }))
}

pub fn keygen_aux(hash: &str, levels: &[(u32, u32)], seed: &[u8], aux: &mut Vec<u8>) -> Out<(Vec<u8>, Vec<u8>)> {
    with_hash!(hash, H => {
        let mut new_len = aux.len();
        let r = catch_res(|| {
            let ps = params::<H>(levels);
            let mut slice: &mut [u8] = &mut aux[..];
            let r = hbs_lms::keygen::<H>(&ps, &seed_of::<H>(seed), Some(&mut slice))
                .map(|(sk, vk)| (sk.as_slice().to_vec(), vk.as_slice().to_vec()));
            new_len = slice.len();
            r
        });
        aux.truncate(new_len);
        r
    })
}

/// sign through the byte-level API with a recording callback
pub fn sign(hash: &str, blob: &[u8], msg: &[u8], accept: bool, aux: Option<&mut Vec<u8>>) -> (Out<Vec<u8>>, Vec<(Vec<u8>, bool)>) {
    let mut calls: Vec<(Vec<u8>, bool)> = Vec::new();
    let out = with_hash!(hash, H => {
        let mut cb = |new_key: &[u8]| -> Result<(), ()> {
            calls.push((new_key.to_vec(), accept));
            if accept { Ok(()) } else { Err(()) }
        };
        match aux {
            None => catch_res(|| hbs_lms::sign::<H>(msg, blob, &mut cb, None).map(|s| s.as_ref().to_vec())),
            Some(a) => {
                let mut new_len = a.len();
                let r = catch_res(|| {
                    let mut slice: &mut [u8] = &mut a[..];
                    let r = hbs_lms::sign::<H>(msg, blob, &mut cb, Some(&mut slice)).map(|s| s.as_ref().to_vec());
                    new_len = slice.len();
                    r
                });
                a.truncate(new_len);
                r
            }
        }
    });
    (out, calls)
}

/// the three verification entry points; each Ok(()) / Err / Panic
pub fn verify3(hash: &str, msg: &[u8], sig: &[u8], pk: &[u8]) -> [Out<()>; 3] {
    with_hash!(hash, H => {
        let a = catch_res(|| hbs_lms::verify::<H>(msg, sig, pk));
        let b = catch_res(|| {
            let vk = hbs_lms::VerifyingKey::<H>::from_bytes(pk)?;
            let s = hbs_lms::Signature::from_bytes(sig)?;
            vk.verify(msg, &s)
        });
        let c = catch_res(|| {
            let vk = hbs_lms::VerifyingKey::<H>::from_bytes(pk)?;
            let s = hbs_lms::VerifierSignature::from_ref(sig)?;
            vk.verify(msg, &s)
        });
        [a, b, c]
    })
}

/// SigningKey::try_sign: (signature, key bytes afterwards)
pub fn try_sign(hash: &str, blob: &[u8], msg: &[u8]) -> (Out<Vec<u8>>, Out<Vec<u8>>) {
    use hbs_lms::signature::SignerMut;
    with_hash!(hash, H => {
        let mut key_after: Out<Vec<u8>> = Out::Err;
        let r = catch_res(|| {
            let mut sk = hbs_lms::SigningKey::<H>::from_bytes(blob)?;
            let r = sk.try_sign(msg).map(|s| s.as_ref().to_vec());
            key_after = Out::Ok(sk.as_slice().to_vec());
            r
        });
        if r == Out::Panic {
            key_after = Out::Panic;
        }
        (r, key_after)
    })
}

/// ONE SigningKey object: sign `msg1` with the key `first`, then overwrite the object's bytes with
/// `second` (through as_mut_slice) and sign `msg2`: (second signature, key bytes afterwards)
pub fn try_sign_reused(hash: &str, first: &[u8], msg1: &[u8], second: &[u8], msg2: &[u8]) -> (Out<Vec<u8>>, Out<Vec<u8>>) {
    use hbs_lms::signature::SignerMut;
    with_hash!(hash, H => {
        let mut key_after: Out<Vec<u8>> = Out::Err;
        let r = catch_res(|| {
            let mut sk = hbs_lms::SigningKey::<H>::from_bytes(first)?;
            let _ = sk.try_sign(msg1);
            if sk.as_slice().len() != second.len() {
                return Err(hbs_lms::signature::Error::new());
            }
            sk.as_mut_slice().copy_from_slice(second);
            let r = sk.try_sign(msg2).map(|s| s.as_ref().to_vec());
            key_after = Out::Ok(sk.as_slice().to_vec());
            r
        });
        if r == Out::Panic {
            key_after = Out::Panic;
        }
        (r, key_after)
    })
}

pub fn lifetime(hash: &str, blob: &[u8]) -> Out<u64> {
    with_hash!(hash, H => catch_res(|| hbs_lms::SigningKey::<H>::from_bytes(blob)?.get_lifetime()))
}

pub fn out_unit_json(o: &Out<()>) -> String {
    format!("{{\"c\":\"{}\"}}", o.class())
}

pub fn calls_json(calls: &[(Vec<u8>, bool)]) -> String {
    let v: Vec<String> = calls.iter().map(|(b, a)| format!("[\"{}\",{}]", hex(b), a)).collect();
    format!("[{}]", v.join(","))
}

pub fn set_counter(blob: &[u8], c: u64) -> Vec<u8> {
    let mut b = blob.to_vec();
    b[..8].copy_from_slice(&c.to_be_bytes());
    b
}

/// hashers the Coq model can execute: SHA-256 (Exec/Sha256.v), SHAKE256 (Exec/Keccak.v) and the toy
/// hasher (Exec/Toy.v) -- all of them since SHAKE256 was added; kept as the single switch
pub fn is_sha(hash: &str) -> bool {
    hash.starts_with("sha256") || hash.starts_with("toy") || hash.starts_with("shake256")
}
