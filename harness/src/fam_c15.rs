// C15: fast-verify signing (harness built with --features fast_verify,verbose under different
// HBS_LMS_THREADS / HBS_LMS_MAX_HASH_OPTIMIZATIONS).
use crate::lib_e2e::*;
use crate::util::*;
use crate::with_hash;

fn sign_mut(hash: &str, blob: &[u8], msg: &mut Vec<u8>, accept: bool) -> (Out<(Vec<u8>, u32)>, Vec<(Vec<u8>, bool)>) {
    let mut calls: Vec<(Vec<u8>, bool)> = Vec::new();
    let out = with_hash!(hash, H => {
        let mut cb = |new_key: &[u8]| -> Result<(), ()> {
            calls.push((new_key.to_vec(), accept));
            if accept { Ok(()) } else { Err(()) }
        };
        catch_res(|| hbs_lms::sign_mut::<H>(&mut msg[..], blob, &mut cb, None).map(|s| (s.as_ref().to_vec(), s.hash_iterations)))
    });
    (out, calls)
}

pub fn run(seed: u64, thorough: bool) {
    let mut rng = Rng::new(seed ^ 0xC15);
    Line::new("info").str("what", "fast_verify_build")
        .str("threads", option_env!("HBS_LMS_THREADS").unwrap_or("default"))
        .str("max_hash_optimizations", option_env!("HBS_LMS_MAX_HASH_OPTIMIZATIONS").unwrap_or("default")).emit();
    let mut shapes: Vec<Shape> = Vec::new();
    for (h, _) in ALL_HASHES.iter() {
        for w in 1..=4u32 {
            if w == 4 && !thorough && *h != "sha256_128" {
                continue;
            }
            shapes.push(Shape { hash: h, levels: vec![(w, 1)] });
        }
    }
    shapes.push(Shape { hash: "sha256_192", levels: vec![(3, 1), (2, 1)] });
    shapes.push(Shape { hash: "sha256_128", levels: vec![(2, 1), (3, 1), (3, 1)] });
    for shape in &shapes {
        let n = shape.n();
        let mut sd = rng.bytes(n);
        sd.resize(32, 0);
        let (sk, pk) = match keygen(shape.hash, &shape.levels, &sd) { Out::Ok(x) => x, _ => continue };
        let total = 1u64 << shape.total_height();
        for (ci, c) in [0u64, total - 1].iter().enumerate() {
            let blob = set_counter(&sk, *c);
            // well-formed: body of various lengths followed by n zero bytes
            for body_len in [1usize, 17, 64] {
                if ci == 1 && body_len != 17 {
                    continue;
                }
                for accept in [true, false] {
                    let mut msg = rng.bytes(body_len);
                    msg.extend(vec![0u8; n]);
                    let msg_in = msg.clone();
                    let (out, calls) = sign_mut(shape.hash, &blob, &mut msg, accept);
                    let mut l = Line::new("sign_mut");
                    l.str("hash", shape.hash).hex("blob", &blob).hex("msg_in", &msg_in).hex("msg_out", &msg)
                        .raw("accept", if accept { "true" } else { "false" });
                    match &out {
                        Out::Ok((s, it)) => { l.raw("sig", &format!("{{\"c\":\"ok\",\"v\":\"{}\"}}", hex(s))).num("hash_iterations", *it as u64); }
                        o => { l.raw("sig", &format!("{{\"c\":\"{}\"}}", o.class())).num("hash_iterations", 0); }
                    }
                    l.raw("calls", &calls_json(&calls)).hex("pk", &pk).raw("cost", &format!("{:.2}", shape.sign_cost()));
                    if !is_sha(shape.hash) {
                        l.raw("nomodel", "true");
                    }
                    l.emit();
                    let prefix_same = msg.len() == msg_in.len() && msg[..body_len] == msg_in[..body_len];
                    let (ok, why) = match (&out, accept) {
                        (Out::Ok((s, _)), true) => {
                            let v = verify3(shape.hash, &msg, s, &pk);
                            let ver = v.iter().all(|x| *x == Out::Ok(()));
                            (ver && prefix_same && calls.len() == 1 && calls[0].1, if !ver { "signature does not verify for the returned message" } else { "protocol" })
                        }
                        (Out::Err, false) => (calls.len() == 1 && !calls[0].1 && prefix_same, "rejected callback"),
                        (Out::Panic, _) => (false, "panic"),
                        _ => (false, "unexpected result"),
                    };
                    Line::new("oracle").str("name", "sign_mut_valid").raw("ok", if ok { "true" } else { "false" }).str("why", why)
                        .str("hash", shape.hash).raw("variants", &shape.variants_json()).hex("blob", &blob)
                        .num("body_len", body_len as u64).str("result", out.class()).num("calls", calls.len() as u64).emit();
                }
            }
            // refused without consuming a leaf: too short, or a non-zero trailer
            let mut bad: Vec<Vec<u8>> = vec![vec![], vec![0u8; n], vec![0u8; n - 1], vec![7u8; 3]];
            let mut nz = rng.bytes(9);
            nz.extend(vec![0u8; n]);
            let last = nz.len() - 1;
            nz[last] = 1;
            bad.push(nz.clone());
            nz[last] = 0;
            nz[9] = 0x80;
            bad.push(nz.clone());
            nz[9] = 0;
            // non-zero trailers whose bytes cancel out under xor / sum / and, at both ends and in the middle
            for (a, b, va, vb) in [(9usize, 10usize, 0x5au8, 0x5au8), (9, last, 0x01, 0x01), (9 + n / 2, last, 0xff, 0xff), (9, 10, 0x01, 0xff),
                                   (last - 1, last, 0x80, 0x80)] {
                let mut t = nz.clone();
                t[a] = va;
                t[b] = vb;
                bad.push(t);
            }
            let mut all_ff = nz.clone();
            for x in all_ff[9..].iter_mut() {
                *x = 0xff;
            }
            bad.push(all_ff);
            for pos in 9..nz.len() {
                if (pos - 9) % 5 == 2 {
                    let mut t = nz.clone();
                    t[pos] = 0x10;
                    bad.push(t);
                }
            }
            for m in bad {
                let mut msg = m.clone();
                let (out, calls) = sign_mut(shape.hash, &blob, &mut msg, true);
                let mut l = Line::new("sign_mut");
                l.str("hash", shape.hash).hex("blob", &blob).hex("msg_in", &m).hex("msg_out", &msg).raw("accept", "true");
                match &out {
                    Out::Ok((s, it)) => { l.raw("sig", &format!("{{\"c\":\"ok\",\"v\":\"{}\"}}", hex(s))).num("hash_iterations", *it as u64); }
                    o => { l.raw("sig", &format!("{{\"c\":\"{}\"}}", o.class())).num("hash_iterations", 0); }
                }
                l.raw("calls", &calls_json(&calls)).hex("pk", &pk).raw("cost", "0.02");
                if !is_sha(shape.hash) {
                    l.raw("nomodel", "true");
                }
                l.emit();
                Line::new("oracle").str("name", "sign_mut_refuses").raw("ok", if out == Out::Err && calls.is_empty() && msg == m { "true" } else { "false" })
                    .str("hash", shape.hash).hex("msg", &m).str("result", out.class()).num("calls", calls.len() as u64).emit();
            }
        }
    }
}
