// C04 (and the end-to-end part of C05/C03): callback protocol at every failure point.
use crate::lib_e2e::*;
use crate::util::*;

pub fn wiped(n: usize) -> Vec<u8> {
    let mut w = vec![0u8; 8];
    w.extend_from_slice(&[0xff; 8]);
    w.extend_from_slice(&vec![0u8; n]);
    w
}

/// the C04 rules, judged on the implementation's own behaviour
pub fn judge(blob: &[u8], out: &Out<Vec<u8>>, calls: &[(Vec<u8>, bool)], accept: bool, n: usize, total_height: Option<u64>) -> (bool, String) {
    if calls.len() > 1 {
        return (false, "callback invoked more than once".into());
    }
    match out {
        Out::Panic => return (false, "panic".into()),
        Out::Ok(_) => {
            if calls.len() != 1 || !calls[0].1 || !accept {
                return (false, "signature returned without exactly one accepted callback".into());
            }
        }
        Out::Err => {
            if calls.len() == 1 && calls[0].1 {
                return (false, "callback accepted the successor but no signature was returned".into());
            }
        }
    }
    if let Some(c) = calls.first() {
        if c.0.len() != blob.len() {
            return (false, "successor key has a different length".into());
        }
        if let Some(th) = total_height {
            let cur = u64::from_be_bytes(blob[..8].try_into().unwrap());
            let last = if th >= 64 { u64::MAX } else { (1u64 << th) - 1 };
            let expect = if cur >= last {
                wiped(n)
            } else {
                let mut e = blob.to_vec();
                e[..8].copy_from_slice(&(cur + 1).to_be_bytes());
                e
            };
            if c.0 != expect {
                return (false, "successor key is not counter+1 / the wiped key".into());
            }
        }
    }
    (true, String::new())
}

pub fn emit_sign_judged(shape: &Shape, blob: &[u8], msg: &[u8], accept: bool, th: Option<u64>, tag: &str, cost: f64) -> Out<Vec<u8>> {
    emit_sign_judged_opt(shape, blob, msg, accept, th, tag, cost, false)
}

#[allow(clippy::too_many_arguments)]
pub fn emit_sign_judged_opt(shape: &Shape, blob: &[u8], msg: &[u8], accept: bool, th: Option<u64>, tag: &str, cost: f64, nomodel: bool) -> Out<Vec<u8>> {
    let (out, calls) = sign(shape.hash, blob, msg, accept, None);
    let mut l = Line::new("sign");
    l.str("hash", shape.hash).hex("blob", blob).hex("msg", msg).raw("accept", if accept { "true" } else { "false" })
        .out_bytes("sig", &out).raw("calls", &calls_json(&calls)).raw("cost", &format!("{:.2}", cost)).str("tag", tag);
    if !is_sha(shape.hash) || nomodel {
        l.raw("nomodel", "true");
    }
    l.emit();
    let (ok, why) = judge(blob, &out, &calls, accept, shape.n(), th);
    Line::new("oracle").str("name", "callback_protocol").raw("ok", if ok { "true" } else { "false" })
        .str("why", &why).str("hash", shape.hash).hex("blob", blob).raw("accept", if accept { "true" } else { "false" })
        .str("result", out.class()).num("calls", calls.len() as u64).str("tag", tag).emit();
    out
}

/// the in-memory signing key: same signature as the byte-level function, and afterwards it holds
/// exactly the successor key the byte-level function hands to its callback
pub fn emit_try_sign(shape: &Shape, blob: &[u8], msg: &[u8], tag: &str, cost: f64) {
    let (sig, after) = try_sign(shape.hash, blob, msg);
    let mut l = Line::new("try_sign");
    l.str("hash", shape.hash).hex("blob", blob).hex("msg", msg).out_bytes("sig", &sig).out_bytes("after", &after)
        .raw("cost", &format!("{:.2}", cost)).str("tag", tag);
    if !is_sha(shape.hash) {
        l.raw("nomodel", "true");
    }
    l.emit();
    let (sig2, calls) = sign(shape.hash, blob, msg, true, None);
    let same_sig = sig == sig2;
    let same_key = match (&after, calls.first()) {
        (Out::Ok(a), Some(c)) => *a == c.0,
        (Out::Ok(a), None) => a == blob || sig2 != Out::Err && false,
        (Out::Err, None) => sig2 == Out::Err, // from_bytes refused the blob
        _ => false,
    };
    let ok = same_sig && same_key && sig != Out::Panic;
    Line::new("oracle").str("name", "signing_key_same_as_sign").raw("ok", if ok { "true" } else { "false" })
        .str("hash", shape.hash).hex("blob", blob).str("tag", tag)
        .raw("same_sig", if same_sig { "true" } else { "false" }).raw("same_key", if same_key { "true" } else { "false" }).emit();
}

pub fn run(seed: u64, thorough: bool) {
    let mut rng = Rng::new(seed ^ 0xC04);
    let mut shapes = vec![
        Shape { hash: "sha256_128", levels: vec![(3, 1)] },
        Shape { hash: "sha256_128", levels: vec![(3, 1), (3, 1)] },
        Shape { hash: "sha256_192", levels: vec![(2, 1), (3, 1)] },
        Shape { hash: "shake256_256", levels: vec![(3, 1), (2, 1)] },
    ];
    if thorough {
        shapes.push(Shape { hash: "sha256_256", levels: vec![(3, 1), (3, 1), (3, 1)] });
        shapes.push(Shape { hash: "sha256_128", levels: vec![(3, 5)] });
        shapes.push(Shape { hash: "shake256_128", levels: vec![(3, 1), (3, 1), (3, 1)] });
    }
    for shape in &shapes {
        let n = shape.n();
        let mut sd = rng.bytes(n);
        sd.resize(32, 0);
        let (sk, _pk) = match keygen(shape.hash, &shape.levels, &sd) {
            Out::Ok(x) => x,
            _ => continue,
        };
        let th = shape.total_height();
        let total = 1u64 << th;
        let step = if thorough || total <= 16 { 1 } else { (total / 12).max(1) };
        let mut c = 0;
        while c < total {
            for accept in [true, false] {
                let msg = rng.bytes((c % 5) as usize * 13);
                emit_sign_judged(shape, &set_counter(&sk, c), &msg, accept, Some(th), "lifetime", shape.sign_cost());
            }
            if c % 3 == 0 {
                emit_try_sign(shape, &set_counter(&sk, c), b"in-memory", "lifetime", shape.sign_cost());
            }
            c += step;
        }
        // last leaf: hands over the wiped key
        for accept in [true, false] {
            emit_sign_judged(shape, &set_counter(&sk, total - 1), b"last", accept, Some(th), "last", shape.sign_cost());
        }
        emit_try_sign(shape, &set_counter(&sk, total - 1), b"last", "last", shape.sign_cost());
        emit_try_sign(shape, &set_counter(&sk, total - 2), b"last but one", "lifetime", shape.sign_cost());
        // failing preconditions: wiped key, truncated / extended key, malformed parameter byte
        let w = wiped(n);
        emit_try_sign(shape, &w, b"x", "wiped", 0.01);
        emit_try_sign(shape, &sk[..sk.len() - 1], b"x", "truncated", 0.01);
        for accept in [true, false] {
            emit_sign_judged(shape, &w, b"x", accept, None, "wiped", 0.01);
            for cut in [0usize, 1, 7, 8, 15, 16, sk.len() - 1] {
                emit_sign_judged(shape, &sk[..cut.min(sk.len())], b"x", accept, None, "truncated", 0.01);
            }
            let mut longer = sk.clone();
            longer.push(0);
            emit_sign_judged(shape, &longer, b"x", accept, None, "extended", 0.01);
            for (pos, val) in [(8usize, 0x00u8), (8, 0x10), (8, 0x1f), (8, 0x35), (9, 0xf3), (15, 0x00), (8, 0xff)] {
                let mut bad = sk.clone();
                bad[pos] = val;
                // only run when the decoded shape stays cheap: an invalid byte fails before any hashing
                emit_sign_judged(shape, &bad, b"x", accept, None, "bad_param_byte", 0.02);
            }
        }
    }
}
