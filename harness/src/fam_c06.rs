// C06 / C02: verification on arbitrary and on structure-aware mutated bytes.
use crate::lib_e2e::*;
use crate::util::*;
use crate::with_hash;
use hbs_lms::signature::Signature as _;

struct Triple {
    shape: Shape,
    msg: Vec<u8>,
    sig: Vec<u8>,
    pk: Vec<u8>,
    sk: Vec<u8>,
}

fn make(shape: Shape, counter: u64, rng: &mut Rng) -> Option<Triple> {
    let mut sd = rng.bytes(shape.n());
    sd.resize(32, 0);
    let (sk, pk) = match keygen(shape.hash, &shape.levels, &sd) { Out::Ok(x) => x, _ => return None };
    let mlen = 1 + rng.below(40) as usize;
    let msg = rng.bytes(mlen);
    let (out, _) = sign(shape.hash, &set_counter(&sk, counter), &msg, true, None);
    match out {
        Out::Ok(sig) => Some(Triple { shape, msg, sig, pk, sk }),
        _ => None,
    }
}

fn emit(hash: &str, msg: &[u8], sig: &[u8], pk: &[u8], tag: &str, expect_valid: Option<bool>, cost: f64) {
    emit_kf(hash, msg, sig, pk, tag, expect_valid, cost, "")
}

#[allow(clippy::too_many_arguments)]
fn emit_kf(hash: &str, msg: &[u8], sig: &[u8], pk: &[u8], tag: &str, expect_valid: Option<bool>, cost: f64, kf: &str) {
    let v = verify3(hash, msg, sig, pk);
    let mut l = Line::new("verify");
    l.str("hash", hash).hex("msg", msg).hex("sig", sig).hex("pk", pk).raw("verdict", &out_unit_json(&v[0]))
        .raw("verdict_vk_sig", &out_unit_json(&v[1])).raw("verdict_vk_ref", &out_unit_json(&v[2]))
        .str("tag", tag).raw("cost", &format!("{:.3}", cost)).str("kf", kf);
    if !is_sha(hash) {
        l.raw("nomodel", "true");
    }
    l.emit();
    // byte-level constructors alone
    let ctor_ok = with_hash!(hash, H => {
        let a = catch_res(|| hbs_lms::Signature::from_bytes(sig).map(|_| ()));
        let b = catch_res(|| hbs_lms::VerifyingKey::<H>::from_bytes(pk).map(|_| ()));
        let c = catch_res(|| hbs_lms::VerifierSignature::from_ref(sig).map(|_| ()));
        a != Out::Panic && b != Out::Panic && c != Out::Panic
    });
    let no_panic = ctor_ok && v.iter().all(|x| *x != Out::Panic);
    Line::new("oracle").str("name", "verify_total").raw("ok", if no_panic { "true" } else { "false" })
        .str("hash", hash).str("tag", tag).num("sig_len", sig.len() as u64).num("pk_len", pk.len() as u64)
        .hex("msg", msg).hex("sig", &sig[..sig.len().min(48)]).hex("pk", pk)
        .raw("verdicts", &format!("[\"{}\",\"{}\",\"{}\"]", v[0].class(), v[1].class(), v[2].class())).emit();
    // the three entry points agree (Signature::from_bytes may additionally refuse over-long input)
    if let Some(valid) = expect_valid {
        let ok = if valid { v.iter().all(|x| *x == Out::Ok(())) } else { v.iter().all(|x| *x != Out::Ok(())) };
        Line::new("oracle").str("name", if valid { "valid_accepted" } else { "mutant_rejected" })
            .raw("ok", if ok { "true" } else { "false" }).str("hash", hash).str("tag", tag)
            .num("sig_len", sig.len() as u64).num("pk_len", pk.len() as u64).hex("msg", msg).hex("pk", pk)
            .raw("verdicts", &format!("[\"{}\",\"{}\",\"{}\"]", v[0].class(), v[1].class(), v[2].class())).emit();
    }
}

fn put32(v: &mut [u8], off: usize, x: u32) {
    v[off..off + 4].copy_from_slice(&x.to_be_bytes());
}

pub fn run(seed: u64, thorough: bool) {
    let mut rng = Rng::new(seed ^ 0xC06);
    let shapes = vec![
        (Shape { hash: "sha256_128", levels: vec![(3, 1)] }, 2u64),
        (Shape { hash: "sha256_192", levels: vec![(3, 1), (2, 1)] }, 7),
        (Shape { hash: "sha256_256", levels: vec![(2, 1)] }, 1),
        (Shape { hash: "sha256_128", levels: vec![(3, 1), (3, 1), (3, 1)] }, 37),
        (Shape { hash: "shake256_128", levels: vec![(3, 1), (3, 1)] }, 5),
        (Shape { hash: "shake256_256", levels: vec![(1, 1)] }, 3),
        // rows whose checksum shift deviates from Appendix B (known finding): RFC 8554 rejects their signatures
        (Shape { hash: "sha256_128", levels: vec![(1, 1)] }, 1),
        (Shape { hash: "sha256_192", levels: vec![(1, 1), (3, 1)] }, 9),
        (Shape { hash: "sha256_128", levels: vec![(3, 1), (2, 1)] }, 6),
    ];
    let mut triples: Vec<Triple> = Vec::new();
    for (s, c) in shapes {
        if let Some(t) = make(s, c, &mut rng) {
            triples.push(t);
        }
    }
    let vcost = |t: &Triple| t.shape.sign_cost() / 25.0;
    // raw garbage, including empty inputs
    for hash in ["sha256_256", "sha256_128", "shake256_192"] {
        emit(hash, b"", b"", b"", "empty_all", Some(false), 0.001);
        emit(hash, b"m", &[0, 0, 0, 0], &[0, 0, 0, 1], "four_bytes", Some(false), 0.001);
        for _ in 0..(if thorough { 60 } else { 12 }) {
            let a = rng.below(200) as usize;
            let b = rng.below(80) as usize;
            emit(hash, b"m", &rng.bytes(a), &rng.bytes(b), "random_bytes", Some(false), 0.001);
        }
    }
    for (ti, t) in triples.iter().enumerate() {
        let h = t.shape.hash;
        let n = t.shape.n();
        emit_kf(h, &t.msg, &t.sig, &t.pk, "valid", Some(true), vcost(t), kf_of(&t.shape));
        if !kf_of(&t.shape).is_empty() {
            continue; // mutants of these are judged with the shapes that follow the RFC
        }
        // every prefix of the signature (first two triples; a stride for the others) and of the key
        let stride = if ti < 2 || thorough { 1 } else { 13 };
        let mut k = 0;
        while k < t.sig.len() {
            emit(h, &t.msg, &t.sig[..k], &t.pk, "sig_prefix", Some(false), 0.002);
            k += stride;
        }
        for k in 0..t.pk.len() {
            emit(h, &t.msg, &t.sig, &t.pk[..k], "pk_prefix", Some(false), 0.002);
        }
        // trailing data
        for extra in [1usize, 2, 4, 16] {
            let mut s = t.sig.clone();
            s.extend(rng.bytes(extra));
            emit(h, &t.msg, &s, &t.pk, "sig_extended", Some(false), vcost(t));
            let mut p = t.pk.clone();
            p.extend(vec![0u8; extra]);
            emit(h, &t.msg, &t.sig, &p, "pk_extended", Some(false), vcost(t));
        }
        // level count field of signature and key: every small value and boundary values
        let mut vals: Vec<u32> = (0..=33).collect();
        vals.extend([200, 255, 256, 65535, 65536, 0x7fffffff, 0x80000000, 0xfffffffe, 0xffffffff]);
        for v in &vals {
            let mut s = t.sig.clone();
            put32(&mut s, 0, *v);
            let same = s == t.sig;
            emit(h, &t.msg, &s, &t.pk, "sig_level_count", Some(same), if same { vcost(t) } else { 0.01 });
            let mut p = t.pk.clone();
            put32(&mut p, 0, *v);
            let same = p == t.pk;
            emit(h, &t.msg, &t.sig, &p, "pk_level_count", Some(same), if same { vcost(t) } else { 0.01 });
        }
        // type codes in the key (LMS type at 4, LM-OTS type at 8) and in the first LMS signature
        // (q at 4, LM-OTS type at 8, LMS type after the LM-OTS signature)
        let p_chains = p_of(n, w_of(t.shape.levels[0].0)) as usize;
        let lms_type_off = 4 + 4 + 4 + n * (1 + p_chains);
        let mut tvals: Vec<u32> = (0..=16).collect();
        tvals.extend([0x0100, 0xffffffff, 0x80000001]);
        for v in &tvals {
            for (off, tag) in [(4usize, "pk_lms_type"), (8, "pk_ots_type")] {
                let mut p = t.pk.clone();
                put32(&mut p, off, *v);
                let same = p == t.pk;
                emit(h, &t.msg, &t.sig, &p, tag, Some(same), if same { vcost(t) } else { 0.02 });
            }
            for (off, tag) in [(8usize, "sig_ots_type"), (lms_type_off, "sig_lms_type")] {
                let mut s = t.sig.clone();
                put32(&mut s, off, *v);
                let same = s == t.sig;
                emit(h, &t.msg, &s, &t.pk, tag, Some(same), if same { vcost(t) } else { 0.02 });
            }
        }
        // leaf index: every value 0..8 and boundaries
        for v in [0u32, 1, 2, 3, 4, 5, 7, 8, 31, 32, 0xffffffff, 0x80000000] {
            let mut s = t.sig.clone();
            put32(&mut s, 4, v);
            let same = s == t.sig;
            emit(h, &t.msg, &s, &t.pk, "sig_leaf_index", Some(same), vcost(t));
        }
        // single byte flips at random and at structured positions (randomizer, chain value, path node, I, root)
        let mut positions: Vec<usize> = vec![12, 12 + n, lms_type_off + 4, t.sig.len() - 1];
        for _ in 0..(if thorough { 60 } else { 10 }) {
            positions.push(rng.below(t.sig.len() as u64) as usize);
        }
        for pos in positions {
            let mut s = t.sig.clone();
            s[pos] ^= 1 << rng.below(8);
            emit(h, &t.msg, &s, &t.pk, "sig_bitflip", Some(false), vcost(t));
        }
        for pos in [12usize, 27, 28, t.pk.len() - 1] {
            let mut p = t.pk.clone();
            p[pos] ^= 0x40;
            emit(h, &t.msg, &t.sig, &p, "pk_bitflip", Some(false), vcost(t));
        }
        let mut m2 = t.msg.clone();
        m2[0] ^= 1;
        emit(h, &m2, &t.sig, &t.pk, "msg_flip", Some(false), vcost(t));
        emit(h, b"", &t.sig, &t.pk, "msg_empty", Some(false), vcost(t));
    }
    // splices: signature of one key under another key of the same hash; other hash; chain truncation /
    // extension with the message replaced by a child public key
    triples.retain(|t| kf_of(&t.shape).is_empty());
    for a in 0..triples.len() {
        for b in 0..triples.len() {
            if a == b {
                continue;
            }
            let (ta, tb) = (&triples[a], &triples[b]);
            emit(tb.shape.hash, &ta.msg, &ta.sig, &tb.pk, "cross_key", Some(false), 0.3);
        }
    }
    for t in triples.iter().filter(|t| t.shape.levels.len() >= 2) {
        // drop the first signed public key: the remaining chain is a valid signature under the CHILD key,
        // and the first signed public key alone is an LMS signature of the child key bytes under the root
        let n = t.shape.n();
        let p0 = p_of(n, w_of(t.shape.levels[0].0)) as usize;
        let h0 = h_of(t.shape.levels[0].1) as usize;
        let lms_sig_len = 4 + 4 + n * (1 + p0) + 4 + n * h0;
        let pk_len = 4 + 4 + 16 + n;
        let child_pk = &t.sig[4 + lms_sig_len..4 + lms_sig_len + pk_len];
        let levels = t.shape.levels.len() as u32;
        // truncated chain: pretend the root signature over the child key is a one-level HSS signature
        let mut s = (0u32).to_be_bytes().to_vec();
        s.extend_from_slice(&t.sig[4..4 + lms_sig_len]);
        let mut p1 = t.pk.clone();
        put32(&mut p1, 0, 1);
        emit(t.shape.hash, child_pk, &s, &p1, "chain_truncated_msg_is_child_key_L1_key", Some(true), 0.3);
        emit(t.shape.hash, child_pk, &s, &t.pk, "chain_truncated_msg_is_child_key", Some(false), 0.3);
        // the first signed public key replicated k times: exactly MAX-1, MAX, MAX+1 well-formed entries
        for k in 1..=9u32 {
            let spk = &t.sig[4..4 + lms_sig_len + pk_len];
            let mut s = k.to_be_bytes().to_vec();
            for _ in 0..k {
                s.extend_from_slice(spk);
            }
            s.extend_from_slice(&t.sig[4 + lms_sig_len + pk_len..]);
            let mut p = t.pk.clone();
            put32(&mut p, 0, k + 1);
            emit(t.shape.hash, &t.msg, &s, &p, "replicated_signed_public_key", Some(levels == 2 && k == 1), 0.4);
        }
        // the tail under the child key with the root's level count
        let mut tail = (levels - 2).to_be_bytes().to_vec();
        tail.extend_from_slice(&t.sig[4 + lms_sig_len + pk_len..]);
        let mut cp = levels.to_be_bytes().to_vec();
        cp.extend_from_slice(child_pk);
        emit(t.shape.hash, &t.msg, &tail, &cp, "tail_under_child_key_wrong_L", Some(false), 0.3);
        let _ = &t.sk;
    }
}
