// C14: the same harness built under different HBS_LMS_* environments.  Parameter lists inside and
// just outside the configured limits; every case carries an "xid" so that the driver can compare
// the outputs of different builds for the same input.
use crate::lib_e2e::*;
use crate::util::*;
use hbs_lms::verif_hooks as hk;

fn within(levels: &[(u32, u32)], max_levels: usize, heights: &[usize], ws: &[usize]) -> bool {
    if levels.is_empty() || levels.len() > max_levels {
        return false;
    }
    levels.iter().enumerate().all(|(i, l)| h_of(l.1) as usize <= heights[i] && w_of(l.0) as usize >= ws[i])
}

pub fn run(seed: u64, thorough: bool) {
    let consts = hk::build_constants();
    let get = |name: &str| -> Vec<usize> { consts.iter().find(|c| c.0 == name).map(|c| c.1.clone()).unwrap_or_default() };
    let max_levels = get("MAX_ALLOWED_HSS_LEVELS")[0];
    let heights = get("TREE_HEIGHTS");
    let ws = get("WINTERNITZ_PARAMETERS");
    Line::new("info").str("what", "build_constants").num("max_levels", max_levels as u64)
        .nums("heights", &heights.iter().map(|x| *x as u64).collect::<Vec<_>>())
        .nums("ws", &ws.iter().map(|x| *x as u64).collect::<Vec<_>>())
        .num("max_sig_len", get("MAX_HSS_SIGNATURE_LENGTH")[0] as u64)
        .num("private_key_size", get("REF_IMPL_MAX_PRIVATE_KEY_SIZE")[0] as u64).emit();
    // the same generator state in every build: inputs depend on the seed only
    let mut rng = Rng::new(seed ^ 0xC14);
    let alphabet: [(u32, u32); 4] = [(2, 1), (3, 1), (4, 1), (3, 5)];
    let mut lists: Vec<Vec<(u32, u32)>> = Vec::new();
    for a in alphabet {
        lists.push(vec![a]);
        for b in alphabet {
            lists.push(vec![a, b]);
        }
    }
    lists.push(vec![(3, 1), (3, 1), (3, 1)]);
    lists.push(vec![(4, 1), (4, 1), (4, 1)]);
    lists.push(vec![(3, 1), (4, 1), (2, 1)]);
    lists.push(vec![(4, 1), (4, 1), (4, 1), (4, 1)]);
    lists.push(vec![(4, 1), (4, 1), (4, 1), (4, 1), (4, 1)]);
    lists.push(vec![(3, 6)]); // H10: beyond a height limit of 5
    lists.push(vec![(1, 1)]); // W1: below a Winternitz limit of 2
    if thorough {
        for _ in 0..10 {
            let len = 1 + rng.below(4) as usize;
            lists.push((0..len).map(|_| *rng.pick(&alphabet)).collect());
        }
    }
    let hash = "sha256_128";
    for (li, levels) in lists.iter().enumerate() {
        let shape = Shape { hash, levels: levels.clone() };
        let inside = within(levels, max_levels, &heights, &ws);
        let mut sd = vec![(li as u8).wrapping_mul(37).wrapping_add(1); 16];
        sd.resize(32, 0);
        if h_of(levels[0].1) > 5 && inside {
            continue; // a tall top tree is only interesting when it is refused
        }
        let r = keygen(hash, levels, &sd);
        let mut l = Line::new("keygen");
        l.str("hash", hash).raw("variants", &shape.variants_json()).hex("seed", &sd[..16]);
        match &r {
            Out::Ok((sk, pk)) => {
                l.raw("sk", &format!("{{\"c\":\"ok\",\"v\":\"{}\"}}", hex(sk)));
                l.raw("pk", &format!("{{\"c\":\"ok\",\"v\":\"{}\"}}", hex(pk)));
            }
            o => {
                l.raw("sk", &format!("{{\"c\":\"{}\"}}", o.class()));
                l.raw("pk", &format!("{{\"c\":\"{}\"}}", o.class()));
            }
        }
        l.raw("cost", &format!("{:.2}", if inside { shape.keygen_cost() } else { 0.02 })).str("xid", &format!("keygen-{}", li))
            .raw("inside", if inside { "true" } else { "false" }).emit();
        let ok = match (&r, inside) {
            (Out::Ok(_), true) => true,
            (Out::Err, false) => true,
            _ => false,
        };
        Line::new("oracle").str("name", "limits_only_restrict").raw("ok", if ok { "true" } else { "false" })
            .raw("variants", &shape.variants_json()).raw("inside", if inside { "true" } else { "false" }).str("result", r.class())
            .num("max_levels", max_levels as u64).emit();
        if let Out::Ok((sk, _)) = &r {
            // the aux cache under this build's limits (its arrays are sized by the build's maximum height):
            // same key pair and signature with a buffer as without, compared with the model as well
            if li % 3 == 0 || h_of(levels[0].1) as usize == heights[0] {
                crate::fam_c10::set_model_every(1);
                let kc = shape.keygen_cost();
                let valid = crate::fam_c10::keygen_case(&shape, &sd, &vec![0u8; 3000], "c14_fresh", &r, kc, "");
                let blob = set_counter(sk, 1);
                let sbase = sign(hash, &blob, b"c14-aux", true, None);
                crate::fam_c10::sign_case(&shape, &blob, b"c14-aux", &valid, "c14_valid", &sbase, shape.sign_cost(), "");
            }
        }
        if let Out::Ok((sk, pk)) = &r {
            let total = 1u64 << shape.total_height();
            for c in [0u64, total / 2, total - 1] {
                let blob = set_counter(sk, c);
                let msg = format!("c14-{}-{}", li, c).into_bytes();
                let (out, calls) = sign(hash, &blob, &msg, true, None);
                Line::new("sign").str("hash", hash).hex("blob", &blob).hex("msg", &msg).raw("accept", "true")
                    .out_bytes("sig", &out).raw("calls", &calls_json(&calls)).raw("cost", &format!("{:.2}", shape.sign_cost()))
                    .str("xid", &format!("sign-{}-{}", li, c)).emit();
                let lt = lifetime(hash, &blob);
                Line::new("lifetime").str("hash", hash).hex("blob", &blob)
                    .raw("life", &match &lt { Out::Ok(x) => format!("{{\"c\":\"ok\",\"n\":\"{}\"}}", x), o => format!("{{\"c\":\"{}\"}}", o.class()) })
                    .raw("cost", "0.003").str("xid", &format!("life-{}-{}", li, c)).emit();
                let usable = matches!(&out, Out::Ok(_)) && lt == Out::Ok(total - c);
                let verified = match &out {
                    Out::Ok(sig) => verify3(hash, &msg, sig, pk).iter().all(|x| *x == Out::Ok(())),
                    _ => false,
                };
                Line::new("oracle").str("name", "accepted_key_fully_usable").raw("ok", if usable && verified { "true" } else { "false" })
                    .raw("variants", &shape.variants_json()).str("c", &c.to_string()).str("sign", out.class())
                    .str("lifetime", lt.class()).raw("verified", if verified { "true" } else { "false" }).emit();
            }
        }
    }
    // the parameter list exactly AT the configured limits (largest allowed height, capped at H10, and
    // smallest allowed Winternitz parameter on every level) with the largest hash: the signature is
    // the longest this build has to hold.  Implementation-only (too costly for the Gallina SHA-256).
    if max_levels <= 4 {
        let w_code = |w: usize| -> u32 { match w { 1 => 1, 2 => 2, 4 => 3, _ => 4 } };
        let h_code = |h: usize| -> u32 { if h >= 10 { 6 } else { 5 } };
        let levels: Vec<(u32, u32)> = (0..max_levels).map(|i| (w_code(ws[i]), h_code(heights[i]))).collect();
        let shape = Shape { hash: "sha256_256", levels: levels.clone() };
        let sd = vec![0x5au8; 32];
        let r = keygen("sha256_256", &levels, &sd);
        let mut ok = false;
        let mut detail = String::from(r.class());
        if let Out::Ok((sk, pk)) = &r {
            let total = 1u64 << shape.total_height();
            ok = true;
            // with an aux buffer as well: the top tree has the largest height this build allows
            let mut aux = vec![0u8; 100_000];
            let with_aux = keygen_aux("sha256_256", &levels, &sd, &mut aux);
            let (s_aux, _) = sign("sha256_256", &set_counter(sk, 1), b"at the limits", true, Some(&mut aux));
            let (s_plain, _) = sign("sha256_256", &set_counter(sk, 1), b"at the limits", true, None);
            if with_aux != r || s_aux != s_plain || !matches!(s_plain, Out::Ok(_)) {
                ok = false;
                detail = format!("aux: keygen={} sign={} (without aux: {})", with_aux.class(), s_aux.class(), s_plain.class());
            }
            for c in [0u64, total - 1] {
                let blob = set_counter(sk, c);
                let (out, calls) = sign("sha256_256", &blob, b"at the limits", true, None);
                let lt = lifetime("sha256_256", &blob);
                let verified = match &out {
                    Out::Ok(sig) => verify3("sha256_256", b"at the limits", sig, pk).iter().all(|x| *x == Out::Ok(())),
                    _ => false,
                };
                if !(verified && calls.len() == 1 && lt == Out::Ok(total - c)) && ok {
                    ok = false;
                    detail = format!("c={} sign={} lifetime={:?} verified={}", c, out.class(), lt, verified);
                }
            }
        }
        Line::new("oracle").str("name", "key_at_the_limits_fully_usable").raw("ok", if ok { "true" } else { "false" })
            .str("hash", "sha256_256").raw("variants", &shape.variants_json()).str("detail", &detail)
            .num("max_levels", max_levels as u64).emit();
    }
    // a key file written by a build with wider limits: must be refused on load, without a callback
    for params in [[0x13u8, 0x13, 0x13, 0x13, 0x13, 0x13, 0x13, 0x13], [0x63, 0xff, 0xff, 0xff, 0xff, 0xff, 0xff, 0xff],
                   [0x11, 0xff, 0xff, 0xff, 0xff, 0xff, 0xff, 0xff], [0x13, 0x53, 0x93, 0xff, 0xff, 0xff, 0xff, 0xff]] {
        let mut blob = vec![0u8; 8];
        blob.extend_from_slice(&params);
        blob.extend_from_slice(&[0x42u8; 16]);
        let mut levels: Vec<(u32, u32)> = Vec::new();
        for b in params.iter().take_while(|b| **b != 0xff) {
            levels.push(((b & 0xf) as u32, (b >> 4) as u32));
        }
        let inside = within(&levels, max_levels, &heights, &ws);
        if inside && levels.iter().any(|l| h_of(l.1) > 5) {
            continue;
        }
        let lt = lifetime(hash, &blob);
        Line::new("lifetime").str("hash", hash).hex("blob", &blob)
            .raw("life", &match &lt { Out::Ok(x) => format!("{{\"c\":\"ok\",\"n\":\"{}\"}}", x), o => format!("{{\"c\":\"{}\"}}", o.class()) })
            .raw("cost", "0.003").str("xid", &format!("foreign-life-{}", hex(&params))).emit();
        if !inside {
            let (out, calls) = sign(hash, &blob, b"foreign", true, None);
            Line::new("sign").str("hash", hash).hex("blob", &blob).hex("msg", b"foreign").raw("accept", "true")
                .out_bytes("sig", &out).raw("calls", &calls_json(&calls)).raw("cost", "0.02").str("xid", &format!("foreign-sign-{}", hex(&params))).emit();
            Line::new("oracle").str("name", "foreign_key_refused").raw("ok", if out == Out::Err && calls.is_empty() && lt == Out::Err { "true" } else { "false" })
                .hex("params", &params).str("sign", out.class()).str("lifetime", lt.class()).emit();
        }
    }
    // signatures announcing more levels than this build supports are rejected, not crashed on
    for nspk in 0..10u32 {
        let mut sig = nspk.to_be_bytes().to_vec();
        sig.extend_from_slice(&[0u8; 40]);
        let mut pk = (nspk + 1).to_be_bytes().to_vec();
        pk.extend_from_slice(&[0, 0, 0, 1, 0, 0, 0, 3]);
        pk.extend_from_slice(&[0u8; 32]);
        let v = verify3(hash, b"m", &sig, &pk);
        Line::new("verify").str("hash", hash).hex("msg", b"m").hex("sig", &sig).hex("pk", &pk).raw("verdict", &out_unit_json(&v[0]))
            .str("tag", "level_count").raw("cost", "0.002").str("kf", "").emit();
        Line::new("oracle").str("name", "verify_total").raw("ok", if v.iter().all(|x| *x == Out::Err) { "true" } else { "false" })
            .num("nspk", nspk as u64).emit();
    }
}
